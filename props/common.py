"""Shared helpers for the per-property rule modules: anchors found by role, term predicates."""
from __future__ import annotations

import ast
from typing import Dict, List, Optional, Set, Tuple

from sa.cfg import cfg_of
from sa.effects import classify
from sa.flow import Prov, find_calls, leaves, show, subterms
from sa.model import AnalysisError, Func, Program, norm, parent, walk_no_nested

_prov: Dict[int, Prov] = {}


def prov(p: Program) -> Prov:
    if id(p) not in _prov:
        _prov[id(p)] = Prov(p)
    return _prov[id(p)]


def commands(p: Program) -> Dict[str, Func]:
    c = p.shipped_commands()
    return c


def need(cmds, name) -> Func:
    if name not in cmds:
        raise AnalysisError(f"shipped command {name!r} not found among console-script commands {sorted(cmds)}")
    return cmds[name]


def module_roots(p: Program) -> List[str]:
    """functions called by module-level code of any package module (import-time effects)"""
    out = []
    for m, lst in p.module_calls.items():
        for call, tg in lst:
            for t in p.may_targets(tg):
                out.append(t)
    return out


def reach_from(p: Program, roots: List[str], with_import_time=True):
    r = list(roots)
    if with_import_time:
        r += [q for q in module_roots(p) if q not in r]
    return p.reachable(r)


def alts(t) -> List[tuple]:
    """flatten top-level alternatives of a term"""
    if isinstance(t, tuple) and t[0] == "alt":
        out = []
        for a in t[1]:
            out += alts(a)
        return out
    return [t]


def all_alternatives(t, limit=512) -> List[tuple]:
    """expand nested 'alt' nodes into a list of alt-free terms (bounded)"""
    if not isinstance(t, tuple):
        return [t]
    k = t[0]
    if k == "alt":
        out = []
        for a in t[1]:
            out += all_alternatives(a, limit)
            if len(out) > limit:
                raise AnalysisError("alternative expansion limit exceeded")
        return out
    if k == "call":
        arg_alts = [all_alternatives(a, limit) for a in t[2]]
        kw_keys = list(t[3])
        kw_alts = [all_alternatives(t[3][k2], limit) for k2 in kw_keys]
        recv_alts = all_alternatives(t[5], limit) if t[5] is not None else [None]
        out = [[]]
        for aa in arg_alts:
            out = [o + [a] for o in out for a in aa]
            if len(out) > limit:
                raise AnalysisError("alternative expansion limit exceeded")
        res = []
        for o in out:
            kws_list = [{}]
            for k2, ka in zip(kw_keys, kw_alts):
                kws_list = [dict(d, **{k2: a}) for d in kws_list for a in ka]
            for kws in kws_list:
                for r in recv_alts:
                    res.append(("call", t[1], o, kws, t[4], r))
        return res
    if k == "attr":
        return [("attr", b, t[2], t[3] if len(t) > 3 else None) for b in all_alternatives(t[1], limit)]
    if k == "elem":
        return [("elem", b, t[2]) for b in all_alternatives(t[1], limit)]
    if k == "op":
        out = [[]]
        for a in t[2]:
            aa = all_alternatives(a, limit)
            out = [o + [x] for o in out for x in aa]
            if len(out) > limit:
                raise AnalysisError("alternative expansion limit exceeded")
        return [("op", t[1], o) for o in out]
    return [t]


def is_call(t, suffix) -> bool:
    return isinstance(t, tuple) and t[0] == "call" and t[1].endswith(suffix)


def is_const(t, value=None) -> bool:
    return isinstance(t, tuple) and t[0] == "const" and (value is None or t[1] == value)


def encl_loops(node) -> List[ast.AST]:
    out = []
    for a in _anc(node):
        if isinstance(a, (ast.For, ast.While)):
            out.append(a)
        if isinstance(a, (ast.FunctionDef, ast.AsyncFunctionDef)):
            break
    return out


def _anc(node):
    x = parent(node)
    while x is not None:
        yield x
        x = parent(x)


def enclosing_stmt(node):
    x = node
    while x is not None and not isinstance(x, ast.stmt):
        x = parent(x)
    return x


def calls_in(p: Program, f: Func, pred) -> List[Tuple[ast.Call, List[str]]]:
    return [(c, tg) for c, tg in p.calls.get(f.qual, []) if any(pred(t) for t in tg)]


def callers_of(p: Program, fq: str) -> List[Tuple[Func, ast.Call]]:
    return [(p.funcs[c], call) for c, call in p.callers.get(fq, [])]


def funcs_calling(p: Program, pred) -> List[Func]:
    out = []
    for fq, lst in p.calls.items():
        if any(pred(t) for _, tg in lst for t in tg):
            out.append(p.funcs[fq])
    return out


def find_role(p: Program, what: str, pred, expect=None) -> List[Func]:
    fs = [f for f in p.funcs.values() if pred(f)]
    if expect is not None and len(fs) < expect:
        raise AnalysisError(f"role '{what}': {len(fs)} function(s) found, expected at least {expect}")
    return fs


def unshipped_modules(p: Program) -> Set[str]:
    """modules that are not imported (transitively) from the shipped console-script modules"""
    k = getattr(p, "_unshipped_memo", None)
    if k is not None:
        return k
    k = _unshipped_modules(p)
    try:
        p._unshipped_memo = k
    except Exception:
        pass
    return k


def _unshipped_modules(p: Program) -> Set[str]:
    eps = p.entry_points()
    roots = {d["module"] for d in eps.values()}
    seen = set()
    work = list(roots)
    while work:
        m = work.pop()
        if m in seen or m not in p.modules:
            continue
        seen.add(m)
        mod = p.modules[m]
        for n in ast.walk(mod.tree):
            if isinstance(n, ast.ImportFrom):
                base = p._resolve_from(mod, n.level, n.module)
                cands = [base] + [base + "." + a.name for a in n.names]
            elif isinstance(n, ast.Import):
                cands = [a.name for a in n.names]
            else:
                continue
            for c in cands:
                parts = c.split(".")
                for i in range(1, len(parts) + 1):
                    q = ".".join(parts[:i])
                    if q in p.modules and q not in seen:
                        work.append(q)
    return set(p.modules) - seen


# ---------------------------------------------------------------------- error table (shared R3.5 / R5.6)
EXIT_CODES_SPEC = {10: "completeness", 11: "verification failed", 12: "directory verification failed", 20: "single file not found", 21: "new files found", 30: "no history", 31: "modified manifest", 32: "no chain", 33: "missing manifest"}


EXPECTED_CLASS_OF_CODE = {
    10: "CompletenessCheckFailedException",
    11: "VerificationFailedException",
    12: "VerificationDirectoriesFailedException",
    20: "SingleFileNotFoundException",
    21: "NewFilesFoundException",
    30: "NoMHLHistoryException",
    31: "ModifiedMHLManifestFileException",
    32: "NoMHLChainException",
    33: "MissingMHLManifestException",
}


def exit_code_classes(p: Program) -> Dict[str, int]:
    """ClickException subclasses of the package with a constant exit_code"""
    out = {}
    for cq, c in p.classes.items():
        if not any(b.endswith("ClickException") for b in p.ext_bases(cq)):
            continue
        for k in p.mro(cq):
            code = None
            for s in p.classes[k].node.body:
                if isinstance(s, ast.Assign) and any(isinstance(t, ast.Name) and t.id == "exit_code" for t in s.targets):
                    code = p.fold(s.value, None, p.classes[k].module)
            if code is not None:
                out[cq] = code
                break
    return out


def class_with_code(p: Program, code: int) -> str:
    hits = [cq for cq, c in exit_code_classes(p).items() if c == code]
    if len(hits) == 1:
        return hits[0]
    # the code table itself is an obligation of R3.5 / R5.6; fall back to the class the property names for this code
    q = "ascmhl.errors." + EXPECTED_CLASS_OF_CODE.get(code, "?")
    if q in p.classes:
        return q
    raise AnalysisError(f"expected exactly one ClickException subclass with exit_code {code}, found {hits}")


def raised_class(p: Program, f: Func, raise_stmt: ast.Raise) -> Optional[str]:
    """class qual raised by `raise X(...)` / `raise X` / `raise var` (var assigned from constructor calls)"""
    e = raise_stmt.exc
    if e is None:
        return None
    if isinstance(e, ast.Call):
        e = e.func
    q = p.resolve_name_expr(e, f.module)
    if q in p.classes:
        return q
    return None


def loop_iteration_paths(g, loop):
    """paths of one iteration of `loop` (cfg node): list of (end, conds, trail) with end in
    'back' | 'exit' | 'raise' | 'out' (left the loop by break/else)"""
    body_ids = g.loop_body_ids(loop)
    starts = [(m, l, []) for m, l in loop.succ if l == "iter"] if isinstance(loop.ast, ast.For) else [(m, l, []) for m, l in loop.succ]
    stop = {loop.id} | {n.id for n in g.nodes if n.id not in body_ids and n.kind not in ("exit", "raise")}
    res = []
    for end, conds, trail in g.paths(starts, stop):
        if end is loop:
            kind = "back"
        elif end.kind == "exit":
            kind = "exit"
        elif end.kind == "raise":
            kind = "raise"
        else:
            kind = "out"
        res.append((kind, conds, trail))
    return res


def is_plain_iter(p: Program, it) -> bool:
    """iterable is the bare collection: no slice, reversed(), sorted(), filter, comprehension"""
    if isinstance(it, ast.Subscript):
        return False
    if isinstance(it, ast.Call):
        nm = norm(it.func)
        if nm in ("reversed", "sorted", "filter", "list", "iter", "enumerate", "zip", "itertools.islice", "islice", "map"):
            return False
    if isinstance(it, (ast.ListComp, ast.GeneratorExp, ast.SetComp)):
        return False
    return True


# ---------------------------------------------------------------------- canonical form of a branch condition
def canon_dep(test, label):
    """(text, label) of a branch condition in canonical polarity: `a != b` F == `a == b` T, `x is not None` == not `x is None`,
    `not e` flips, `X not in Y` flips; quotes normalised"""
    t, l = test, label
    flip = {"T": "F", "F": "T"}
    while True:
        if isinstance(t, ast.NamedExpr):
            t = t.value  # (x := e) is tested for the truth of e
            continue
        if isinstance(t, ast.UnaryOp) and isinstance(t.op, ast.Not):
            t, l = t.operand, flip.get(l, l)
            continue
        if isinstance(t, ast.Compare) and len(t.ops) == 1 and isinstance(t.ops[0], (ast.NotEq, ast.IsNot, ast.NotIn)):
            pos = {ast.NotEq: ast.Eq, ast.IsNot: ast.Is, ast.NotIn: ast.In}[type(t.ops[0])]()
            t = ast.Compare(left=t.left, ops=[pos], comparators=t.comparators)
            l = flip.get(l, l)
            continue
        break
    txt = norm(t).replace('"', "'")
    if txt.endswith(" == None"):
        txt = txt[: -len(" == None")] + " is None"
    return txt, l


def atomic_deps(test, label):
    """canonical atomic conditions implied by taking branch `label` of `test`:  (a or b, F) -> a F, b F;  (a and b, T) -> a T, b T;
    a test that cannot be decomposed for that branch stays whole"""
    t, l = test, label
    flip = {"T": "F", "F": "T"}
    while isinstance(t, (ast.UnaryOp, ast.NamedExpr)):
        if isinstance(t, ast.NamedExpr):
            t = t.value
        elif isinstance(t.op, ast.Not):
            t, l = t.operand, flip.get(l, l)
        else:
            break
    if isinstance(t, ast.BoolOp):
        if (isinstance(t.op, ast.Or) and l == "F") or (isinstance(t.op, ast.And) and l == "T"):
            out = []
            for v in t.values:
                out += atomic_deps(v, l)
            return out
    return [canon_dep(t, l)]


def branch_where(test, want_true: bool):
    """label of the branch of `test` on which its canonical (positive) form is true / false"""
    _, l = canon_dep(test, "T")
    # canon_dep(test, "T") tells which canonical truth value the T branch has: l == "T" means T branch <=> canonical true
    if want_true:
        return "T" if l == "T" else "F"
    return "F" if l == "T" else "T"


# ---------------------------------------------------------------------- shared rules between properties
_sub_cache = {}
_depth = [0]


def include_rules(report, p, modname: str, ids, why: str):
    """run another property's rule module and adopt the listed rules (unchanged ids) into this report.
    A property whose statement depends on a mechanism that another property's rules decide (e.g. routing, hashing)
    lists those rules too, so that breaking the mechanism is reported under every property it breaks."""
    import importlib

    from sa.rules import Report

    if _depth[0] > 0:
        return  # includes are resolved for the property being checked only, not transitively
    key = (id(p), modname)
    if key not in _sub_cache:
        mod = importlib.import_module("props." + modname)
        sub = Report(modname.upper(), report.tier, p)
        _depth[0] += 1
        try:
            mod.run(sub, p)
        except AnalysisError as e:
            # the other property's module could not interpret something; rules it completed before that point are still
            # usable here. A rule counts as completed when a later rule had already been started when the error came.
            sub.aborted_at = sub.rules[-1].id if sub.rules else None
            sub.abort_reason = str(e)
        finally:
            _depth[0] -= 1
        _sub_cache[key] = sub
    sub = _sub_cache[key]
    aborted_at = getattr(sub, "aborted_at", "-")
    have = {r.id for r in report.rules}
    for rr in sub.rules:
        if rr.id in ids and rr.id not in have:
            import copy

            r2 = copy.copy(rr)
            r2.notes = list(rr.notes) + [f"shared rule of {modname.upper()} included because {why}"]
            report.rules.append(r2)
    # (the rules are adopted first: a violation that a shared rule established before it gave up is still reported by the caller)
    if aborted_at != "-" and (aborted_at is None or aborted_at in ids or not set(ids) <= {r.id for r in sub.rules}):
        raise AnalysisError(f"shared rule(s) {sorted(ids)} of {modname.upper()} could not be evaluated: {sub.abort_reason}")
    missing = set(ids) - {r.id for r in sub.rules}
    if missing:
        raise AnalysisError(f"shared rules {sorted(missing)} not produced by {modname}")


# ---------------------------------------------------------------------- rename rewrite of the expected set (C03 R3.1 / C17 R17.2)
def rename_rewrite_sites(p: Program, pr, f: Func):
    """set comprehensions that map the expected set through the rename map, in f or in module-level helpers f calls.
    returns list of (func, SetComp)"""
    out = []
    cands = [f]
    for c, tg in p.calls.get(f.qual, []):
        for t in tg:
            if t in p.funcs and p.funcs[t].module is f.module and p.funcs[t].cls is None and p.funcs[t] not in cands:
                cands.append(p.funcs[t])
    for fn in cands:
        for n in walk_no_nested(fn.node):
            if isinstance(n, ast.SetComp) and len(n.generators) == 1:
                it_o = pr.origins(n.generators[0].iter, fn)
                if any(is_call(o, "set_of_file_paths") for o in it_o):
                    out.append((fn, n))
    # other sets may be derived from the expected set (folders of the recorded files, ...): the rewrite is the comprehension that consults the
    # rename map; failing that, the one that replaces the expected set in place (so that a rewrite which lost the map is still judged)
    def uses_map(fn, comp):
        return any(isinstance(x, ast.Name) and any(is_call(o, "renamed_path_with_previous_path") for o in pr.origins(x, fn)) for x in ast.walk(comp.elt))

    def in_place(fn, comp):
        par = parent(comp)
        return isinstance(par, ast.Assign) and len(par.targets) == 1 and isinstance(comp.generators[0].iter, ast.Name) and norm(par.targets[0]) == comp.generators[0].iter.id

    if len(out) > 1:
        narrowed = [(fn, c) for fn, c in out if uses_map(fn, c)] or [(fn, c) for fn, c in out if in_place(fn, c)]
        if narrowed:
            out = narrowed
    return out


def rename_rewrite_ok(p: Program, pr, fn: Func, comp: ast.SetComp):
    """is the comprehension {<new path of p if renamed else p> for p in <set_of_file_paths()>} ?  (ok, why)"""
    gen = comp.generators[0]
    if gen.ifs:
        return False, "the comprehension filters paths"
    if not isinstance(gen.target, ast.Name):
        return False, "unrecognised target"
    v = gen.target.id
    e = comp.elt
    maps = set()

    def is_map(x):
        for o in pr.origins(x, fn):
            if is_call(o, "renamed_path_with_previous_path"):
                return True
        return False

    def is_p(x):
        return isinstance(x, ast.Name) and x.id == v

    def sub_p(x):  # R[p]
        return isinstance(x, ast.Subscript) and is_map(x.value) and is_p(x.slice)

    def get_p(x, default=None):  # R.get(p[, d])
        if isinstance(x, ast.Call) and isinstance(x.func, ast.Attribute) and x.func.attr == "get" and is_map(x.func.value) and x.args and is_p(x.args[0]):
            if len(x.args) == 1:
                return default in (None, "none")
            if default == "none":
                return isinstance(x.args[1], ast.Constant) and x.args[1].value is None
            if default == "p":
                return is_p(x.args[1])
        return False

    # R.get(p, p)
    if get_p(e, "p"):
        return True, ""
    # R.get(p) or p
    if isinstance(e, ast.BoolOp) and isinstance(e.op, ast.Or) and len(e.values) == 2 and get_p(e.values[0], "none") and is_p(e.values[1]):
        return True, ""
    if isinstance(e, ast.IfExp):
        t = e.test
        # p if R.get(p[, None]) is None else R[p]
        if isinstance(t, ast.Compare) and len(t.ops) == 1 and isinstance(t.comparators[0], ast.Constant) and t.comparators[0].value is None and get_p(t.left, "none"):
            if isinstance(t.ops[0], (ast.Is, ast.Eq)) and is_p(e.body) and sub_p(e.orelse):
                return True, ""
            if isinstance(t.ops[0], (ast.IsNot, ast.NotEq)) and sub_p(e.body) and is_p(e.orelse):
                return True, ""
        # R[p] if p in R else p
        if isinstance(t, ast.Compare) and len(t.ops) == 1 and is_p(t.left) and is_map(t.comparators[0]):
            if isinstance(t.ops[0], ast.In) and sub_p(e.body) and is_p(e.orelse):
                return True, ""
            if isinstance(t.ops[0], ast.NotIn) and is_p(e.body) and sub_p(e.orelse):
                return True, ""
    return False, f"element expression `{norm(e)[:80]}` is not 'the new path of p if p was renamed, else p'"


LAZY_BUILTINS = {"map", "filter", "iter", "zip", "reversed", "enumerate", "itertools.chain", "chain", "itertools.islice", "islice"}


def lazy_iterable(p, f, e, depth=4, _seen=None):
    """the construct through which `e` can be a lazy iterator (generator expression, generator call, map/filter/...): such an object is
    truthy whether or not it yields anything, so `if e:` says nothing about emptiness. None when every value found is a sized container."""
    _seen = _seen if _seen is not None else set()
    if e is None or depth < 0:
        return None
    if isinstance(e, ast.GeneratorExp):
        return f"generator expression at {f.loc(e)}"
    if isinstance(e, ast.IfExp):
        return lazy_iterable(p, f, e.body, depth, _seen) or lazy_iterable(p, f, e.orelse, depth, _seen)
    if isinstance(e, ast.BoolOp):
        for v in e.values:
            r = lazy_iterable(p, f, v, depth, _seen)
            if r:
                return r
        return None
    if isinstance(e, ast.Call):
        if norm(e.func) in LAZY_BUILTINS:
            return f"{norm(e.func)}(...) at {f.loc(e)}"
        for q in p.resolve_call(e, f):
            g = p.funcs.get(q)
            if g is not None and g.is_generator():
                return f"generator {g.qual} called at {f.loc(e)}"
        return None
    if isinstance(e, ast.Name):
        key = (f.qual, e.id)
        if key in _seen:
            return None
        _seen.add(key)
        for n in walk_no_nested(f.node):
            if isinstance(n, ast.Assign) and any(isinstance(t, ast.Name) and t.id == e.id for t in n.targets):
                r = lazy_iterable(p, f, n.value, depth, _seen)
                if r:
                    return r
            if isinstance(n, ast.AnnAssign) and isinstance(n.target, ast.Name) and n.target.id == e.id and n.value is not None:
                r = lazy_iterable(p, f, n.value, depth, _seen)
                if r:
                    return r
        if e.id in f.params or e.id in f.kwonly:
            for cq, call in p.callers.get(f.qual, []):
                c = p.funcs.get(cq)
                if c is None:
                    continue
                r = lazy_iterable(p, c, p.bind_args(f, call).get(e.id), depth - 1, _seen)
                if r:
                    return r
    return None


def reused_lazy_iterators(p, f):
    """[(binding stmt, consuming node, loop)] - a local name bound OUTSIDE a loop to a single-use iterator (filter/map/generator expression/generator call ...)
    and consumed (iterated, or handed to a consuming builtin) INSIDE that loop: from the loop's second iteration on it is exhausted and yields nothing"""
    out = []
    for asg in walk_no_nested(f.node):
        if not (isinstance(asg, ast.Assign) and len(asg.targets) == 1 and isinstance(asg.targets[0], ast.Name)):
            continue
        name = asg.targets[0].id
        # the value itself must be lazy (not merely something reachable through parameters)
        v = asg.value
        direct = isinstance(v, ast.GeneratorExp) or (isinstance(v, ast.Call) and (norm(v.func) in LAZY_BUILTINS or any(p.funcs.get(q) is not None and p.funcs[q].is_generator() for q in p.resolve_call(v, f))))
        if not direct:
            continue
        # single binding only (a re-binding inside the loop refreshes it)
        binds = [n for n in walk_no_nested(f.node) if isinstance(n, (ast.Assign, ast.AugAssign, ast.AnnAssign)) and any(isinstance(x, ast.Name) and isinstance(x.ctx, ast.Store) and x.id == name for x in ast.walk(n))]
        if len(binds) != 1:
            continue
        for loop in walk_no_nested(f.node):
            if not isinstance(loop, (ast.For, ast.While)):
                continue
            if _is_inside(asg, loop):
                continue
            for st in loop.body:
                for n in ast.walk(st):
                    use = None
                    if isinstance(n, (ast.For, ast.comprehension)) and isinstance(n.iter, ast.Name) and n.iter.id == name:
                        use = n if isinstance(n, ast.For) else n.iter
                    elif isinstance(n, ast.Call) and norm(n.func) in ("list", "tuple", "set", "sorted", "any", "all", "sum", "max", "min", "next", "len", "dict", "frozenset") and n.args and isinstance(n.args[0], ast.Name) and n.args[0].id == name:
                        use = n
                    if use is not None:
                        out.append((asg, use, loop))
    return out


def _is_inside(n, container):
    x = n
    while x is not None:
        if x is container:
            return True
        x = parent(x)
    return False


def lazy_reuse_rule(report, p, rid, roots, what):
    """shared shape of R19.4: in everything reachable from `roots`, no single-use iterator bound outside a loop is consumed inside it"""
    r = report.rule(
        rid,
        f"no single-use iterator (filter / map / generator expression / generator call) bound outside a loop is consumed inside it in anything {what} reaches: "
        "from the loop's second round on it is exhausted, so everything after the first file / folder / generation silently sees an empty collection",
        3,
    )
    reach = p.reachable(list(roots))
    for q in sorted(reach):
        f = p.funcs.get(q)
        if f is None or not f.module.name.startswith("ascmhl"):
            continue
        r.instance(f, f.node, f"{f.qual}: loops scanned")
        for asg, use, loop in reused_lazy_iterators(p, f):
            r.check(False, f, use, f"`{norm(asg.targets[0])}` is bound once to a single-use iterator ({norm(asg.value)[:60]}, line {asg.lineno}) and consumed inside the loop at line {loop.lineno}: only the first round sees any element", construct=f"single-use iterator {norm(asg.targets[0])} consumed inside a loop")
    r.check(True, None, None, "")
    return r


def neg_zero_slices(p, pr, f):
    """[(subscript node, bound expr)] - `seq[-k:]` (or `seq[:-k]`) where k is the result of a modulo operation (so it is 0 for some inputs) and the slice is not
    guarded by a test of k: `seq[-0:]` is the WHOLE sequence and `seq[:-0]` is EMPTY - the opposite of what `the last / all but the last k items` means"""
    from sa.cfg import cfg_of

    out = []
    g = None
    for n in walk_no_nested(f.node):
        if not (isinstance(n, ast.Subscript) and isinstance(n.slice, ast.Slice)):
            continue
        for which, b in (("lower", n.slice.lower), ("upper", n.slice.upper)):
            if not (isinstance(b, ast.UnaryOp) and isinstance(b.op, ast.USub)):
                continue
            k = b.operand
            if isinstance(k, ast.Constant):
                continue
            # is k a remainder?
            kexpr = k
            if isinstance(k, ast.Name):
                binds = [a for a in walk_no_nested(f.node) if isinstance(a, ast.Assign) and len(a.targets) == 1 and isinstance(a.targets[0], ast.Name) and a.targets[0].id == k.id]
                if len(binds) == 1:
                    kexpr = binds[0].value
            if not (isinstance(kexpr, ast.BinOp) and isinstance(kexpr.op, ast.Mod)):
                continue
            g = g or cfg_of(f)
            ktxt = norm(k)
            nn = g.node_for(n)
            guarded = False
            for t_, l in g.necessary_branches(nn):
                for a, lab in atomic_deps(t_.ast, l):
                    if (a == ktxt and lab == "T") or (a in (f"{ktxt} == 0", f"0 == {ktxt}") and lab == "F") or (a in (f"{ktxt} > 0", f"{ktxt} >= 1") and lab == "T"):
                        guarded = True
            # expression-level guard:  seq[-k:] if k else []
            x, par = n, parent(n)
            while par is not None and not isinstance(par, ast.stmt):
                if isinstance(par, ast.IfExp) and x is par.body and norm(par.test) in (ktxt, f"{ktxt} > 0", f"{ktxt} != 0"):
                    guarded = True
                x, par = par, parent(par)
            if not guarded:
                out.append((n, k, which))
    return out


def neg_zero_slice_rule(report, p, pr, rid, roots, what):
    r = report.rule(
        rid,
        f"no `seq[-k:]` / `seq[:-k]` with a remainder k (`n % m`, zero for every multiple) without a test of k in anything {what} reaches: `seq[-0:]` is the whole sequence, not the empty tail - "
        "a batching helper written this way emits every item twice whenever the item count is a multiple of the batch size",
        3,
    )
    for q in sorted(p.reachable(list(roots))):
        f = p.funcs.get(q)
        if f is None or not f.module.name.startswith("ascmhl"):
            continue
        r.instance(f, f.node, f"{f.qual}: slices scanned")
        for n, k, which in neg_zero_slices(p, pr, f):
            r.check(False, f, n, f"`{norm(n)[:60]}` with `{norm(k)}` a remainder: when it is 0 (the count is an exact multiple) the slice is {'the WHOLE sequence' if which == 'lower' else 'EMPTY'} instead of {'empty' if which == 'lower' else 'the whole sequence'} - every item is handled twice / none at all for exactly those counts", construct=f"slice bound -{norm(k)} can be -0")
    r.check(True, None, None, "")
    return r


# ---------------------------------------------------------------------- sorting of values that cannot be ordered
def _package_fields(p):
    k = ("pkgfields", id(p))
    if k not in _cache_common:
        names = set()
        for c in p.classes.values():
            for m in c.methods.values():
                for n in walk_no_nested(m.node):
                    if isinstance(n, ast.Attribute) and isinstance(n.ctx, ast.Store) and isinstance(n.value, ast.Name) and n.value.id == "self":
                        names.add(n.attr)
        _cache_common[k] = names
    return _cache_common[k]


_cache_common = {}


def _orderable_class(p, cq) -> bool:
    return any(m in p.classes[k].methods for k in p.mro(cq) for m in ("__lt__", "__gt__", "__le__", "__ge__")) or any(b.split(".")[-1] in ("NamedTuple", "tuple", "str", "int", "float", "IntEnum") for b in p.ext_bases(cq))


def unorderable_sorts(p, f):
    """[(call node, element display, offending element, why)] - `sorted(C)` / `C.sort()` / `min(C)` / `max(C)` without a key in function f where C receives tuple
    displays (or bare values) containing an instance of a package class that defines no ordering: as soon as two elements tie on everything in front of the
    object (or at once, for bare objects) Python compares the objects and raises TypeError"""
    out = []
    fields = _package_fields(p)

    def is_model(e, fn):
        try:
            t = p.etype(e, fn)
        except Exception:
            t = None
        if t and t[0] == "C" and t[1] in p.classes:
            return not _orderable_class(p, t[1])
        if t:
            return False
        if isinstance(e, ast.Name):
            # a value whose fields are read (`e.hash_format`, not a method call) and whose fields are fields of package classes
            loads = [n for n in walk_no_nested(fn.node) if isinstance(n, ast.Attribute) and isinstance(n.ctx, ast.Load) and isinstance(n.value, ast.Name) and n.value.id == e.id and not (isinstance(parent(n), ast.Call) and parent(n).func is n)]
            return bool(loads) and all(n.attr in fields or n.attr.startswith("temp_") for n in loads)
        return False

    def displays_into(name, fn):
        """element expressions put into the local collection `name` in fn"""
        els = []
        for n in walk_no_nested(fn.node):
            if isinstance(n, ast.Call) and isinstance(n.func, ast.Attribute) and n.func.attr in ("append", "add") and isinstance(n.func.value, ast.Name) and n.func.value.id == name and n.args:
                els.append((n.args[0], fn))
            elif isinstance(n, ast.Assign) and any(isinstance(t, ast.Name) and t.id == name for t in n.targets):
                v = n.value
                if isinstance(v, (ast.List, ast.Set, ast.Tuple)):
                    els += [(x, fn) for x in v.elts]
                elif isinstance(v, (ast.ListComp, ast.SetComp, ast.GeneratorExp)):
                    els.append((v.elt, fn))
            elif isinstance(n, ast.AugAssign) and isinstance(n.target, ast.Name) and n.target.id == name and isinstance(n.value, (ast.List, ast.Tuple)):
                els += [(x, fn) for x in n.value.elts]
        return els

    for n in walk_no_nested(f.node):
        if not isinstance(n, ast.Call) or any(k.arg == "key" for k in n.keywords):
            continue
        coll = None
        if isinstance(n.func, ast.Name) and n.func.id in ("sorted", "min", "max") and len(n.args) == 1:
            coll = n.args[0]
        elif isinstance(n.func, ast.Attribute) and n.func.attr == "sort" and not n.args:
            coll = n.func.value
        if coll is None:
            continue
        els = []
        if isinstance(coll, (ast.ListComp, ast.SetComp, ast.GeneratorExp)):
            els = [(coll.elt, f)]
        elif isinstance(coll, (ast.List, ast.Set, ast.Tuple)):
            els = [(x, f) for x in coll.elts]
        elif isinstance(coll, ast.Name):
            els = displays_into(coll.id, f)
            if not els and coll.id in f.params:
                for cf, call in callers_of(p, f.qual):
                    b = p.bind_args(f, call)
                    a = b.get(coll.id)
                    if isinstance(a, ast.Name):
                        els += displays_into(a.id, cf)
        for e, fn in els:
            if isinstance(e, ast.Tuple):
                for i, x in enumerate(e.elts):
                    if is_model(x, fn):
                        out.append((n, e, x, f"element {i + 1} of the tuples `{norm(e)[:70]}` is an object without an ordering: two tuples that tie on the {i} value(s) in front of it make Python compare the objects" if i else f"the first element of the tuples `{norm(e)[:70]}` is an object without an ordering"))
                        break
            elif is_model(e, fn):
                out.append((n, e, e, f"the elements (`{norm(e)[:50]}`) are objects without an ordering"))
    return out


def unorderable_sort_rule(report, p, rid, what="any command"):
    r = report.rule(
        rid,
        f"no un-keyed sorted() / .sort() / min() / max() over values that contain model objects without an ordering (tuples carrying a hash entry / media hash / history): "
        f"a tie on the leading elements makes Python compare the objects and raises TypeError in the middle of {what} - before the exit code is decided",
        3,
    )
    n_sorts = 0
    for q, f in sorted(p.funcs.items()):
        if not f.module.name.startswith("ascmhl"):
            continue
        for n in walk_no_nested(f.node):
            if isinstance(n, ast.Call) and ((isinstance(n.func, ast.Name) and n.func.id in ("sorted", "min", "max")) or (isinstance(n.func, ast.Attribute) and n.func.attr == "sort")):
                n_sorts += 1
                r.instance(f, n, norm(n)[:60])
        for call, disp, el, why in unorderable_sorts(p, f):
            r.check(False, f, call, f"`{norm(call)[:60]}` sorts without a key and {why}: TypeError ('<' not supported) - e.g. two records of one folder and one generation in different hash formats", construct=f"un-keyed sort over tuples holding `{norm(el)[:30]}`")
    r.check(True, None, None, "")
    return r


# ---------------------------------------------------------------------- character-level rewrites of a string value
_REWRITE_LEAVES = ("join", "replace", "translate", "sub", "subn", "encode", "decode", "strip", "lstrip", "rstrip", "lower", "upper", "casefold", "title", "capitalize",
                   "swapcase", "normalize", "expandtabs", "quote", "quote_plus", "unquote", "removeprefix", "removesuffix", "ljust", "rjust", "center", "zfill", "format")


def strip_string_rewrites(term):
    """(inner term, [rewrite names]) - peels calls / operators that map a string to another string character by character or by cutting (`''.join(<comp over s>)`,
    s.replace(..), re.sub(.., s), s.encode().decode(), unicodedata.normalize(.., s), s[:n], s.strip() ...) off a provenance term"""
    names = []
    t = term
    for _ in range(8):
        while t[0] == "alt" and len(t[1]) == 1:
            t = t[1][0]
        if t[0] == "call" and t[1].split(".")[-1] in _REWRITE_LEAVES:
            leaf = t[1].split(".")[-1]
            cands = list(t[2]) + ([t[5]] if len(t) > 5 and t[5] is not None else [])
            inner = None
            for c in cands:
                if c is None:
                    continue
                if c[0] == "op" and c[1] == "comp" and c[2]:
                    inner = c[2][0]
                    break
                if c[0] not in ("const",):
                    inner = c if inner is None else inner
            if inner is None:
                break
            names.append(leaf)
            t = inner
            continue
        if t[0] == "op" and t[1] == "slice" and t[2]:
            names.append("slice")
            t = t[2][0]
            continue
        break
    return t, names


# ---------------------------------------------------------------------- path search that respects repeated tests
def consistent_path(g, start, stops, avoid, limit=20000):
    """like g.find_path(start, stops, avoid) but without paths that take two contradicting branches: the conditions under which `start` executes, and the
    branches taken on the way, are remembered as facts (canonical atoms); a later test of the same atom can only go the same way while none of the names in it
    has been re-bound, and a plain copy `x = y` hands the facts about y on to x. (Two `if record is None:` in a row - the second one written by a caller of a
    helper that contained the first - are one decision, not two.)"""
    import re as _re

    facts0 = {}
    for t, l in g.necessary_branches(start):
        for a, l2 in atomic_deps(t.ast, l):
            facts0[a] = l2

    def _stores(node):
        a = node.ast
        out = set()
        if a is None:
            return out
        if node.kind == "loop" and isinstance(a, ast.For):
            roots = [a.target]
        elif node.kind in ("test",):
            roots = [x for x in ast.walk(a) if isinstance(x, ast.NamedExpr)]
            roots = [x.target for x in roots]
        else:
            roots = [a]
        for r in roots:
            for x in ast.walk(r):
                if isinstance(x, ast.Name) and isinstance(x.ctx, (ast.Store, ast.Del)):
                    out.add(x.id)
                elif isinstance(x, ast.Attribute) and isinstance(x.ctx, (ast.Store, ast.Del)):
                    out.add(norm(x))
        return out

    def _mentions(atom, name):
        return _re.search(r"(?<![\w.])" + _re.escape(name) + r"(?![\w])", atom) is not None

    seen = set()
    stack = [(start, tuple(sorted(facts0.items())), (start,))]
    steps = 0
    while stack:
        n, facts_t, trail = stack.pop()
        steps += 1
        if steps > limit:
            raise AnalysisError("consistent_path: search limit exceeded")
        facts = dict(facts_t)
        # effect of the node itself (not of the start node's own condition)
        if n is not start or True:
            st = _stores(n)
            if st:
                copy_from = None
                a = n.ast
                if n.kind == "stmt" and isinstance(a, ast.Assign) and len(a.targets) == 1 and isinstance(a.targets[0], ast.Name) and isinstance(a.value, ast.Name):
                    copy_from = a.value.id
                for k in list(facts):
                    if any(_mentions(k, s_) for s_ in st):
                        del facts[k]
                if copy_from is not None:
                    tgt = a.targets[0].id
                    for k, v in list(facts.items()):
                        if k == copy_from:
                            facts[tgt] = v
                        elif k == f"{copy_from} is None":
                            facts[f"{tgt} is None"] = v
        for m, l in n.succ:
            nf = dict(facts)
            if n.kind == "test" and l in ("T", "F"):
                atoms = atomic_deps(n.ast, l)
                if any(a_ in nf and nf[a_] != lab for a_, lab in atoms):
                    continue
                for a_, lab in atoms:
                    nf[a_] = lab
            if m.id in stops:
                return list(trail) + [m]
            if m.id in avoid:
                continue
            key = (m.id, tuple(sorted(nf.items())))
            if key in seen:
                continue
            seen.add(key)
            stack.append((m, key[1], trail + (m,)))
    return None


# ---------------------------------------------------------------------- conditions of one path, with path-local definitions put back
def resolved_path_conditions(g, trail):
    """([(test expression, label)], feasible) for the path `trail` (list of cfg nodes): every test is given with the names that the path itself bound
    (`__ret__h = spec.match_file(rel)` ... `if __ret__h:`) replaced by the bound expression, as long as nothing the expression reads was re-bound in between;
    a test that thereby becomes a constant decides feasibility (`__ret__h = False` ... `if __ret__h:` cannot take the true branch)."""
    import copy as _copy

    env = {}  # name -> (expr, position)
    last_store = {}  # name -> position of its last binding on the path
    out = []
    feasible = True

    def _free(e):
        return {x.id for x in ast.walk(e) if isinstance(x, ast.Name)}

    def _subst(e, pos, depth=0):
        class _S(ast.NodeTransformer):
            def visit_Name(self, node):
                if isinstance(node.ctx, ast.Load) and node.id in env and depth < 4:
                    val, at = env[node.id]
                    if all(last_store.get(n_, -1) <= at for n_ in _free(val)):
                        return _subst(_copy.deepcopy(val), pos, depth + 1)
                return node

        return _S().visit(e)

    for i, n in enumerate(trail[:-1]):
        nxt = trail[i + 1]
        a = n.ast
        if n.kind == "test":
            lab = next((l for m, l in n.succ if m is nxt), None)
            if lab in ("T", "F"):
                t2 = _subst(_copy.deepcopy(a), i)
                ast.fix_missing_locations(t2)
                v = t2
                neg = False
                while isinstance(v, ast.UnaryOp) and isinstance(v.op, ast.Not):
                    v, neg = v.operand, not neg
                if isinstance(v, ast.Constant):
                    truth = bool(v.value) != neg
                    if truth != (lab == "T"):
                        feasible = False
                out.append((t2, lab))
            for w in ast.walk(a):
                if isinstance(w, ast.NamedExpr) and isinstance(w.target, ast.Name):
                    last_store[w.target.id] = i
                    env.pop(w.target.id, None)
        elif n.kind == "stmt" and a is not None:
            if isinstance(a, ast.Assign) and len(a.targets) == 1 and isinstance(a.targets[0], ast.Name):
                nm = a.targets[0].id
                val = _subst(_copy.deepcopy(a.value), i)
                last_store[nm] = i
                env[nm] = (val, i)
            else:
                for w in ast.walk(a):
                    if isinstance(w, ast.Name) and isinstance(w.ctx, (ast.Store, ast.Del)):
                        last_store[w.id] = i
                        env.pop(w.id, None)
        elif n.kind == "loop" and a is not None and isinstance(a, ast.For):
            for w in ast.walk(a.target):
                if isinstance(w, ast.Name):
                    last_store[w.id] = i
                    env.pop(w.id, None)
    return out, feasible


# ---------------------------------------------------------------------- a local that shadows a module-level name
def shadowed_globals(p, f):
    """[(load node, name, first store node)] - names that function f binds somewhere (so they are LOCAL for the whole function) but that are also module-level
    names of its module (an import, a function, a class, a constant) and are read at a point that a path from the function's entry reaches without passing any
    binding: that read raises UnboundLocalError instead of using the module-level object"""
    fn = f.node
    if any(isinstance(n, (ast.Global, ast.Nonlocal)) for n in walk_no_nested(fn)):
        declared = {nm for n in walk_no_nested(fn) if isinstance(n, (ast.Global, ast.Nonlocal)) for nm in n.names}
    else:
        declared = set()
    m = f.module
    module_names = set(m.imports) | {n.name for n in m.tree.body if isinstance(n, (ast.FunctionDef, ast.AsyncFunctionDef, ast.ClassDef))} | {t.id for n in m.tree.body if isinstance(n, ast.Assign) for t in n.targets if isinstance(t, ast.Name)}
    params = set(f.params) | set(f.kwonly) | ({f.vararg} if f.vararg else set()) | ({f.kwarg} if f.kwarg else set())
    stores = {}
    for n in walk_no_nested(fn):
        if isinstance(n, ast.Name) and isinstance(n.ctx, (ast.Store, ast.Del)):
            stores.setdefault(n.id, []).append(n)
        elif isinstance(n, (ast.Import, ast.ImportFrom)):
            for a in n.names:
                stores.setdefault((a.asname or a.name).split(".")[0], []).append(n)
        elif isinstance(n, ast.ExceptHandler) and n.name:
            stores.setdefault(n.name, []).append(n)
    cands = [nm for nm in stores if nm in module_names and nm not in params and nm not in declared]
    if not cands:
        return []
    g = cfg_of(f)
    out = []
    for nm in cands:
        store_nodes = set()
        for s in stores[nm]:
            try:
                store_nodes.add(g.node_for(s).id)
            except AnalysisError:
                pass
        for n in walk_no_nested(fn):
            if isinstance(n, ast.Name) and n.id == nm and isinstance(n.ctx, ast.Load):
                # comprehension variables are their own scope
                if any(isinstance(a, (ast.ListComp, ast.SetComp, ast.DictComp, ast.GeneratorExp)) and any(isinstance(t, ast.Name) and t.id == nm for gen in a.generators for t in ast.walk(gen.target)) for a in _ancestors(n)):
                    continue
                try:
                    ln = g.node_for(n)
                except AnalysisError:
                    continue
                if ln.id in store_nodes:
                    # `x = x + 1` style: the read happens before the store of the same statement
                    pass
                path = g.find_path(g.entry, {ln.id}, avoid=store_nodes - {ln.id})
                if path is not None or ln.id in store_nodes and g.find_path(g.entry, {ln.id}, avoid=store_nodes - {ln.id}) is not None:
                    out.append((n, nm, stores[nm][0]))
                    break
    return out


def _ancestors(n):
    x = parent(n)
    while x is not None:
        yield x
        x = parent(x)


def shadowed_global_rule(report, p, rid):
    r = report.rule(
        rid,
        "no function binds a local under the name of a module-level object it also needs (an imported module such as `errors`, a function, a constant): a binding ANYWHERE "
        "in the function makes the name local for the whole function, and every read that can execute before the binding raises UnboundLocalError - typically on the "
        "error path (`raise errors.X(...)`), which turns a dedicated exit code into a traceback with exit 1",
        3,
    )
    n_funcs = 0
    for q, f in sorted(p.funcs.items()):
        if not f.module.name.startswith("ascmhl") or f.module.name in unshipped_modules(p):
            continue
        n_funcs += 1
        for load, nm, store in shadowed_globals(p, f):
            r.instance(f, load, f"{f.name}: {nm}")
            r.check(False, f, load, f"`{nm}` is read here as the module-level `{nm}` of {f.module.name.split('.')[-1]}, but line {getattr(store, 'lineno', '?')} of the same function binds a local `{nm}`: the name is local throughout {f.name}, so this read raises UnboundLocalError whenever it executes before that line (e.g. `raise {nm}.…` on an early error path gives exit 1 and a traceback instead of the command's exit code)", construct=f"{f.name}: local `{nm}` shadows the module-level name")
    r.instance(None, None, f"{n_funcs} shipped functions scanned for locals that shadow module-level names")
    r.instance(None, None, "scoping rule: CPython decides local / global per function at compile time")
    r.instance(None, None, "reads are judged by reachability from the function entry without passing a binding")
    r.check(True, None, None, "")
    return r


def resolve_local_iterable(f, expr):
    """the expression a loop really iterates: a local name bound exactly once in f is replaced by its value, and `X if <X's receiver> else []` (an empty
    fall-back for a missing object) by X"""
    e = expr
    for _ in range(3):
        if isinstance(e, ast.Name) and f is not None and e.id not in f.params:
            binds = [a for a in walk_no_nested(f.node) if isinstance(a, ast.Assign) and len(a.targets) == 1 and isinstance(a.targets[0], ast.Name) and a.targets[0].id == e.id]
            stores = [n for n in walk_no_nested(f.node) if isinstance(n, ast.Name) and n.id == e.id and isinstance(n.ctx, ast.Store)]
            if len(binds) == 1 and len(stores) == 1:
                e = binds[0].value
                continue
        if isinstance(e, ast.IfExp):
            empty = lambda x: isinstance(x, (ast.List, ast.Tuple)) and not x.elts
            if empty(e.orelse) and not empty(e.body):
                e = e.body
                continue
            if empty(e.body) and not empty(e.orelse):
                e = e.orelse
                continue
        break
    return e


# ---------------------------------------------------------------------- division by a count that can be zero
def zero_divisions(p, f):
    """[(binop node, divisor text)] - `/`, `//`, `%` in f whose right operand is a local COUNT (built from names that start at 0 and are only incremented,
    from len(...), or from sums / differences of such) and that executes without a test of that divisor: for the inputs on which nothing was counted the
    statement raises ZeroDivisionError"""
    out = []
    stores = {}
    for n in walk_no_nested(f.node):
        if isinstance(n, ast.Assign) and len(n.targets) == 1 and isinstance(n.targets[0], ast.Name):
            stores.setdefault(n.targets[0].id, []).append(n.value)
        elif isinstance(n, ast.AugAssign) and isinstance(n.target, ast.Name):
            stores.setdefault(n.target.id, []).append(n)

    def is_count(e, depth=0):
        if depth > 4:
            return False
        if isinstance(e, ast.Call) and isinstance(e.func, ast.Name) and e.func.id == "len":
            return True
        if isinstance(e, ast.BinOp) and isinstance(e.op, (ast.Add, ast.Sub)):
            return is_count(e.left, depth + 1) and is_count(e.right, depth + 1)
        if isinstance(e, ast.Name):
            vs = stores.get(e.id)
            if not vs or e.id in f.params:
                return False
            zero_start = any(isinstance(v, ast.Constant) and v.value == 0 and not isinstance(v.value, bool) for v in vs if not isinstance(v, ast.AugAssign))
            rest_ok = all((isinstance(v, ast.AugAssign) and isinstance(v.op, (ast.Add, ast.Sub))) or (isinstance(v, ast.Constant) and isinstance(v.value, int)) or (not isinstance(v, ast.AugAssign) and is_count(v, depth + 1)) for v in vs)
            return rest_ok and (zero_start or any(not isinstance(v, (ast.AugAssign, ast.Constant)) and is_count(v, depth + 1) for v in vs))
        return False

    g = None
    for n in walk_no_nested(f.node):
        if isinstance(n, ast.BinOp) and isinstance(n.op, (ast.Div, ast.FloorDiv, ast.Mod)) and not isinstance(n.right, ast.Constant) and not isinstance(n.left, ast.Constant if isinstance(n.op, ast.Mod) and isinstance(getattr(n.left, "value", None), str) else ()):
            if isinstance(n.op, ast.Mod) and isinstance(n.left, (ast.Constant, ast.JoinedStr)):
                continue  # string formatting
            if not is_count(n.right):
                continue
            if g is None:
                g = cfg_of(f)
            dtxt = norm(n.right)
            guarded = False
            try:
                node = g.node_for(n)
            except AnalysisError:
                continue
            names = {x.id for x in ast.walk(n.right) if isinstance(x, ast.Name)}
            for t_, l_ in g.necessary_branches(node):
                for a_, l2 in atomic_deps(t_.ast, l_):
                    if (a_ == dtxt and l2 == "T") or (a_ in (f"{dtxt} == 0",) and l2 == "F") or (a_ in (f"{dtxt} > 0", f"0 < {dtxt}", f"{dtxt} >= 1") and l2 == "T") or (len(names) == 1 and a_.split(" ")[0] in names and ((" > 0" in a_ and l2 == "T") or (a_ == next(iter(names)) and l2 == "T"))):
                        guarded = True
            x, up = n, parent(n)
            while up is not None and not isinstance(up, ast.stmt):
                if isinstance(up, ast.IfExp) and any(y is x for y in ast.walk(up.body)) and any(a_ == dtxt and l2 == "T" for a_, l2 in atomic_deps(up.test, "T")):
                    guarded = True
                x, up = up, parent(up)
            if not guarded:
                out.append((n, dtxt))
    return out


def zero_division_rule(report, p, rid):
    r = report.rule(
        rid,
        "no division or remainder by a COUNT that can be zero: a divisor built from counters that start at 0 / from len(...) is tested before it is used "
        "(a percentage in a summary line, an average) - for the inputs on which nothing was counted (an unchanged flat folder, a history without directory hashes) "
        "the statement raises ZeroDivisionError and the command ends with a traceback instead of its exit code",
        2,
    )
    nf = 0
    for q, f in sorted(p.funcs.items()):
        if not f.module.name.startswith("ascmhl") or f.module.name in unshipped_modules(p):
            continue
        nf += 1
        for n, dtxt in zero_divisions(p, f):
            r.instance(f, n, norm(n)[:60])
            r.check(False, f, n, f"`{norm(n)[:70]}` divides by `{dtxt}`, a count that is 0 when nothing was counted, without a test of it: ZeroDivisionError (exit 1, traceback) on such a run - e.g. `verify -dh` on an unchanged folder without sub-folders", construct=f"{f.name}: division by the count `{dtxt[:40]}`")
    r.instance(None, None, f"{nf} shipped functions scanned for divisions by counts")
    r.instance(None, None, "divisors that are constants or parameters are not counts")
    r.check(True, None, None, "")
    return r
