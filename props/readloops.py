"""R1.1 / R1.6 of C01: the file read loops. Recognised idioms (each decided exactly, anything else => ANALYSIS-ERROR):

  reader      priming read + `while chunk:` | `while True` + `if not chunk: break` | walrus | readinto(buffer)
  placement   the read loop feeds the hashers itself, or it is a generator that yields every chunk and each caller
              feeds every yielded chunk to every hasher
  hashers     one hasher (`hasher.update(chunk)`) or a collection fed by a loop whose body is exactly the update
              (`for k in d: d[k].update(c)` | `for h in d.values(): h.update(c)`)
  result      `hasher.string_digest()` of the hasher that was fed, or a dict filled / comprehended from the same collection
"""
from __future__ import annotations

import ast

from sa.cfg import cfg_of
from sa.effects import open_mode
from sa.model import AnalysisError, norm, parent, walk_no_nested

from .common import callers_of, is_plain_iter


def _stmt(n):
    x = n
    while x is not None and not isinstance(x, ast.stmt):
        x = parent(x)
    return x


def read_functions(p):
    out = []
    for fq, f in p.funcs.items():
        if not f.module.name.endswith("hasher"):
            continue
        reads = [c for c, tg in p.calls[fq] if isinstance(c.func, ast.Attribute) and c.func.attr in ("read", "readinto") and not any(t in p.funcs for t in tg)]
        if reads:
            out.append((f, reads))
    return out


def check_open_mode(p, r1, f, oc):
    m = open_mode(p, oc, f)
    r1.check(m in ("rb", "br"), f, oc, f"file opened with mode {m!r}: text mode / write mode does not deliver the exact bytes", construct=f"open mode {m!r}")


def find_sinks(p, r1, f, chunk, buffer, scope_nodes=None):
    """update sinks for variable `chunk` in function f: (avoid node ids, hasher collection names)"""
    g = cfg_of(f)
    avoid, hashers = set(), set()
    for c, tg in p.calls[f.qual]:
        if not (isinstance(c.func, ast.Attribute) and c.func.attr == "update" and len(c.args) == 1):
            continue
        a = c.args[0]
        if buffer is not None and isinstance(a, ast.Name) and a.id != buffer:
            # update(view) with `view = memoryview(buffer)[:n]`: the view must be taken anew after every read - its length is the length of THAT read
            views = [n for n in walk_no_nested(f.node) if isinstance(n, ast.Assign) and len(n.targets) == 1 and isinstance(n.targets[0], ast.Name) and n.targets[0].id == a.id and any(isinstance(x, ast.Name) and x.id == buffer for x in ast.walk(n.value))]
            if views:
                rnodes = [g.node_for(rc) for rc, _ in p.calls[f.qual] if isinstance(rc.func, ast.Attribute) and rc.func.attr == "readinto"]
                vn = {g.node_for(v).id for v in views}
                un = g.node_for(c)
                stale = next((r for r in rnodes if g.find_path(r, {un.id}, avoid=vn) is not None), None)
                if stale is not None:
                    r1.check(False, f, c, f"update() is fed `{a.id}`, a view of the read buffer that is taken at line {views[0].lineno} and not again after the readinto() at line {stale.ast.lineno if hasattr(stale.ast, 'lineno') else '?'}: its length stays that of an earlier read, so the last (shorter) chunk of a file is hashed together with stale bytes of the chunk before", construct=f"update({a.id}) with a buffer view not refreshed after readinto")
                    continue
                a = views[0].value
        if buffer is not None:
            if not any(isinstance(x, ast.Name) and x.id == buffer for x in ast.walk(a)):
                continue
            base = a.value if isinstance(a, ast.Subscript) else None
            if isinstance(base, ast.Call) and norm(base.func) == "memoryview" and base.args:
                base = base.args[0]
            good = isinstance(a, ast.Subscript) and isinstance(a.slice, ast.Slice) and a.slice.lower is None and a.slice.step is None and a.slice.upper is not None and norm(a.slice.upper) == chunk and base is not None and norm(base) == buffer
            if not good:
                r1.check(False, f, c, f"update() is fed `{norm(a)}`: with readinto() only the first `{chunk}` bytes of the reused buffer are file content, the rest is the stale tail of an earlier chunk (files whose size is not a multiple of the buffer get a wrong digest)", construct=f"update({norm(a)}) after readinto")
                continue
        else:
            if not (isinstance(a, ast.Name) and a.id == chunk):
                if any(isinstance(x, ast.Name) and x.id == chunk for x in ast.walk(a)):
                    r1.check(False, f, c, f"update() is fed `{norm(a)}` instead of the chunk as read", construct=f"update({norm(a)})")
                continue
        lp = parent(_stmt(c))
        recv = norm(c.func.value)
        if isinstance(lp, ast.For) and len(lp.body) == 1 and _stmt(c) is lp.body[0] and not lp.orelse and norm(lp.target) in recv:
            coll, key = norm(lp.iter), norm(lp.target)
            it_expr = lp.iter
            listed = None
            if isinstance(it_expr, ast.Name):
                # the collection under a local name bound once: `hashers = lookup.values()` / `hashers = [hasher]` (a shared read helper's parameter)
                b_ = [n for n in walk_no_nested(f.node) if isinstance(n, ast.Assign) and len(n.targets) == 1 and isinstance(n.targets[0], ast.Name) and n.targets[0].id == it_expr.id]
                st_ = [n for n in walk_no_nested(f.node) if isinstance(n, ast.Name) and n.id == it_expr.id and isinstance(n.ctx, ast.Store)]
                if len(b_) == 1 and len(st_) == 1 and it_expr.id not in f.params:
                    v_ = b_[0].value
                    if isinstance(v_, (ast.List, ast.Tuple)) and v_.elts and all(isinstance(e, ast.Name) for e in v_.elts):
                        listed = [e.id for e in v_.elts]
                    elif isinstance(v_, ast.Call) and isinstance(v_.func, ast.Attribute) and v_.func.attr == "values" and not v_.args:
                        coll, it_expr = norm(v_), v_
            if listed is not None and recv == key:
                r1.check(True, f, lp, "")
                hashers.update(listed)
                avoid.add(g.by_ast[id(lp)].id)
                continue
            okl = recv in (key, f"{coll}[{key}]") and is_plain_iter(p, it_expr)
            if recv == key and not coll.endswith(".values()"):
                okl = False
            if recv == key and isinstance(it_expr, ast.Name) and it_expr.id in f.params and is_plain_iter(p, it_expr):
                # a shared read helper: it feeds every hasher of the collection it is GIVEN; which hashers those are is the callers' business
                # (judged on the helper-inlined view, where the collection is the caller's)
                okl = True
            r1.check(okl, f, lp, "the update loop does not feed every hasher of the collection", construct=f"for {key} in {coll}: {recv}.update")
            hashers.add(coll.replace(".values()", "").replace(".keys()", ""))
            avoid.add(g.by_ast[id(lp)].id)
        elif isinstance(lp, ast.For) and norm(lp.target) in recv:
            r1.check(False, f, lp, "the loop that feeds the chunk to the hashers does more than update each hasher (a hasher can be skipped)", construct="conditional update loop")
        else:
            hashers.add(recv)
            avoid.add(g.node_for(c).id)
    return avoid, hashers


def check_result(p, r1, f, hashers):
    """the digest(s) returned come from the hashers that were fed (keys not crossed)"""
    rets = [n for n in walk_no_nested(f.node) if isinstance(n, ast.Return) and n.value is not None]
    for rt in rets:
        v = rt.value
        ok = False
        if isinstance(v, ast.Call) and isinstance(v.func, ast.Attribute) and v.func.attr == "string_digest":
            ok = norm(v.func.value) in hashers
        elif isinstance(v, ast.DictComp) and len(v.generators) == 1:
            gen = v.generators[0]
            it = norm(gen.iter)
            if it.endswith(".items()") and it[: -len(".items()")] in hashers and isinstance(gen.target, ast.Tuple) and len(gen.target.elts) == 2 and not gen.ifs:
                k, h = [norm(e) for e in gen.target.elts]
                ok = norm(v.key) == k and norm(v.value) == f"{h}.string_digest()"
            elif it.replace(".keys()", "") in hashers and not gen.ifs:
                k = norm(gen.target)
                ok = norm(v.key) == k and norm(v.value) == f"{it.replace('.keys()', '')}[{k}].string_digest()"
        elif isinstance(v, ast.Name):
            fills = [n for n in walk_no_nested(f.node) if isinstance(n, ast.Assign) and any(isinstance(t, ast.Subscript) and norm(t.value) == v.id for t in n.targets)]
            comp = [n for n in walk_no_nested(f.node) if isinstance(n, ast.Assign) and norm(n.targets[0]) == v.id and isinstance(n.value, ast.DictComp)]
            if comp:
                fake = ast.Return(value=comp[0].value)
                ast.copy_location(fake, rt)
                fake._parent = parent(rt)
                # re-use the comprehension branch
                vv = comp[0].value
                gen = vv.generators[0]
                it = norm(gen.iter)
                if it.endswith(".items()") and it[: -len(".items()")] in hashers and isinstance(gen.target, ast.Tuple) and not gen.ifs:
                    k, h = [norm(e) for e in gen.target.elts]
                    ok = norm(vv.key) == k and norm(vv.value) == f"{h}.string_digest()"
            elif fills:
                ok = True
                for fl in fills:
                    t = fl.targets[0]
                    lp = parent(fl)
                    val = fl.value
                    if not isinstance(lp, ast.For):
                        ok = False
                        continue
                    it = norm(lp.iter)
                    if it.endswith(".items()") and isinstance(lp.target, ast.Tuple):
                        k, h = [norm(e) for e in lp.target.elts]
                        ok = ok and it[: -len(".items()")] in hashers and norm(t.slice) == k and norm(val) == f"{h}.string_digest()"
                    else:
                        base = it.replace(".keys()", "")
                        ok = ok and is_plain_iter(p, lp.iter) and base in hashers and isinstance(val, ast.Call) and isinstance(val.func, ast.Attribute) and val.func.attr == "string_digest" and norm(val.func.value) == f"{base}[{norm(t.slice)}]" and norm(t.slice) == norm(lp.target)
        r1.check(ok, f, rt, "the digest returned is not taken from the hasher(s) that were fed with the file's bytes (or keys are crossed)", construct=f"return {norm(v)[:60]}")


def _ancestors(n):
    x = parent(n)
    while x is not None and not isinstance(x, (ast.FunctionDef, ast.AsyncFunctionDef)):
        yield x
        x = parent(x)


def analyse(p, pr, r1, r6):
    funcs = read_functions(p)
    if not funcs:
        raise AnalysisError("no function reading file content found in the hasher module")
    owners = []  # functions that own hashers and return digests
    for f, reads in funcs:
        g = cfg_of(f)
        r1.instance(f, reads[0], f"{f.qual}: {len(reads)} read site(s)" + (" (generator)" if f.is_generator() else ""))
        # ---------------------------------------------------------------- handle and mode
        recv_names = {norm(rc.func.value) for rc in reads}
        if len(recv_names) != 1:
            raise AnalysisError(f"{f.qual}: reads on several objects {recv_names}")
        handle = next(iter(recv_names))
        opens = [c for c, tg in p.calls[f.qual] if "builtin:open" in tg]
        if handle in f.params:
            if opens:
                raise AnalysisError(f"{f.qual}: reads a parameter and opens files itself")
            per_caller = {}
            for cf, call in callers_of(p, f.qual):
                b = p.bind_args(f, call)
                a = b.get(handle)
                srcs = [c for c, tg in p.calls[cf.qual] if "builtin:open" in tg and _binds(c, a)]
                if len(srcs) != 1:
                    raise AnalysisError(f"{cf.loc(call)}: the file handle given to {f.name} is not the result of one open() in the caller")
                check_open_mode(p, r1, cf, srcs[0])
                per_caller.setdefault((cf.qual, norm(a)), []).append((cf, call))
            # one open handle is read from its start once: a second pass over the same handle begins at the end of the file
            for (cq, hname), calls_ in per_caller.items():
                if len(calls_) < 2:
                    continue
                cf = calls_[0][0]
                gc = cfg_of(cf)
                rewinds = {gc.node_for(c).id for c, tg in p.calls[cf.qual] if isinstance(c.func, ast.Attribute) and c.func.attr == "seek" and norm(c.func.value) == hname and c.args and p.fold(c.args[0], cf) == 0}
                for _, c1 in calls_:
                    for _, c2 in calls_:
                        if c1 is c2:
                            continue
                        pth = gc.find_path(gc.node_for(c1), {gc.node_for(c2).id}, avoid=rewinds)
                        if pth is not None:
                            r1.check(False, cf, c2, f"`{norm(c2)[:60]}` reads the handle `{hname}` a second time (first at line {c1.lineno}) without reopening the file or `{hname}.seek(0)`: the second pass starts at the end of the file and returns the digest of the empty input - whatever was read first is discarded in favour of it", construct=f"handle {hname} read twice without rewind")
        else:
            if not opens:
                raise AnalysisError(f"{f.qual}: no open() for the handle `{handle}`")
            for oc in opens:
                check_open_mode(p, r1, f, oc)
        # ---------------------------------------------------------------- a loop bounded by a pre-computed number of chunks
        # `for _ in range(n): h.update(fd.read(size))` with n computed from the file size: the count formula is evaluated for file sizes
        # around the chunk boundaries; a count that does not cover the whole file is the recognised harmful shape
        for rc in reads:
            lp = next((a for a in _ancestors(rc) if isinstance(a, ast.For)), None)
            if lp is None or not (isinstance(lp.iter, ast.Call) and norm(lp.iter.func) == "range" and len(lp.iter.args) == 1):
                continue
            from sa.absint import UNKNOWN, Evaluator, Val

            cnt = lp.iter.args[0]
            hops = 0
            while isinstance(cnt, ast.Name) and hops < 4:
                b = [n for n in walk_no_nested(f.node) if isinstance(n, ast.Assign) and len(n.targets) == 1 and isinstance(n.targets[0], ast.Name) and n.targets[0].id == cnt.id]
                if len(b) != 1:
                    break
                cnt, hops = b[0].value, hops + 1
            size_v = p.fold(rc.args[0], f) if rc.args else None
            if not isinstance(size_v, int) or size_v <= 0:
                raise AnalysisError(f"{f.loc(rc)}: read loop bounded by a count, chunk size not constant")
            size_names = {x.id for x in ast.walk(rc.args[0]) if isinstance(x, ast.Name)}
            fs_names = set()
            for n in walk_no_nested(f.node):
                if isinstance(n, ast.Assign) and len(n.targets) == 1 and isinstance(n.targets[0], ast.Name) and any(k in norm(n.value) for k in ("st_size", "getsize(")):
                    fs_names.add(n.targets[0].id)
            bad = None
            for fsz in (0, 1, size_v - 1, size_v, size_v + 1, 2 * size_v, 2 * size_v + 1, 3 * size_v, 5 * size_v + 7):
                def atom(e, env, fsz=fsz):
                    if isinstance(e, ast.Name) and e.id in fs_names:
                        return Val(fsz)
                    if isinstance(e, ast.Name) and e.id in size_names:
                        return Val(size_v)
                    if isinstance(e, ast.Name):
                        v = p.fold(e, f)
                        if isinstance(v, int):
                            return Val(v)
                    return None

                v = Evaluator(atom, where=f.qual).eval(cnt, {})
                if v is UNKNOWN or not isinstance(v, int):
                    raise AnalysisError(f"{f.loc(rc)}: the read loop is bounded by `{norm(cnt)[:60]}`, which could not be evaluated for a file of {fsz} bytes")
                if v * size_v < fsz:
                    bad = (fsz, v)
                    break
            r1.instance(f, lp, f"{f.qual}: read loop bounded by range({norm(lp.iter.args[0])[:40]})")
            if bad:
                r1.check(False, f, lp, f"the read loop runs `{norm(cnt)[:70]}` times: for a file of {bad[0]} bytes that is {bad[1]} chunk(s) of {size_v} bytes - not the whole file is hashed (the digest of a file whose size is such a value is the digest of a prefix, or of nothing)", construct="read loop bounded by a chunk count that does not cover the file")
            else:
                raise AnalysisError(f"{f.loc(rc)}: the read loop is bounded by a chunk count computed from the file size (covers the samples); this idiom is not modelled further (a file that grows while it is read)")
        if any(fd.qual == f.qual and "bounded by a chunk count" in (fd.construct or "") for fd in r1.findings):
            continue
        # ---------------------------------------------------------------- chunk variable / readinto buffer
        chunk_vars, read_nodes = set(), []
        for rc in reads:
            st = _stmt(rc)
            size = rc.args[0] if rc.args else None
            if rc.func.attr == "readinto":
                size = None
            if size is not None:
                sv = p.fold(size, f)
                if sv is None and isinstance(size, ast.Name) and size.id in f.params + f.kwonly:
                    sv = _fold_param(p, f, size.id)
                r1.check(isinstance(sv, int) and not isinstance(sv, bool) and sv > 0, f, rc, f"read size `{norm(size)}` is not a positive constant (folded: {sv!r})", construct=f"read size {norm(size)}")
            if isinstance(st, ast.Assign) and len(st.targets) == 1 and isinstance(st.targets[0], ast.Name) and st.value is rc:
                chunk_vars.add(st.targets[0].id)
                read_nodes.append(g.node_for(rc))
            elif isinstance(parent(rc), ast.NamedExpr):
                chunk_vars.add(parent(rc).target.id)
                read_nodes.append(g.node_for(rc))
            else:
                raise AnalysisError(f"{f.loc(rc)}: read() result is not bound to a chunk variable (idioms: priming read / walrus / read-in-loop)")
        if len(chunk_vars) != 1:
            raise AnalysisError(f"{f.qual}: more than one chunk variable {chunk_vars}")
        chunk = next(iter(chunk_vars))
        buffers = {norm(rc.args[0]) for rc in reads if rc.func.attr == "readinto" and rc.args}
        if buffers and any(rc.func.attr == "read" for rc in reads):
            raise AnalysisError(f"{f.qual}: read() and readinto() mixed in one loop")
        if len(buffers) > 1:
            raise AnalysisError(f"{f.qual}: several readinto buffers")
        buffer = next(iter(buffers)) if buffers else None
        for c, tg in p.calls[f.qual]:
            if isinstance(c.func, ast.Attribute) and c.func.attr in ("seek", "truncate", "readline", "readlines") and norm(c.func.value) == handle:
                r1.check(False, f, c, f"the file position / content is manipulated with .{c.func.attr}(): not every byte is hashed exactly once")
        # ---------------------------------------------------------------- sinks
        if f.is_generator():
            if buffer is not None:
                raise AnalysisError(f"{f.qual}: generator over a readinto buffer (unrecognised idiom)")
            ys = [n for n in walk_no_nested(f.node) if isinstance(n, ast.Yield)]
            avoid = set()
            for y in ys:
                oky = isinstance(y.value, ast.Name) and y.value.id == chunk
                r1.check(oky, f, y, f"the chunk generator yields `{norm(y.value) if y.value is not None else None}` instead of the chunk as read", construct=f"yield {norm(y.value) if y.value is not None else ''}")
                if oky:
                    avoid.add(g.node_for(y).id)
            hashers = None
        else:
            avoid, hashers = find_sinks(p, r1, f, chunk, buffer)
        if not avoid:
            if any(fd.qual == f.qual for fd in r1.findings):
                continue  # already reported: the chunk reaches no hasher in a recognised way
            raise AnalysisError(f"{f.qual}: the chunks read are neither fed to a hasher nor yielded here (unrecognised placement of the read loop)")

        # ---------------------------------------------------------------- path rules
        def follow(n, m, l):
            if n.kind == "test":
                t = norm(n.ast)
                if (t == chunk or isinstance(n.ast, ast.NamedExpr)) and l == "F":
                    return False
                if t in (f"len({chunk}) > 0", f"{chunk} != b''", f"len({chunk}) != 0", f"{chunk} > 0", f"{chunk} != 0") and l == "F":
                    return False
                if t in (f"len({chunk}) == 0", f"{chunk} == b''", f"{chunk} == 0") and l == "T":
                    return False
            return True

        targets = {n.id for n in read_nodes} | {g.exit.id}
        for rn in read_nodes:
            seen, work, hit, prev = set(), [m for m, l in rn.succ if follow(rn, m, l)], None, {}
            while work and hit is None:
                n = work.pop()
                if n.id in seen or n.id in avoid:
                    continue
                seen.add(n.id)
                if n.id in targets:
                    hit = n
                    break
                for m, l in n.succ:
                    if follow(n, m, l) and m.id not in seen:
                        prev.setdefault(m.id, n.id)
                        work.append(m)
            if hit is not None:
                trail, x = [hit], hit.id
                while x in prev:
                    x = prev[x]
                    trail.append(g.nodes[x])
                trail.append(rn)
                what = "the end of the function" if hit is g.exit else "the next read()"
                sink = "handed on (yielded)" if f.is_generator() else "hashed by every hasher"
                r1.check(False, f, rn.ast, f"a chunk that was read can reach {what} without being {sink} (file content in it does not influence the digest)", witness=g.fmt_path(list(reversed(trail))), construct=f"chunk from {norm(rn.ast)[:40]} may skip the sink -> {what}")
            else:
                r1.check(True, f, rn.ast, "")
        for rn in read_nodes[:1]:
            seen, work, prev, hit = set(), [m for m, l in rn.succ if follow(rn, m, l)], {}, None
            while work and hit is None:
                n = work.pop()
                if n.id in seen:
                    continue
                seen.add(n.id)
                if n is g.exit:
                    hit = n
                    break
                for m, l in n.succ:
                    if follow(n, m, l) and m.id not in seen:
                        prev.setdefault(m.id, n.id)
                        work.append(m)
            trail = []
            if hit is not None:
                x, trail = hit.id, [hit]
                while x in prev:
                    x = prev[x]
                    trail.append(g.nodes[x])
                trail.append(rn)
            r1.check(hit is None, f, rn.ast, "the read loop can end without read() ever having returned the empty chunk: bytes after the last chunk read are not hashed", witness=g.fmt_path(list(reversed(trail))) if trail else None, construct="exit reachable without EOF")

        if not f.is_generator():
            check_result(p, r1, f, hashers)
            owners.append(f)
        else:
            # ------------------------------------------------------------ consumers of the chunk generator
            sites = callers_of(p, f.qual)
            if not sites:
                raise AnalysisError(f"{f.qual}: chunk generator without a caller")
            for cf, call in sites:
                lp = parent(call)
                if not (isinstance(lp, ast.For) and lp.iter is call and isinstance(lp.target, ast.Name)):
                    raise AnalysisError(f"{cf.loc(call)}: the chunk generator is not consumed by a plain `for chunk in ...` loop")
                cg = cfg_of(cf)
                r1.instance(cf, lp, f"consumer of {f.name}: for {lp.target.id} in {norm(call)}")
                av, hs = find_sinks(p, r1, cf, lp.target.id, None)
                ln = cg.by_ast[id(lp)]
                inside = {i for i in av if _inside(cg.nodes[i].ast, lp)}
                if not inside:
                    r1.check(False, cf, lp, "the chunks delivered by the generator are not fed to any hasher", construct="consumer without update")
                    continue
                path = cg.find_path(ln, {ln.id, cg.exit.id}, avoid=inside, first_edges=[(m, l) for m, l in ln.succ if l == "iter"])
                r1.check(path is None, cf, lp, "a chunk delivered by the generator can pass the loop body without being hashed by every hasher", witness=cg.fmt_path(path) if path else None, construct="consumer path without update")
                brk = [x for s in lp.body for x in ast.walk(s) if isinstance(x, (ast.Break, ast.Return)) and _loop_of(x) is lp]
                r1.check(not brk, cf, brk[0] if brk else lp, "the consumer loop can stop before the generator is exhausted", construct="consumer early exit")
                check_result(p, r1, cf, hs)
                owners.append(cf)

    # -------------------------------------------------------------------- R1.6 hasher construction
    fac = p.funcs.get("ascmhl.hasher.new_hasher_for_hash_type")
    if fac is None:
        raise AnalysisError("hasher factory not found")
    for f in owners:
        built = False
        for n in walk_no_nested(f.node):
            if isinstance(n, ast.Assign) and isinstance(n.value, ast.Call) and norm(n.value.func) == "cls":
                built = True
                r6.instance(f, n, norm(n))
                r6.check(not n.value.args and not n.value.keywords, f, n, "the hasher is created with arguments (seed / initial data)")
            if isinstance(n, ast.Assign) and isinstance(n.value, ast.Call) and fac.qual in p.resolve_call(n.value, f):
                built = True
                lp = parent(n)
                r6.instance(f, n, norm(n)[:80])
                key_ok = isinstance(lp, ast.For) and is_plain_iter(p, lp.iter) and isinstance(lp.iter, ast.Name) and lp.iter.id in f.params and norm(n.value.args[0]) == norm(lp.target)
                store = [s for s in lp.body if isinstance(s, ast.Assign) and any(isinstance(t, ast.Subscript) for t in s.targets)] if isinstance(lp, ast.For) else []
                st_ok = any(norm(s.targets[0].slice) == norm(lp.target) for s in store) if store else (isinstance(n.targets[0], ast.Subscript) and norm(n.targets[0].slice) == norm(lp.target))
                r6.check(key_ok and st_ok, f, n, "hashers are not built for every requested format / stored under their own format")
            if isinstance(n, ast.Assign) and isinstance(n.value, ast.DictComp):
                dc = n.value
                if isinstance(dc.value, ast.Call) and fac.qual in p.resolve_call(dc.value, f):
                    built = True
                    r6.instance(f, n, norm(n)[:80])
                    gen = dc.generators[0]
                    ok = len(dc.generators) == 1 and not gen.ifs and isinstance(gen.iter, ast.Name) and gen.iter.id in f.params and norm(dc.key) == norm(gen.target) and norm(dc.value.args[0]) == norm(gen.target)
                    r6.check(ok, f, n, "hashers are not built for every requested format / stored under their own format")
        if not built:
            # the hasher that is fed is not created here at all: it is the receiver / a parameter / an attribute, i.e. an object that outlives the call
            fed = [n for n in walk_no_nested(f.node) if isinstance(n, ast.Call) and isinstance(n.func, ast.Attribute) and n.func.attr == "update" and n.args]
            outer = []
            for n in fed:
                root = n.func.value
                while isinstance(root, (ast.Attribute, ast.Subscript)):
                    root = root.value
                if isinstance(root, ast.Name) and (root.id in f.params or root.id in ("self", "cls")) and not any(isinstance(a, ast.Assign) and any(isinstance(t, ast.Name) and t.id == root.id for t in a.targets) for a in walk_no_nested(f.node)):
                    outer.append(n)
            if outer and len(outer) == len(fed):
                r6.instance(f, outer[0], norm(outer[0])[:60])
                r6.check(False, f, outer[0], f"`{norm(outer[0])[:50]}` feeds a hasher that is not created in {f.name} (`{norm(outer[0].func.value)}` outlives the call): the digest returned depends on everything that object was fed before - a second file hashed with the same object, or a hasher that already received data, yields the digest of the concatenation", construct=f"{f.name}: hasher state outlives the call")
                continue
            raise AnalysisError(f"{f.qual}: construction of the hasher(s) not recognised")
    r6.instance(fac, fac.node, "factory")
    ft = norm(fac.node)
    r6.check("HashType[hash_format]".replace("hash_format", fac.params[0]) in ft and ".value()" in ft, fac, fac.node, "the factory does not look the format up by name in the format table and instantiate its class", construct="factory lookup")
    return funcs, owners


def _binds(open_call, arg):
    """open(...) result is what `arg` names: `with open(..) as fd` / `fd = open(..)`"""
    if arg is None:
        return False
    par = parent(open_call)
    if isinstance(par, ast.withitem) and par.optional_vars is not None:
        return norm(par.optional_vars) == norm(arg)
    if isinstance(par, ast.Assign):
        return norm(par.targets[0]) == norm(arg)
    return False


def _inside(n, container):
    x = n
    while x is not None:
        if x is container:
            return True
        x = parent(x)
    return False


def _loop_of(n):
    x = parent(n)
    while x is not None and not isinstance(x, (ast.For, ast.While)):
        x = parent(x)
    return x


def _fold_param(p, f, name):
    """constant value of a parameter: every call site passes a constant (all equal) or leaves the constant default"""
    a = f.node.args
    pos = a.posonlyargs + a.args
    default = None
    if name in [x.arg for x in pos]:
        i = [x.arg for x in pos].index(name)
        j = i - (len(pos) - len(a.defaults))
        if j >= 0:
            default = a.defaults[j]
    elif name in [x.arg for x in a.kwonlyargs]:
        i = [x.arg for x in a.kwonlyargs].index(name)
        default = a.kw_defaults[i]
    vals = set()
    for cq, call in p.callers.get(f.qual, []):
        arg = p.bind_args(f, call).get(name)
        passed = arg is not None and any(arg is x for x in list(call.args) + [k.value for k in call.keywords])
        if passed:
            vals.add(p.fold(arg, p.funcs[cq]))
        elif default is not None:
            vals.add(p.fold(default, None, f.module))
        else:
            return None
    if not p.callers.get(f.qual) and default is not None:
        vals.add(p.fold(default, None, f.module))
    return next(iter(vals)) if len(vals) == 1 else None
