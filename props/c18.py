"""C18 - a flattened manifest faithfully summarises the history (structural clauses)."""
from __future__ import annotations

import ast

from sa.cfg import cfg_of
from sa.flow import show, sig, subterms
from sa.model import AnalysisError, norm, parent, walk_no_nested

from .common import include_rules, alts, callers_of, commands, is_call, is_plain_iter, need, prov, reach_from


def flatten_func(p):
    sess_append = "ascmhl.generator.MHLGenerationCreationSession.append_file_hash"
    cands = [f for f in p.funcs.values() if f.module.name.endswith("commands") and any(t.endswith("create_collection_at_path") for _, tg in p.calls[f.qual] for t in tg)]
    if len(cands) != 1:
        raise AnalysisError(f"flatten worker (function creating the collection history) not found: {[f.qual for f in cands]}")
    return cands[0], sess_append


def classify_guard(p, pr, f, test, label, src_record, src_entry, dest_list_terms):
    """role of one branch condition on the way to an append in the flatten loop"""
    t = norm(test).replace('"', "'")
    # failed entries
    if t in (f"{src_entry}.action != 'failed'", f"{src_entry}.action == 'failed'"):
        keep = (t.endswith("!= 'failed'") and label == "T") or (t.endswith("== 'failed'") and label == "F")
        return "NOT-FAILED" if keep else "FAILED"
    if t in (f"{src_record}.is_directory", f"not {src_record}.is_directory", f"{src_record}.is_directory == False", f"{src_record}.is_directory == True"):
        isdir = (t in (f"{src_record}.is_directory", f"{src_record}.is_directory == True") and label == "T") or (t in (f"not {src_record}.is_directory", f"{src_record}.is_directory == False") and label == "F")
        return "DIRECTORY" if isdir else "NOT-DIRECTORY"
    names = [x for x in ast.walk(test) if isinstance(x, ast.Name)]
    # per-path knowledge: a variable holding find_media_hash_for_path(<source record>.path) of the destination list
    for nm in names:
        for o in pr.origins(nm, f):
            if is_call(o, "find_media_hash_for_path") and o[2] and o[2][0][0] == "attr" and o[2][0][2] == "path":
                return "PATH-KNOWN?"
            if o[0] == "op" and o[1] == "cmp" and any(is_call(s, "find_media_hash_for_path") for s in subterms(o)):
                return "PATH-KNOWN?"
    # per (path, format) knowledge
    if "find_hash_entry_for_format" in t and f"{src_entry}.hash_format" in t:
        return "FORMAT-KNOWN?"
    if isinstance(test, ast.Compare) and len(test.ops) == 1 and isinstance(test.ops[0], (ast.Eq, ast.NotEq)):
        sides = {norm(test.left), norm(test.comparators[0])}
        if f"{src_entry}.hash_format" in sides and any(s.endswith(".hash_format") and s != f"{src_entry}.hash_format" for s in sides):
            other = next(s for s in sides if s != f"{src_entry}.hash_format")
            base = other.rsplit(".", 1)[0]
            # the other entry iterates the entries of the record found for this path
            for lp in [a for a in _anc(test) if isinstance(a, ast.For)]:
                if norm(lp.target) == base:
                    for o in pr.origins(lp.iter, f):
                        if o[0] == "attr" and o[2] == "hash_entries" and any(is_call(s, "find_media_hash_for_path") for s in subterms(o)):
                            return "FORMAT-KNOWN?"
    for nm in names:
        # a flag set to True only under a format comparison of the kind above
        sets = [n for n in walk_no_nested(f.node) if isinstance(n, ast.Assign) and len(n.targets) == 1 and norm(n.targets[0]) == nm.id and isinstance(n.value, ast.Constant) and n.value.value is True]
        if sets and all(any(isinstance(a, ast.If) and classify_guard(p, pr, f, a.test, "T", src_record, src_entry, dest_list_terms) == "FORMAT-KNOWN?" for a in _anc(s)) for s in sets):
            return "FORMAT-KNOWN?"
    return None


def _anc(n):
    x = parent(n)
    while x is not None:
        yield x
        x = parent(x)


def run(report, p):
    pr = prov(p)
    cmds = commands(p)
    fl, sess_append = flatten_func(p)
    g = cfg_of(fl)
    report.assume("the session keeps one entry per (path, format) (C11 R11.m), so the first append for a pair wins")

    # ------------------------------------------------------------------ R18.1
    r1 = report.rule(
        "R18.1",
        "flatten visits every generation in list order, every record and every entry (loops unsliced) and skips exactly: directory records, entries whose action is 'failed', "
        "and (path, format) pairs already collected for THAT path; no other condition decides whether an entry is carried over",
        3,
    )
    loops = []
    helper_loops = {}
    for n in walk_no_nested(fl.node):
        if isinstance(n, ast.For):
            found = None
            for o in pr.origins(n.iter, fl):
                cands = [o] + ([a for a in o[2]] if o[0] in ("call", "op") and o[0] != "attr" else [])
                if o[0] == "call" and o[1].startswith(("builtin:", "ext:itertools")):
                    cands = [o] + list(o[2])
                elif o[0] == "op" and o[1] == "slice":
                    cands = list(o[2])
                else:
                    cands = [o]
                for c in cands:
                    if c[0] == "attr" and c[2] in ("hash_lists", "media_hashes", "hash_entries") and _source_chain(c):
                        found = c[2]
            if not found:
                # generator helper of the model:  for rec in hash_list.<helper>()  where the helper loops over self.<attr> and yields
                for o in pr.origins(n.iter, fl):
                    if o[0] == "call" and o[1] in p.funcs and p.funcs[o[1]].is_generator() and o[5] is not None and _source_chain(o[5]):
                        h = p.funcs[o[1]]
                        hl = [x for x in walk_no_nested(h.node) if isinstance(x, ast.For) and isinstance(x.iter, ast.Attribute) and isinstance(x.iter.value, ast.Name) and h.params and x.iter.value.id == h.params[0] and x.iter.attr in ("hash_lists", "media_hashes", "hash_entries")]
                        ys = [x for x in walk_no_nested(h.node) if isinstance(x, (ast.Yield, ast.YieldFrom))]
                        if len(hl) == 1 and ys and all(isinstance(y, ast.Yield) and y.value is not None and norm(y.value) == norm(hl[0].target) and _inside(y, hl[0]) for y in ys):
                            found = hl[0].iter.attr
                            helper_loops[id(n)] = (h, hl[0], ys)
                        else:
                            raise AnalysisError(f"{fl.loc(n)}: flatten iterates the generator {h.qual}, whose body is not a single loop over one of the model's lists yielding its elements")
            if found:
                loops.append((n, found))
    kinds = [k for _, k in loops]
    if sorted(kinds) != ["hash_entries", "hash_lists", "media_hashes"]:
        raise AnalysisError(f"flatten: expected nested loops over hash_lists / media_hashes / hash_entries of the loaded history, found {kinds}")
    by = {k: n for n, k in loops}
    for n, k in loops:
        r1.instance(fl, n, f"for {norm(n.target)} in {norm(n.iter)}")
        r1.check(is_plain_iter(p, n.iter), fl, n.iter, f"flatten iterates a slice / reordered / filtered view of {k}: later entries could win or entries drop out", construct=n.iter)
        brk = [x for s in n.body for x in ast.walk(s) if isinstance(x, (ast.Break, ast.Return)) and _loop_of(x) is n]
        r1.check(not brk, fl, brk[0] if brk else n, f"the loop over {k} can be left early", construct=f"early exit from loop over {k}")
        if id(n) in helper_loops:
            h, hlp, ys = helper_loops[id(n)]
            r1.instance(h, hlp, f"(helper) for {norm(hlp.target)} in {norm(hlp.iter)}")
            r1.check(is_plain_iter(p, hlp.iter), h, hlp.iter, f"the helper flatten iterates over yields from a slice / reordered view of {k}", construct=hlp.iter)
            hb = [x for s_ in hlp.body for x in ast.walk(s_) if isinstance(x, (ast.Break, ast.Return)) and (_loop_of(x) is hlp or isinstance(x, ast.Return))]
            r1.check(not hb, h, hb[0] if hb else hlp, f"the loop over {k} in {h.name} can be left early: the remaining {k} of that generation never reach the flattened manifest", construct=f"early exit from loop over {k} in helper")
    src_record, src_entry = norm(by["media_hashes"].target), norm(by["hash_entries"].target)
    appends = [c for c, tg in p.calls[fl.qual] if sess_append in tg]
    if not appends:
        raise AnalysisError("flatten: no session.append_file_hash call")
    for a in appends:
        r1.instance(fl, a, "carry-over site")
        an = g.node_for(a)
        roles, unknown = [], []
        for t, l in g.control_deps(an):
            if t.kind != "test":
                continue
            if not _inside(t.ast, by["hash_lists"]):
                continue
            role = classify_guard(p, pr, fl, t.ast, l, src_record, src_entry, None)
            if role is None:
                unknown.append((norm(t.ast), l))
            else:
                roles.append(role)
        # conditions under which a generator helper yields the record / entry at all
        for lid, (h, hlp, ys) in helper_loops.items():
            gh = cfg_of(h)
            hrec = norm(hlp.target) if hlp.iter.attr == "media_hashes" else "<no record>"
            hent = norm(hlp.target) if hlp.iter.attr == "hash_entries" else "<no entry>"
            for y in ys:
                for t, l in gh.control_deps(gh.node_for(y), through_loops=False):
                    if t.kind != "test":
                        continue
                    role = classify_guard(p, pr, h, t.ast, l, hrec, hent, None)
                    if role is None:
                        unknown.append((f"{h.name}: " + norm(t.ast), l))
                    else:
                        roles.append(role)
        r1.check(not unknown, fl, a, f"whether an entry is carried over depends on {unknown}, which is neither 'directory record', 'failed entry' nor 'this (path, format) already collected'", construct=f"carry-over conditional on {unknown}")
        r1.check("NOT-FAILED" in roles and "FAILED" not in roles, fl, a, "failed entries are not excluded from the flattened manifest", construct="failed entries kept")
        r1.check("NOT-DIRECTORY" in roles and "DIRECTORY" not in roles, fl, a, "directory records are not excluded from the flattened manifest", construct="directory records kept")

    # ------------------------------------------------------------------ R18.2
    r2 = report.rule("R18.2", "wiring: path, size, modification date come from the same source record, format, digest, action and hash date from the same source entry of that record", 1)
    want = [(0, src_record, "path"), (1, src_record, "file_size"), (2, src_record, "last_modification_date"), (3, src_entry, "hash_format"), (4, src_entry, "hash_string")]
    for a in appends:
        r2.instance(fl, a, norm(a)[:100])
        ok = len(a.args) >= 5
        for i, base, attr in want:
            if ok:
                ok = norm(a.args[i]) == f"{base}.{attr}"
        kw = {k.arg: norm(k.value) for k in a.keywords}
        act = kw.get("action", norm(a.args[5]) if len(a.args) > 5 else None)
        hd = kw.get("hash_date", norm(a.args[6]) if len(a.args) > 6 else None)
        r2.check(ok, fl, a, "the carried-over record does not take (path, size, date, format, digest) from the matching source record / entry", construct="carry-over positional wiring")
        r2.check(act == f"{src_entry}.action", fl, a, f"the carried-over action is `{act}`, not the source entry's action", construct="carry-over action")
        r2.check(hd == f"{src_entry}.hash_date", fl, a, f"the carried-over hash date is `{hd}`, not the source entry's", construct="carry-over hash date")

    # ------------------------------------------------------------------ R18.3
    r3 = report.rule("R18.3", "the flattened manifest is written by a session on the collection history at the destination, with process type 'flatten' and a packinglist_ base name; flatten records no directory entries", 2)
    r3.instance(fl, fl.node, "flatten worker")
    reach = p.reachable([fl.qual])
    dirrec = [q for q in reach if q.endswith(("append_multiple_format_directory_hashes", "append_directory_hashes"))]
    r3.check(not dirrec, fl, fl.node, f"flatten can record directory entries ({dirrec})", construct="directory records reachable")
    cs = [f for f in p.funcs.values() if any(isinstance(n, ast.Constant) and n.value == "flatten" for n in walk_no_nested(f.node)) and f.module.name.endswith("commands") and any(t.endswith("MHLGenerationCreationSession.commit") for _, tg in p.calls[f.qual] for t in tg)]
    r3.check(len(cs) == 1 and cs[0].qual in reach, fl, fl.node, "flatten does not commit through the collection commit helper (process type 'flatten')", construct="collection commit")
    if len(cs) == 1:
        c = cs[0]
        r3.instance(c, c.node, "collection commit helper")
        t = norm(c.node).replace('"', "'")
        r3.check("MHLProcess('flatten')" in t, c, c.node, "process type is not 'flatten'", construct="process type")
        r3.check("hashlist_custom_basename = 'packinglist_' +" in t, c, c.node, "the flattened manifest is not named packinglist_…", construct="packing list name")

    # ------------------------------------------------------------------ R18.4
    r4 = report.rule("R18.4", "verify -pl loads the packing list through the packing-list loader as a one-generation history", 1)
    pl = p.funcs.get("ascmhl.history.MHLHistory.load_from_packing_list_path")
    if pl is None:
        raise AnalysisError("packing-list loader not found")
    r4.instance(pl, pl.node, "packing list loader")
    t = norm(pl.node)
    r4.check("hashlist_xml_parser.parse(packing_list_path)".replace("packing_list_path", pl.params[1]) in t and "generation_number = 1" in t and "append_hash_list(hash_list)" in t, pl, pl.node, "the packing list is not loaded as generation 1 of a fresh history", construct="packing list loader body")
    ver = need(cmds, "verify")
    r4.check(pl.qual in p.reachable([ver.qual]), ver, ver.node, "verify does not reach the packing-list loader", construct="verify -pl routing")

    # ---- rules shared with other properties (same mechanism, same rule, reported under every property it can break)
    include_rules(report, p, 'c11', ['R11.m'], 'first-wins per (path, format) rests on the session keeping one entry per format')
    include_rules(report, p, 'c04', ['R4.1'], 'every carry-over call must end in a record: the session appends (or judges) under the recorded-state conditions only, no other condition lets it drop a call')
    report.not_decided += ["equality of the flattened manifest with an independently computed summary", "outcomes of verify -pl on concrete trees", "histories with nested children or renames (outside the property's premise)"]


def _source_chain(o):
    """loaded_history.hash_lists [] .media_hashes [] .hash_entries  - attribute/element chain rooted at the loader call"""
    t = o
    while True:
        if t[0] == "attr":
            t = t[1]
        elif t[0] == "elem":
            t = t[1]
        elif t[0] == "call" and t[1] in ("builtin:reversed", "builtin:sorted", "builtin:list", "builtin:iter", "builtin:enumerate") and t[2]:
            t = t[2][0]
        elif t[0] == "op" and t[1] == "slice" and t[2]:
            t = t[2][0]
        elif t[0] == "call" and not t[1].endswith("MHLHistory.load_from_path") and t[1].startswith(("ascmhl.hashlist.", "ascmhl.history.")) and len(t) > 5 and t[5] is not None:
            t = t[5]  # a model method (e.g. a generator helper) on something of the loaded history
        elif t[0] == "call":
            return t[1].endswith("MHLHistory.load_from_path")
        else:
            return False


def _loop_of(n):
    x = parent(n)
    while x is not None and not isinstance(x, (ast.For, ast.While)):
        x = parent(x)
    return x


def _inside(n, container):
    x = n
    while x is not None:
        if x is container:
            return True
        x = parent(x)
    return False


def finish(report):
    return report.finish(
        level="other",
        explanation="loop coverage of the three nested flatten loops, classification of every condition that guards a carry-over by control dependence and provenance, argument wiring of the carry-over call, "
        "reachability of directory-record calls. The flattened manifest is not produced or compared.",
    )
