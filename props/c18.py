"""C18 - a flattened manifest faithfully summarises the history (structural clauses)."""
from __future__ import annotations

import ast

from sa.cfg import cfg_of
from sa.flow import show, sig, subterms
from sa.model import AnalysisError, norm, parent, walk_no_nested

from .common import lazy_reuse_rule, include_rules, alts, callers_of, commands, is_call, is_plain_iter, need, prov, reach_from


def flatten_func(p):
    sess_append = "ascmhl.generator.MHLGenerationCreationSession.append_file_hash"
    cands = [f for f in p.funcs.values() if f.module.name.endswith("commands") and any(t.endswith("create_collection_at_path") for _, tg in p.calls[f.qual] for t in tg)]
    if len(cands) != 1:
        raise AnalysisError(f"flatten worker (function creating the collection history) not found: {[f.qual for f in cands]}")
    return cands[0], sess_append


def classify_guard(p, pr, f, test, label, src_record, src_entry, dest_list_terms):
    """role of one branch condition on the way to an append in the flatten loop"""
    t = norm(test).replace('"', "'")
    # failed entries
    if t in (f"{src_entry}.action != 'failed'", f"{src_entry}.action == 'failed'"):
        keep = (t.endswith("!= 'failed'") and label == "T") or (t.endswith("== 'failed'") and label == "F")
        return "NOT-FAILED" if keep else "FAILED"
    if t in (f"{src_record}.is_directory", f"not {src_record}.is_directory", f"{src_record}.is_directory == False", f"{src_record}.is_directory == True"):
        isdir = (t in (f"{src_record}.is_directory", f"{src_record}.is_directory == True") and label == "T") or (t in (f"not {src_record}.is_directory", f"{src_record}.is_directory == False") and label == "F")
        return "DIRECTORY" if isdir else "NOT-DIRECTORY"
    names = [x for x in ast.walk(test) if isinstance(x, ast.Name)]
    # per-path knowledge: a variable holding find_media_hash_for_path(<source record>.path) of the destination list
    for nm in names:
        for o in pr.origins(nm, f):
            if is_call(o, "find_media_hash_for_path") and o[2] and o[2][0][0] == "attr" and o[2][0][2] == "path":
                return "PATH-KNOWN?"
            if o[0] == "op" and o[1] == "cmp" and any(is_call(s, "find_media_hash_for_path") for s in subterms(o)):
                return "PATH-KNOWN?"
    # per (path, format) knowledge
    if "find_hash_entry_for_format" in t and f"{src_entry}.hash_format" in t:
        return "FORMAT-KNOWN?"
    if isinstance(test, ast.Compare) and len(test.ops) == 1 and isinstance(test.ops[0], (ast.Eq, ast.NotEq)):
        sides = {norm(test.left), norm(test.comparators[0])}
        if f"{src_entry}.hash_format" in sides and any(s.endswith(".hash_format") and s != f"{src_entry}.hash_format" for s in sides):
            other = next(s for s in sides if s != f"{src_entry}.hash_format")
            base = other.rsplit(".", 1)[0]
            # the other entry iterates the entries of the record found for this path
            for lp in [a for a in _anc(test) if isinstance(a, ast.For)]:
                if norm(lp.target) == base:
                    for o in pr.origins(lp.iter, f):
                        if o[0] == "attr" and o[2] == "hash_entries" and any(is_call(s, "find_media_hash_for_path") for s in subterms(o)):
                            return "FORMAT-KNOWN?"
    for nm in names:
        # a flag set to True only under a format comparison of the kind above
        sets = [n for n in walk_no_nested(f.node) if isinstance(n, ast.Assign) and len(n.targets) == 1 and norm(n.targets[0]) == nm.id and isinstance(n.value, ast.Constant) and n.value.value is True]
        if sets and all(any(isinstance(a, ast.If) and classify_guard(p, pr, f, a.test, "T", src_record, src_entry, dest_list_terms) == "FORMAT-KNOWN?" for a in _anc(s)) for s in sets):
            return "FORMAT-KNOWN?"
    return None


def _anc(n):
    x = parent(n)
    while x is not None:
        yield x
        x = parent(x)


def run(report, p):
    pr = prov(p)
    cmds = commands(p)
    fl, sess_append = flatten_func(p)
    g = cfg_of(fl)
    report.assume("the session keeps one entry per (path, format) (C11 R11.m), so the first append for a pair wins")

    # ------------------------------------------------------------------ R18.7 (evaluated first: independent of the shape of the merge loops)
    r7 = report.rule(
        "R18.7",
        "the flattened manifest is a function of the history alone: between loading the history and committing the packing list, flatten asks the file system nothing about the "
        "recorded paths (no isdir / isfile / exists / getsize / stat / listdir on a path that comes out of a record) - what is a folder is stated by the record's is_directory, "
        "and a file that is gone from the tree still belongs to the summary",
        3,
    )
    from sa.effects import classify as _classify

    loader_q = "ascmhl.history.MHLHistory.load_from_path"
    stop = {loader_q} | {q for q in p.funcs if q.endswith(".commit") or q.endswith("commit_session_for_collection") or q.endswith("create_collection_at_path")}
    freach = p.reachable([fl.qual], stop=stop)
    for q in sorted(freach):
        f = p.funcs.get(q)
        if f is None or q in stop or f.module.name.endswith("logger"):
            continue
        r7.instance(f, f.node, f"{q}: between load and commit")
        for call, tg in p.calls[q]:
            for t in tg:
                if not t.startswith("ext:os."):
                    continue
                leaf = t.split(".")[-1]
                if leaf not in ("isdir", "isfile", "exists", "lexists", "islink", "getsize", "getmtime", "stat", "lstat", "listdir", "scandir", "walk", "access"):
                    continue
                if not call.args:
                    continue
                recorded = False
                for o in pr.origins(call.args[0], f):
                    full = pr.resolve(o, depth=3)
                    for st_ in subterms(full):
                        if is_call(st_, "set_of_file_paths") or (st_[0] == "attr" and st_[2] in ("path", "previous_path") and "MediaHash" in str(st_[3] if len(st_) > 3 else "")) or (st_[0] == "attr" and st_[2] == "media_hashes"):
                            recorded = True
                if recorded:
                    r7.check(False, f, call, f"flatten decides on `{norm(call)[:60]}`, i.e. on what the tree looks like NOW, for a recorded path: a recorded folder that was removed is summarised as a file record (its directory hashes written as <hash>), a recorded file that is now a folder is dropped", construct=f"flatten consults the file system ({leaf}) for a recorded path")
    r7.check(True, fl, fl.node, "")

    # ------------------------------------------------------------------ R18.1
    r1 = report.rule(
        "R18.1",
        "flatten visits every generation in list order, every record and every entry (loops unsliced) and skips exactly: directory records, entries whose action is 'failed', "
        "and (path, format) pairs already collected for THAT path; no other condition decides whether an entry is carried over",
        3,
    )
    loops = []
    helper_loops = {}
    for n in walk_no_nested(fl.node):
        if isinstance(n, ast.For):
            found = None
            for o in pr.origins(n.iter, fl):
                cands = [o] + ([a for a in o[2]] if o[0] in ("call", "op") and o[0] != "attr" else [])
                if o[0] == "call" and o[1].startswith(("builtin:", "ext:itertools")):
                    cands = [o] + list(o[2])
                elif o[0] == "op" and o[1] == "slice":
                    cands = list(o[2])
                else:
                    cands = [o]
                for c in cands:
                    if c[0] == "attr" and c[2] in ("hash_lists", "media_hashes", "hash_entries") and _source_chain(c):
                        found = c[2]
            if not found:
                # generator helper of the model:  for rec in hash_list.<helper>()  where the helper loops over self.<attr> and yields
                for o in pr.origins(n.iter, fl):
                    if o[0] == "call" and o[1] in p.funcs and p.funcs[o[1]].is_generator() and o[5] is not None and _source_chain(o[5]):
                        h = p.funcs[o[1]]
                        hl = [x for x in walk_no_nested(h.node) if isinstance(x, ast.For) and isinstance(x.iter, ast.Attribute) and isinstance(x.iter.value, ast.Name) and h.params and x.iter.value.id == h.params[0] and x.iter.attr in ("hash_lists", "media_hashes", "hash_entries")]
                        ys = [x for x in walk_no_nested(h.node) if isinstance(x, (ast.Yield, ast.YieldFrom))]
                        if len(hl) == 1 and ys and all(isinstance(y, ast.Yield) and y.value is not None and norm(y.value) == norm(hl[0].target) and _inside(y, hl[0]) for y in ys):
                            found = hl[0].iter.attr
                            helper_loops[id(n)] = (h, hl[0], ys)
                        else:
                            raise AnalysisError(f"{fl.loc(n)}: flatten iterates the generator {h.qual}, whose body is not a single loop over one of the model's lists yielding its elements")
            if found:
                loops.append((n, found))
    kinds = [k for _, k in loops]
    if sorted(kinds) != ["hash_entries", "hash_lists", "media_hashes"]:
        raise AnalysisError(f"flatten: expected nested loops over hash_lists / media_hashes / hash_entries of the loaded history, found {kinds}")
    by = {k: n for n, k in loops}
    for n, k in loops:
        r1.instance(fl, n, f"for {norm(n.target)} in {norm(n.iter)}")
        r1.check(is_plain_iter(p, n.iter), fl, n.iter, f"flatten iterates a slice / reordered / filtered view of {k}: later entries could win or entries drop out", construct=n.iter)
        brk = [x for s in n.body for x in ast.walk(s) if isinstance(x, (ast.Break, ast.Return)) and _loop_of(x) is n]
        r1.check(not brk, fl, brk[0] if brk else n, f"the loop over {k} can be left early", construct=f"early exit from loop over {k}")
        if id(n) in helper_loops:
            h, hlp, ys = helper_loops[id(n)]
            r1.instance(h, hlp, f"(helper) for {norm(hlp.target)} in {norm(hlp.iter)}")
            r1.check(is_plain_iter(p, hlp.iter), h, hlp.iter, f"the helper flatten iterates over yields from a slice / reordered view of {k}", construct=hlp.iter)
            hb = [x for s_ in hlp.body for x in ast.walk(s_) if isinstance(x, (ast.Break, ast.Return)) and (_loop_of(x) is hlp or isinstance(x, ast.Return))]
            r1.check(not hb, h, hb[0] if hb else hlp, f"the loop over {k} in {h.name} can be left early: the remaining {k} of that generation never reach the flattened manifest", construct=f"early exit from loop over {k} in helper")
    src_record, src_entry = norm(by["media_hashes"].target), norm(by["hash_entries"].target)
    appends = [c for c, tg in p.calls[fl.qual] if sess_append in tg]
    if not appends:
        raise AnalysisError("flatten: no session.append_file_hash call")
    for a in appends:
        r1.instance(fl, a, "carry-over site")
        an = g.node_for(a)
        roles, unknown = [], []
        for t, l in g.control_deps(an):
            if t.kind != "test":
                continue
            if not _inside(t.ast, by["hash_lists"]):
                continue
            role = classify_guard(p, pr, fl, t.ast, l, src_record, src_entry, None)
            if role is None:
                unknown.append((norm(t.ast), l))
            else:
                roles.append(role)
        # conditions under which a generator helper yields the record / entry at all
        for lid, (h, hlp, ys) in helper_loops.items():
            gh = cfg_of(h)
            hrec = norm(hlp.target) if hlp.iter.attr == "media_hashes" else "<no record>"
            hent = norm(hlp.target) if hlp.iter.attr == "hash_entries" else "<no entry>"
            for y in ys:
                for t, l in gh.control_deps(gh.node_for(y), through_loops=False):
                    if t.kind != "test":
                        continue
                    role = classify_guard(p, pr, h, t.ast, l, hrec, hent, None)
                    if role is None:
                        unknown.append((f"{h.name}: " + norm(t.ast), l))
                    else:
                        roles.append(role)
        r1.check(not unknown, fl, a, f"whether an entry is carried over depends on {unknown}, which is neither 'directory record', 'failed entry' nor 'this (path, format) already collected'", construct=f"carry-over conditional on {unknown}")
        r1.check("NOT-FAILED" in roles and "FAILED" not in roles, fl, a, "failed entries are not excluded from the flattened manifest", construct="failed entries kept")
        r1.check("NOT-DIRECTORY" in roles and "DIRECTORY" not in roles, fl, a, "directory records are not excluded from the flattened manifest", construct="directory records kept")

    # ------------------------------------------------------------------ R18.5
    r5 = report.rule(
        "R18.5",
        "decision table of the carry-over, evaluated over four facts (record is a directory, entry failed, path already collected, this format already collected for the path): "
        "the session append is executed exactly when the entry is a non-failed entry of a file record and (the path is new or the format is new for the path)",
        1,
    )
    _flatten_decision_table(p, pr, r5, fl, by, sess_append, src_record, src_entry, helper_loops)

    # ------------------------------------------------------------------ R18.2
    r2 = report.rule("R18.2", "wiring: path, size, modification date come from the same source record, format, digest, action and hash date from the same source entry of that record", 1)
    want = [(0, src_record, "path"), (1, src_record, "file_size"), (2, src_record, "last_modification_date"), (3, src_entry, "hash_format"), (4, src_entry, "hash_string")]
    for a in appends:
        r2.instance(fl, a, norm(a)[:100])
        ok = len(a.args) >= 5
        for i, base, attr in want:
            if ok:
                ok = norm(a.args[i]) == f"{base}.{attr}"
        kw = {k.arg: norm(k.value) for k in a.keywords}
        act = kw.get("action", norm(a.args[5]) if len(a.args) > 5 else None)
        hd = kw.get("hash_date", norm(a.args[6]) if len(a.args) > 6 else None)
        r2.check(ok, fl, a, "the carried-over record does not take (path, size, date, format, digest) from the matching source record / entry", construct="carry-over positional wiring")
        r2.check(act == f"{src_entry}.action", fl, a, f"the carried-over action is `{act}`, not the source entry's action", construct="carry-over action")
        r2.check(hd == f"{src_entry}.hash_date", fl, a, f"the carried-over hash date is `{hd}`, not the source entry's", construct="carry-over hash date")

    # the session stores a handed-in action on the entry (flatten hands in the source entry's action)
    sf = p.funcs.get(sess_append)
    if sf is None:
        raise AnalysisError("session append_file_hash not found")
    from .common import canon_dep

    gsf = cfg_of(sf)
    act_param = next((x for x in sf.params + sf.kwonly if x == "action"), None)
    stores = [n for n in walk_no_nested(sf.node) if isinstance(n, ast.Assign) and any(isinstance(t, ast.Attribute) and t.attr == "action" for t in n.targets) and isinstance(n.value, ast.Name) and n.value.id == act_param]
    r2.instance(sf, stores[0] if stores else sf.node, "session stores the handed-in action")
    oks = act_param is not None and len(stores) == 1 and {canon_dep(t.ast, l) for t, l in gsf.control_deps(gsf.node_for(stores[0]), transitive=False) if t.kind == "test"} <= {(f"{act_param} is None", "F"), (act_param, "T")}
    r2.check(oks, sf, stores[0] if stores else sf.node, "the session does not store the action it is handed (unconditionally when one is given): the flattened manifest would carry recomputed actions instead of the recorded ones", construct="session action passthrough")

    # ------------------------------------------------------------------ R18.3
    r3 = report.rule("R18.3", "the flattened manifest is written by a session on the collection history at the destination, with process type 'flatten' and a packinglist_ base name; flatten records no directory entries", 2)
    r3.instance(fl, fl.node, "flatten worker")
    reach = p.reachable([fl.qual])
    dirrec = [q for q in reach if q.endswith(("append_multiple_format_directory_hashes", "append_directory_hashes"))]
    r3.check(not dirrec, fl, fl.node, f"flatten can record directory entries ({dirrec})", construct="directory records reachable")
    cs = [f for f in p.funcs.values() if any(isinstance(n, ast.Constant) and n.value == "flatten" for n in walk_no_nested(f.node)) and f.module.name.endswith("commands") and any(t.endswith("MHLGenerationCreationSession.commit") for _, tg in p.calls[f.qual] for t in tg)]
    r3.check(len(cs) == 1 and cs[0].qual in reach, fl, fl.node, "flatten does not commit through the collection commit helper (process type 'flatten')", construct="collection commit")
    if len(cs) == 1:
        c = cs[0]
        r3.instance(c, c.node, "collection commit helper")
        t = norm(c.node).replace('"', "'")
        r3.check("MHLProcess('flatten')" in t, c, c.node, "process type is not 'flatten'", construct="process type")
        r3.check("hashlist_custom_basename = 'packinglist_' +" in t, c, c.node, "the flattened manifest is not named packinglist_…", construct="packing list name")

    # ------------------------------------------------------------------ R18.4
    r4 = report.rule("R18.4", "verify -pl loads the packing list through the packing-list loader as a one-generation history", 1)
    pl = p.funcs.get("ascmhl.history.MHLHistory.load_from_packing_list_path")
    if pl is None:
        raise AnalysisError("packing-list loader not found")
    r4.instance(pl, pl.node, "packing list loader")
    t = norm(pl.node)
    r4.check("hashlist_xml_parser.parse(packing_list_path)".replace("packing_list_path", pl.params[1]) in t and "generation_number = 1" in t and "append_hash_list(hash_list)" in t, pl, pl.node, "the packing list is not loaded as generation 1 of a fresh history", construct="packing list loader body")
    ver = need(cmds, "verify")
    r4.check(pl.qual in p.reachable([ver.qual]), ver, ver.node, "verify does not reach the packing-list loader", construct="verify -pl routing")
    # the loader returns the history it filled
    rets = [n for n in walk_no_nested(pl.node) if isinstance(n, ast.Return)]
    built = [n.targets[0].id for n in walk_no_nested(pl.node) if isinstance(n, ast.Assign) and len(n.targets) == 1 and isinstance(n.targets[0], ast.Name) and isinstance(n.value, ast.Call) and norm(n.value.func) in ("cls", "MHLHistory")]
    r4.check(bool(rets) and bool(built) and all(isinstance(r_.value, ast.Name) and r_.value.id == built[0] for r_ in rets), pl, rets[0] if rets else pl.node, "the packing-list loader does not return the history it built", construct="packing list loader result")
    # option wiring: --packing_list reaches the loader's packing-list parameter, ROOT its root parameter (through every hop)
    opt_of = {}
    for fq, f in p.funcs.items():
        for call, tg in p.calls[fq]:
            if pl.qual in tg:
                r4.instance(f, call, norm(call)[:90])
                b = p.bind_args(pl, call)
                for pn, arg in b.items():
                    if arg is None or pn in ("cls", "self") or not any(arg is x for x in list(call.args) + [k.value for k in call.keywords]):
                        continue
                    srcs = set()
                    for o in pr.origins(arg, f):
                        full = pr.expand_params(o, depth=4)
                        for t in [o] + list(subterms(full)):
                            if t[0] == "param" and t[1] == ver.qual:
                                srcs.add(t[2])
                    want = "packing_list" if "packing" in pn else ("root_path" if "root" in pn else None)
                    if want and srcs:
                        r4.check(srcs == {want}, f, call, f"the packing-list loader's parameter `{pn}` receives {sorted(srcs)} of `verify` instead of `{want}`", construct=f"loader {pn} <- {sorted(srcs)}")
    # the -pl branch of the dispatcher hands the packing list on
    gv = cfg_of(ver)
    from .common import canon_dep

    n_pl_workers = 0
    for call, tg in p.calls[ver.qual]:
        deps = {canon_dep(t.ast, l) for t, l in gv.control_deps(gv.node_for(call), transitive=False) if t.kind == "test"}
        if ("packing_list is None", "F") in deps or ("packing_list", "T") in deps:
            for t in tg:
                wf = p.funcs.get(t)
                if wf is None or wf.module.name.endswith("logger"):
                    continue
                n_pl_workers += 1
                r4.instance(ver, call, "verify -pl worker call")
                b = p.bind_args(wf, call)
                passed = [pn for pn, arg in b.items() if isinstance(arg, ast.Name) and arg.id == "packing_list"]
                r4.check(len(passed) == 1 and "packing" in passed[0], ver, call, f"the -pl branch of verify does not hand the packing list to its worker's packing-list parameter (bound to {passed})", construct="verify -pl argument")
                rootp = [pn for pn, arg in b.items() if isinstance(arg, ast.Name) and arg.id == "root_path"]
                r4.check(len(rootp) == 1 and "root" in rootp[0], ver, call, f"the -pl branch of verify passes the root path as `{rootp}`", construct="verify -pl root argument")

    r4.check(n_pl_workers >= 1, ver, ver.node, "verify has no worker call on the branch taken when --packing_list is given: the packing list is ignored and the tree is verified against whatever history lies in it (or the command fails with `no history`)", construct="verify -pl branch without worker call")

    # ------------------------------------------------------------------ R18.6
    r6 = report.rule(
        "R18.6",
        "what makes verify exit 21 (`new files found`): the counter is raised for traversed files the history does not know; where it is raised for a traversed FOLDER, the set "
        "the folder is looked up in must be closed under ancestors - a packing list holds no directory records at all, so `recorded paths plus their immediate parent folders` "
        "reports every folder two or more levels above a file as new and the unchanged tree fails",
        1,
    )
    vf = p.funcs.get("ascmhl.commands.verify_entire_folder")
    if vf is None:
        raise AnalysisError("verify_entire_folder not found")
    gvf = cfg_of(vf)
    exc_tests = [n for n in walk_no_nested(vf.node) if isinstance(n, ast.If) and any(isinstance(x, ast.Call) and norm(x.func).endswith("NewFilesFoundException") for st in n.body for x in ast.walk(st))]
    counters = {x.id for t_ in exc_tests for x in ast.walk(t_.test) if isinstance(x, ast.Name)}
    bumps = [n for n in walk_no_nested(vf.node) if isinstance(n, ast.AugAssign) and isinstance(n.target, ast.Name) and n.target.id in counters]
    if not exc_tests or not bumps:
        raise AnalysisError("verify_entire_folder: the new-files counter / NewFilesFoundException test not found")
    from .common import atomic_deps

    for b in bumps:
        r6.instance(vf, b, norm(b))
        atoms, tests = [], []
        for t_, l in gvf.necessary_branches(gvf.node_for(b)):
            atoms += atomic_deps(t_.ast, l)
            tests.append((t_.ast, l))
        if ("is_dir", "T") not in atoms:
            r6.check(True, vf, b, "")
            continue
        # raised for a folder: find the membership test and judge the set
        member = None
        for ta, l in tests:
            for x in ast.walk(ta):
                if isinstance(x, ast.Compare) and len(x.ops) == 1 and isinstance(x.ops[0], (ast.In, ast.NotIn)):
                    member = x
        if member is None:
            r6.check(False, vf, b, "every traversed folder raises the new-files counter: a packing list holds no directory records, so the unchanged tree fails verify -pl with exit 21", construct="new-files counter raised for every folder")
            continue
        single_level = False
        for o in pr.origins(member.comparators[0], vf):
            for st_ in subterms(o):
                if st_[0] == "op" and st_[1] == "comp" and st_[2] and is_call(st_[2][-1], "os.path.dirname") and not any(is_call(y, "os.path.dirname") for a_ in st_[2][-1][2] for y in subterms(a_)):
                    single_level = True
        in_loop_closure = any(isinstance(n, ast.While) for n in walk_no_nested(vf.node) if any(isinstance(x, ast.Call) and norm(x.func).endswith("dirname") for x in ast.walk(n)))
        if single_level and not in_loop_closure:
            r6.check(False, vf, b, f"a traversed folder counts as new unless it is in `{norm(member.comparators[0])}`, which holds the recorded paths and only the immediate parent folder of each: every folder two or more levels above a recorded file (and every folder when the history is a packing list, which has no directory records) makes the unchanged tree exit 21", construct="folders judged against recorded paths + one dirname level")
        else:
            raise AnalysisError(f"{vf.loc(b)}: the new-files counter is raised for folders under a membership test whose set `{norm(member.comparators[0])[:60]}` is not understood (ancestor closure?)")

    lazy_reuse_rule(report, p, 'R18.8', [need(cmds, 'flatten').qual, need(cmds, 'verify').qual], 'flatten / verify -pl')

    # ---- rules shared with other properties (same mechanism, same rule, reported under every property it can break)
    include_rules(report, p, 'c09', ['R9.1'], 'the verdict of the verification worker must be used by every caller, the -pl dispatch included')
    include_rules(report, p, 'c03', ['R3.6'], 'verify -pl must turn discrepancies into its exit code')
    include_rules(report, p, 'c03', ['R3.16'], 'flatten and verify -pl must reach their exit decision')
    include_rules(report, p, 'c04', ['R4.2'], 'verify -pl finds the reference digest of a file through the `original` lookup: a flattened manifest mixes original and verified entries in format order, so the lookup must look at every entry of the record')
    # ------------------------------------------------------------------ R18.9
    r9 = report.rule(
        "R18.9",
        "a packing list is self-contained: the collection history that flatten commits into carries no generations (nothing the set-up of the collection reaches appends a hash "
        "list to it or fills its generation list) - the commit merges `<history>.latest_ignore_patterns()` into the new manifest and numbers it after the loaded ones, so an "
        "earlier packing list in the same destination would leak its ignore patterns (verify -pl then overlooks altered or missing files) into the new one",
        1,
    )
    coll = next((f for f in p.funcs.values() if f.name == "create_collection_at_path"), None)
    if coll is None:
        raise AnalysisError("create_collection_at_path not found")
    r9.instance(coll, coll.node, "create_collection_at_path")
    bad9 = None
    for q in sorted(p.reachable([coll.qual])):
        f9 = p.funcs[q]
        if q.endswith("chain_xml_parser.parse") or f9.module.name.endswith("chain_xml_parser"):
            continue
        for n in walk_no_nested(f9.node):
            if isinstance(n, ast.Call) and isinstance(n.func, ast.Attribute) and n.func.attr == "append_hash_list":
                bad9 = (f9, n, f"`{norm(n)[:60]}` loads a generation into the collection history")
            elif isinstance(n, ast.Call) and isinstance(n.func, ast.Attribute) and n.func.attr in ("append", "extend", "insert") and norm(n.func.value).endswith(".hash_lists"):
                bad9 = (f9, n, f"`{norm(n)[:60]}` fills the generation list of the collection history")
            elif isinstance(n, ast.Assign) and any(isinstance(t, ast.Attribute) and t.attr == "hash_lists" and not (isinstance(t.value, ast.Name) and t.value.id == "self" and f9.name == "__init__") for t in n.targets):
                bad9 = (f9, n, f"`{norm(n)[:60]}` sets the generation list of the collection history")
    if bad9:
        r9.check(False, bad9[0], bad9[1], f"{bad9[2]}: the commit of the next flatten into the same destination takes the latest loaded packing list for the previous generation and merges its <ignore> patterns into the new packing list - `verify -pl` with the new list then skips files that the flattened history records (altered or missing *.log files go unnoticed after an earlier `flatten -i '*.log'` into that destination)", construct="collection history loaded with earlier packing lists")
    else:
        r9.check(True, coll, coll.node, "")

    # ------------------------------------------------------------------ R18.11
    r11 = report.rule(
        "R18.11",
        "a flag that answers a question about ONE source entry is reset for every source entry: a boolean local that is set True inside the merge loops and tested "
        "there is set back to False on every path from the start of the innermost loop iteration that contains the test to the test (a reset hoisted out of the "
        "per-entry loop lets `this format is already there` survive from one entry to the next: the following formats of that record are silently dropped)",
        1,
    )
    g11 = cfg_of(fl)
    r11.instance(fl, fl.node, "boolean flags of the merge loops scanned")
    flags = {}
    for n in walk_no_nested(fl.node):
        if isinstance(n, ast.Assign) and len(n.targets) == 1 and isinstance(n.targets[0], ast.Name) and isinstance(n.value, ast.Constant) and isinstance(n.value.value, bool):
            flags.setdefault(n.targets[0].id, {True: [], False: []})[n.value.value].append(n)
    for nm, d in sorted(flags.items()):
        if not d[True] or not d[False]:
            continue
        sets_in_loop = [a for a in d[True] if any(isinstance(x, (ast.For, ast.While)) for x in _anc(a))]
        if not sets_in_loop:
            continue
        tests = [t for t in g11.nodes if t.kind == "test" and any(isinstance(x, ast.Name) and x.id == nm for x in ast.walk(t.ast)) and any(isinstance(x, (ast.For, ast.While)) for x in _anc(t.ast))]
        for t in tests:
            lp = next(x for x in _anc(t.ast) if isinstance(x, (ast.For, ast.While)))
            # the flag-setting search loop itself (`for e in found: if e.fmt == fmt: flag = True`) is not the per-entry loop: take the loop around it that also contains a reset or, failing that, the nearest loop
            r11.instance(fl, t.ast, f"flag `{nm}` tested in the iteration of `for {norm(lp.target)[:30]} in {norm(lp.iter)[:40]}`" if isinstance(lp, ast.For) else f"flag `{nm}`")
            head = g11.by_ast[id(lp)]
            resets = {g11.node_for(a).id for a in d[False]}
            starts = [(m, l) for m, l in head.succ if l == "iter"] if isinstance(lp, ast.For) else list(head.succ)
            stale = g11.find_path(head, {t.id}, avoid=resets, first_edges=starts)
            r11.check(stale is None, fl, t.ast, f"`{nm}` is tested in every iteration of the loop over `{norm(lp.iter)[:40] if isinstance(lp, ast.For) else '?'}` but set back to False only outside it (line {d[False][0].lineno}): once it was set for one entry of a record it stays set for the record's remaining entries - a format that a later generation added for a path (gen 1 -h md5, gen 2 -h sha1) is silently left out of the packing list", witness=g11.fmt_path(stale) if stale else None, construct=f"flag `{nm}` not reset per iteration")
    r11.check(True, fl, fl.node, "")

    # ------------------------------------------------------------------ R18.10
    r10 = report.rule(
        "R18.10",
        "flatten writes ONE manifest for every history, also for one without any file record (only empty folders): the session's hash list of the collection is "
        "created on every path to the commit - not only inside the loops that carry records over (commit skips a history for which no list exists: no packing "
        "list, no collection file)",
        1,
    )
    fl_ = flatten_func(p)[0]
    g10 = cfg_of(fl_)
    commits10 = [c for c, tg in p.calls[fl_.qual] if any(t.endswith("commit_session_for_collection") or t.endswith(".commit") for t in tg)]
    touches = [n for n in walk_no_nested(fl_.node) if isinstance(n, ast.Subscript) and isinstance(n.value, ast.Attribute) and n.value.attr == "new_hash_lists" and isinstance(n.ctx, ast.Load)]
    for c in commits10:
        r10.instance(fl_, c, norm(c)[:60])
        okt = any(g10.dominates(g10.node_for(t_), g10.node_for(c)) and not any(isinstance(a, (ast.For, ast.While)) for a in _anc18(t_)) for t_ in touches)
        r10.check(okt, fl_, c, "the hash list of the collection only comes into being when the first file record is carried over (`session.new_hash_lists[...]` is touched inside the loops only): for a history that records no file at all flatten exits 0 but writes neither a packing list nor the collection file", construct="collection hash list created only with the first record")
    if not commits10:
        raise AnalysisError("flatten: commit call not found")

    include_rules(report, p, 'c12', ['R12.11'], 'verify -pl takes the ignore patterns from the packing list: a flattened manifest (which never has a root hash) written without <ignore> makes it report the files the history ignores as new')
    include_rules(report, p, 'c12', ['R12.10'], 'the patterns given to flatten go into the packing list and from there into verify -pl: a pattern string taken apart into characters (`*`) makes verify -pl ignore the whole tree')
    include_rules(report, p, 'c03', ['R3.11'], 'flatten and verify -pl log every record they handle')
    include_rules(report, p, 'c11', ['R11.m'], 'first-wins per (path, format) rests on the session keeping one entry per format')
    include_rules(report, p, 'c14', ['R14.1', 'R14.2'], 'flatten and verify -pl do not modify the source history: nothing they reach mutates the file system outside the destination')
    include_rules(report, p, 'c03', ['R3.9'], 'verify -pl and flatten are reached through dispatchers that must call their worker')
    include_rules(report, p, 'c04', ['R4.1'], 'every carry-over call must end in a record: the session appends (or judges) under the recorded-state conditions only, no other condition lets it drop a call')
    include_rules(report, p, 'c17', ['R17.13'], 'a packing list is verified (`verify -pl`) against the tree of the root it was flattened from: its records are made absolute with that root, not with the folder the packing list lies in')
    report.not_decided += ["equality of the flattened manifest with an independently computed summary", "outcomes of verify -pl on concrete trees", "histories with nested children or renames (outside the property's premise)"]


def _flatten_decision_table(p, pr, r5, fl, by, sess_append, src_record, src_entry, helper_loops=None):
    from sa.absint import OBJ, UNKNOWN, Evaluator, Val

    from .common import canon_dep

    record_loop, entry_loop = by["media_hashes"], by["hash_entries"]
    append_calls = {id(c) for c, tg in p.calls[fl.qual] if sess_append in tg}
    r5.instance(fl, record_loop, f"body of `for {norm(record_loop.target)} in {norm(record_loop.iter)}`")

    def is_fmt_eq(test, other_var=None):
        """canonical (is-equal?, polarity ok) for a comparison of the source entry's format with another entry's format"""
        if isinstance(test, ast.Compare) and len(test.ops) == 1 and isinstance(test.ops[0], (ast.Eq, ast.NotEq)):
            sides = [norm(test.left), norm(test.comparators[0])]
            if f"{src_entry}.hash_format" in sides and all(x.endswith(".hash_format") for x in sides) and sides[0] != sides[1]:
                return isinstance(test.ops[0], ast.Eq)
        return None

    bad_shape = []
    record_names = {src_record}
    pre_loop = None  # generator helper that decides which records reach flatten's loop at all
    if helper_loops and id(record_loop) in helper_loops:
        h_, hlp_, ys_ = helper_loops[id(record_loop)]
        if hlp_.iter.attr == "media_hashes":
            pre_loop = hlp_
            record_names.add(norm(hlp_.target))

    class FE(Evaluator):
        def __init__(self, facts):
            self.facts = facts
            super().__init__(self.hook, fl.qual)

        def hook(self, e, env):
            f = self.facts
            if isinstance(e, ast.Attribute) and e.attr == "is_directory" and norm(e.value) in record_names:
                return Val(f["DIR"])
            if isinstance(e, ast.Attribute) and norm(e) == f"{src_entry}.action":
                return Val("failed" if f["FAILED"] else "verified")
            if isinstance(e, ast.Call) and isinstance(e.func, ast.Attribute) and e.func.attr == "find_media_hash_for_path":
                return Val(OBJ if f["PATHK"] else None)
            if isinstance(e, ast.Call) and isinstance(e.func, ast.Attribute) and e.func.attr == "find_hash_entry_for_format" and e.args and norm(e.args[0]) == f"{src_entry}.hash_format":
                return Val(OBJ if f["FMTK"] else None)
            if isinstance(e, ast.Call) and norm(e.func) == "any" and len(e.args) == 1 and isinstance(e.args[0], (ast.GeneratorExp, ast.ListComp)):
                eq = is_fmt_eq(e.args[0].elt)
                if eq is True and not e.args[0].generators[0].ifs:
                    return Val(f["FMTK"])
                if eq is False:
                    bad_shape.append((e, "the 'format already collected' test is true when a DIFFERENT format is present"))
                    return Val(UNKNOWN)
            return None

        def step(self, s, env):
            if isinstance(s, ast.Expr) and isinstance(s.value, ast.Yield):
                env["__yielded"] = True
                return [(env, None)]
            if isinstance(s, ast.Expr) and isinstance(s.value, ast.Call) and id(s.value) in append_calls:
                env["__appended"] = True
                return [(env, None)]
            if isinstance(s, ast.For):
                if s is entry_loop:
                    outs = self.run(s.body, env)
                    return [(e2, None if (o is None or o[0] in ("continue", "break")) else o) for e2, o in outs]
                # flag loop:  for e in <found>.hash_entries: if e.hash_format == <src entry>.hash_format: flag = True
                if len(s.body) == 1 and isinstance(s.body[0], ast.If) and not s.body[0].orelse and not s.orelse:
                    eq = is_fmt_eq(s.body[0].test)
                    sets = [x for x in s.body[0].body if isinstance(x, ast.Assign) and len(x.targets) == 1 and isinstance(x.targets[0], ast.Name) and isinstance(x.value, ast.Constant) and x.value.value is True]
                    if eq is not None and len(sets) == len([x for x in s.body[0].body if not isinstance(x, ast.Break)]) and sets:
                        if eq is False:
                            bad_shape.append((s.body[0].test, "the 'format already collected' flag is set when a DIFFERENT format is present"))
                            for x in sets:
                                env[x.targets[0].id] = UNKNOWN
                        else:
                            for x in sets:
                                cur = env.get(x.targets[0].id, False)
                                env[x.targets[0].id] = True if (cur is True or self.facts["FMTK"]) else cur
                        return [(env, None)]
            return super().step(s, env)

    mism, undecided = [], []
    for DIR in (False, True):
        for FAILED in (False, True):
            for PATHK in (False, True):
                for FMTK in ((False, True) if PATHK else (False,)):
                    facts = {"DIR": DIR, "FAILED": FAILED, "PATHK": PATHK, "FMTK": FMTK}
                    ev = FE(facts)
                    if pre_loop is not None:
                        pre = ev.run(pre_loop.body, {})
                        outs = []
                        for e2, o in pre:
                            if e2.get("__yielded"):
                                outs += ev.run(record_loop.body, {})
                            else:
                                outs.append((e2, o))
                    else:
                        outs = ev.run(record_loop.body, {})
                    got = {bool(e2.get("__appended", False)) for e2, o in outs if not (o and o[0] == "raise")}
                    want = (not DIR) and (not FAILED) and ((not PATHK) or (not FMTK))
                    if got == {want}:
                        continue
                    if len(got) == 2:
                        undecided.append(facts)
                    else:
                        mism.append((facts, want))
    for e, why in bad_shape[:1]:
        r5.check(False, fl, e, why + ": formats that are new for the path are dropped and duplicates are appended", construct="format-known test with inverted comparison")
    for facts, want in mism:
        desc = ", ".join(k for k, v in (("directory record", facts["DIR"]), ("failed entry", facts["FAILED"]), ("path already collected", facts["PATHK"]), ("format already collected", facts["FMTK"])) if v) or "new path, good entry of a file record"
        r5.check(False, fl, record_loop, f"for [{desc}] the entry is {'NOT ' if want else ''}carried over, it must {'be' if want else 'not be'}", construct=f"carry-over decision wrong for: {desc}")
    if undecided and not mism and not bad_shape:
        r5.note(f"{len(undecided)} row(s) of the table depend on conditions the evaluator does not model (judged by R18.1's guard classification)")
    if not mism and not bad_shape:
        r5.check(True, fl, record_loop, "")


def _source_chain(o):
    """loaded_history.hash_lists [] .media_hashes [] .hash_entries  - attribute/element chain rooted at the loader call"""
    t = o
    while True:
        if t[0] == "attr":
            t = t[1]
        elif t[0] == "elem":
            t = t[1]
        elif t[0] == "call" and t[1] in ("builtin:reversed", "builtin:sorted", "builtin:list", "builtin:iter", "builtin:enumerate") and t[2]:
            t = t[2][0]
        elif t[0] == "op" and t[1] == "slice" and t[2]:
            t = t[2][0]
        elif t[0] == "call" and not t[1].endswith("MHLHistory.load_from_path") and t[1].startswith(("ascmhl.hashlist.", "ascmhl.history.")) and len(t) > 5 and t[5] is not None:
            t = t[5]  # a model method (e.g. a generator helper) on something of the loaded history
        elif t[0] == "call":
            return t[1].endswith("MHLHistory.load_from_path")
        else:
            return False


def _loop_of(n):
    x = parent(n)
    while x is not None and not isinstance(x, (ast.For, ast.While)):
        x = parent(x)
    return x


def _inside(n, container):
    x = n
    while x is not None:
        if x is container:
            return True
        x = parent(x)
    return False


def _anc18(n):
    from sa.model import parent as _p

    x = _p(n)
    while x is not None:
        yield x
        x = _p(x)


def finish(report):
    return report.finish(
        level="other",
        explanation="loop coverage of the three nested flatten loops, classification of every condition that guards a carry-over by control dependence and provenance, argument wiring of the carry-over call, "
        "reachability of directory-record calls. The flattened manifest is not produced or compared.",
    )
