"""C19 - info reports the recorded history truthfully (structural clauses)."""
from __future__ import annotations

import ast

from sa.cfg import cfg_of
from sa.flow import show, subterms
from sa.model import AnalysisError, norm, parent, walk_no_nested

from .common import atomic_deps, loop_iteration_paths, include_rules, alts, callers_of, class_with_code, commands, is_call, is_plain_iter, need, prov, raised_class

HIST = "ascmhl.history.MHLHistory"


def fstring_fields(e):
    """(text before, expr) pairs of an f-string / concatenation of f-strings"""
    out = []
    parts = []
    if isinstance(e, ast.JoinedStr):
        parts = e.values
    elif isinstance(e, ast.BinOp) and isinstance(e.op, ast.Add):
        return fstring_fields(e.left) + fstring_fields(e.right)
    before = ""
    for v in parts:
        if isinstance(v, ast.Constant):
            before += str(v.value)
        elif isinstance(v, ast.FormattedValue):
            out.append((before, v.value))
            before = ""
    return out


def _ancs(n):
    x = parent(n)
    while x is not None and not isinstance(x, (ast.FunctionDef, ast.AsyncFunctionDef)):
        yield x
        x = parent(x)


def run(report, p):
    pr = prov(p)
    cmds = commands(p)
    info = need(cmds, "info")
    c30 = class_with_code(p, 30)
    loader = f"{HIST}.load_from_path"
    reach = p.reachable([info.qual])

    # ------------------------------------------------------------------ R19.4 (evaluated first: it does not depend on the listers' shape)
    r4 = report.rule(
        "R19.4",
        "no single-use iterator (filter / map / generator expression / generator call) bound outside a loop is consumed inside it: from the second round on it is exhausted, "
        "so with several -sf files (or several child histories) everything after the first lists nothing",
        3,
    )
    from .common import reused_lazy_iterators

    for q in sorted(reach):
        f = p.funcs.get(q)
        if f is None or not f.module.name.startswith("ascmhl"):
            continue
        r4.instance(f, f.node, f"{f.qual}: loops scanned")
        for asg, use, loop in reused_lazy_iterators(p, f):
            r4.check(False, f, use, f"`{norm(asg.targets[0])}` is bound once to a single-use iterator ({norm(asg.value)[:60]}, line {asg.lineno}) and consumed inside the loop at line {loop.lineno}: only the first round sees any element - the listing for every further file/history is silently empty", construct=f"single-use iterator {norm(asg.targets[0])} consumed inside a loop")
    r4.check(True, info, info.node, "")

    # ------------------------------------------------------------------ R19.1
    r1 = report.rule("R19.1", "both info paths load the history and raise the no-history error (exit 30) when it has no generations, before anything is listed; `-sf` without a root searches upward from the file's folder and takes the nearest folder containing an ascmhl folder", 2)
    listers = [p.funcs[q] for q in reach if q != info.qual and loader in [t for _, tg in p.calls[q] for t in tg] and p.funcs[q].module.name.endswith("commands")]
    if len(listers) < 2:
        raise AnalysisError(f"info: expected two listing functions that load the history, found {[f.qual for f in listers]}")
    for f in listers:
        g = cfg_of(f)
        r1.instance(f, f.node, f.name)
        loads = [g.node_for(c) for c, tg in p.calls[f.qual] if loader in tg]
        raises = [n for n in g.nodes if n.kind == "stmt" and isinstance(n.ast, ast.Raise) and raised_class(p, f, n.ast) == c30]
        ok = len(raises) >= 1
        for rn in raises:
            from .common import atomic_deps as _ad

            deps = [(a.replace(" ", ""), l) for t, l in g.control_deps(rn) if t.kind == "test" for a, l in _ad(t.ast, l)]

            def _empty_test(a, l):
                # `len(h.hash_lists) == 0` true  /  `not h.hash_lists`  /  `len(h.hash_lists) < 1` true  /  `len(...) > 0` false
                if a.startswith("len(") and a.endswith(".hash_lists)==0") and l == "T":
                    return True
                if a.endswith(".hash_lists") and not a.startswith("len(") and l == "F":
                    return True
                if a.startswith("len(") and (a.endswith(".hash_lists)<1") and l == "T" or a.endswith(".hash_lists)>0") and l == "F" or a.endswith(".hash_lists)>=1") and l == "F"):
                    return True
                return False

            ok = ok and len(deps) == 1 and _empty_test(*deps[0]) and any(g.dominates(ln, rn) for ln in loads)
        r1.check(ok, f, raises[0].ast if raises else f.node, "the listing function does not raise the no-history error exactly when the loaded history has no generations", construct="no-history raise")
        # listing (info logs inside loops) only after the check
        for n in g.nodes:
            if n.kind == "loop" and isinstance(n.ast, ast.For) and ("hash_lists" in norm(n.ast.iter) or "single_file" in norm(n.ast.iter)) and raises:
                t = [tt for tt, l in g.control_deps(raises[0], transitive=False)][0]
                r1.check(g.dominates(t, n), f, n.ast, "generations are listed before the empty-history check", construct="listing before check")
        for c, tg in p.calls[f.qual]:
            for t in tg:
                if t in p.funcs and p.funcs[t].module.name.endswith("commands") and any("hash_lists" in norm(x.iter) for x in walk_no_nested(p.funcs[t].node) if isinstance(x, ast.For)) and raises:
                    tt = [x for x, l in g.control_deps(raises[0], transitive=False)][0]
                    r1.check(g.dominates(tt, g.node_for(c)), f, c, "generations are listed before the empty-history check", construct="listing before check")
    g = cfg_of(info)
    # the upward search lives in `info` itself or in a helper it calls
    sf = info
    wl = [n for n in walk_no_nested(info.node) if isinstance(n, ast.While)]
    if not wl:
        for c, tg in p.calls[info.qual]:
            for t in tg:
                if t in p.funcs and p.funcs[t].module is info.module and [n for n in walk_no_nested(p.funcs[t].node) if isinstance(n, ast.While)]:
                    sf = p.funcs[t]
                    wl = [n for n in walk_no_nested(sf.node) if isinstance(n, ast.While)]
    if not wl:
        pl = _parents_search(p, info)
        if pl is not None:
            _check_parents_search(p, r1, info, *pl)
            wl = None
    if wl is not None and len(wl) != 1:
        raise AnalysisError("info: upward search loop for the enclosing history not found (neither in info nor in a helper it calls)")
    if wl is not None:
        _check_while_search(p, r1, info, sf, wl)
    raises = [n for n in g.nodes if n.kind == "stmt" and isinstance(n.ast, ast.Raise) and raised_class(p, info, n.ast) == c30]
    ok2 = len(raises) == 1 and any(norm(t.ast) in ("root_path is None", "root_path == None", "not root_path") and l == "T" for t, l in g.control_deps(raises[0], transitive=False))
    r1.check(ok2, info, raises[0].ast if raises else info.node, "info -sf does not fail with the no-history error when no enclosing history exists", construct="info -sf no history")
    _rest(report, p, pr, info, reach, loader, c30, listers)


def _parents_search(p, info):
    """second idiom: `for d in pathlib.Path(<file>)....parents:` in info or a helper it calls -> (function, loop)"""
    cands = [info] + [p.funcs[t] for c, tg in p.calls[info.qual] for t in tg if t in p.funcs and p.funcs[t].module is info.module]
    for f in cands:
        for n in walk_no_nested(f.node):
            if isinstance(n, ast.For) and isinstance(n.iter, ast.Attribute) and n.iter.attr == "parents":
                return f, n
    return None


def _check_parents_search(p, r1, info, sf, loop):
    r1.instance(sf, loop, "upward search (Path.parents)")
    # unwrap the chain under .parents
    e = loop.iter.value
    methods = []
    arg = None
    while True:
        if isinstance(e, ast.Call) and isinstance(e.func, ast.Attribute) and e.func.attr in ("resolve", "absolute", "expanduser") :
            methods.append(e.func.attr)
            e = e.func.value
            continue
        if isinstance(e, ast.Call) and norm(e.func) in ("pathlib.Path", "Path", "pathlib.PurePath", "PurePath") and len(e.args) == 1:
            arg = e.args[0]
            break
        raise AnalysisError(f"{sf.loc(loop)}: the path whose .parents are searched is built by `{norm(loop.iter)[:80]}`, a form this checker does not model")
    inner = []
    while isinstance(arg, ast.Call) and norm(arg.func) in ("os.path.abspath", "os.path.realpath", "os.path.normpath", "str", "os.fspath") and arg.args:
        inner.append(norm(arg.func))
        arg = arg.args[0]
    first = "single_file[0]" if sf is info else (sf.params[0] if sf.params else None)
    if norm(arg) != first:
        raise AnalysisError(f"{sf.loc(loop)}: the upward search starts from `{norm(arg)}`, expected the first named file")
    if sf is not info:
        hc = [c for c, tg in p.calls[info.qual] if sf.qual in tg]
        r1.check(len(hc) == 1 and hc[0].args and norm(hc[0].args[0]) == "single_file[0]", info, hc[0] if hc else info.node, "the search helper is not given the first named file", construct="search helper argument")
    follows_links = "resolve" in methods or "os.path.realpath" in inner
    absolutised = "absolute" in methods or "os.path.abspath" in inner or follows_links
    r1.check(not follows_links, sf, loop, "the upward search resolves symbolic links (resolve()/realpath) while the listing looks the file up by its plain absolute path (abspath): for a file reached through a link the enclosing history is searched in another place than the one the path names, and the record is not found", construct="search follows symlinks, lookup does not")
    r1.check(absolutised, sf, loop, "the upward search walks the parents of a possibly relative path: it stops at the current directory instead of the file system root", construct="search over a relative path")
    d = loop.target.id if isinstance(loop.target, ast.Name) else None
    hits = []
    for n in loop.body:
        if isinstance(n, ast.If):
            t = norm(n.test).replace(" ", "")
            cand = t in (f"({d}/ascmhl_folder_name).exists()", f"({d}/ascmhl_folder_name).is_dir()", f"os.path.exists(os.path.join({d},ascmhl_folder_name))", f"os.path.isdir(os.path.join({d},ascmhl_folder_name))", f"{d}.joinpath(ascmhl_folder_name).exists()", f"{d}.joinpath(ascmhl_folder_name).is_dir()")
            takes = any(isinstance(x, ast.Return) and x.value is not None and norm(x.value) in (d, f"str({d})", f"os.fspath({d})") for x in n.body) or (any(isinstance(x, ast.Assign) and norm(x.value) in (d, f"str({d})", f"os.fspath({d})") for x in n.body) and any(isinstance(x, ast.Break) for x in n.body))
            if cand and takes:
                hits.append(n)
    other = [n for n in loop.body if n not in hits and not isinstance(n, (ast.Expr, ast.Pass))]
    if d is None or len(hits) != 1 or other:
        raise AnalysisError(f"{sf.loc(loop)}: body of the Path.parents search is not `if (<dir> / ascmhl folder).exists(): take <dir>; stop`")
    r1.check(True, sf, loop, "")


def _check_while_search(p, r1, info, sf, wl):
    g = cfg_of(info)
    r1.instance(sf, wl[0], "upward search")
    w = wl[0]
    t = norm(w)
    m = [n for n in ast.walk(w) if isinstance(n, ast.Assign) and isinstance(n.value, ast.Call) and norm(n.value.func) == "os.path.dirname"]
    ok = len(m) == 1
    if ok:
        cur = norm(m[0].value.args[0])
        # found: `root_path = cur; break` or `return cur` under exists(join(cur, ascmhl folder))
        hits = [n for n in ast.walk(w) if isinstance(n, ast.If) and "os.path.exists" in norm(n.test) and ((any(isinstance(x, ast.Return) and x.value is not None and norm(x.value) == cur for x in n.body)) or (any(isinstance(x, ast.Assign) and norm(x.value) == cur for x in n.body) and any(isinstance(x, ast.Break) for x in n.body)))]
        ok = len(hits) == 1 and "ascmhl_folder_name" in t
        if ok:
            tested = norm(hits[0].test)
            ev = [n for n in ast.walk(w) if isinstance(n, ast.Assign) and norm(n.targets[0]) in tested and "os.path.join" in norm(n.value)]
            ok = (f"os.path.join({cur}, ascmhl_folder_name)" in tested) or (len(ev) == 1 and norm(ev[0].value) == f"os.path.join({cur}, ascmhl_folder_name)")
        start = [n for n in walk_no_nested(sf.node) if isinstance(n, ast.Assign) and norm(n.targets[0]) == cur and not any(a is w for a in _anc(n))]
        ok = ok and len(start) == 1 and norm(start[0].value).startswith("os.path.dirname(os.path.abspath(")
        if ok and sf is not info:
            # the helper is given the first named file
            hc = [c for c, tg in p.calls[info.qual] if sf.qual in tg]
            ok = len(hc) == 1 and hc[0].args and norm(hc[0].args[0]) == "single_file[0]" and norm(start[0].value) == f"os.path.dirname(os.path.abspath({sf.params[0]}))"
        elif ok:
            ok = "single_file[0]" in norm(start[0].value)
        stop = [n for n in ast.walk(w) if isinstance(n, ast.If) and isinstance(n.test, ast.Compare) and isinstance(n.test.ops[0], ast.Eq) and any(isinstance(x, (ast.Break, ast.Return)) for x in n.body)]
        ok = ok and len(stop) == 1
        # the candidate is tested before moving up (nearest first)
        gs = cfg_of(sf)
        ok = ok and gs.node_for(m[0]).id in gs.reachable_from([gs.node_for(hits[0].test)])
    r1.check(ok, sf, wl[0], "the search for the enclosing history does not start at the file's own folder, move up one folder at a time and stop at the first folder that contains an ascmhl folder", construct="nearest enclosing history search")


def _rest(report, p, pr, info, reach, loader, c30, listers):

    # ------------------------------------------------------------------ R19.2
    r2 = report.rule("R19.2", "generation listing: a loop over the full generation list logs, on every path, number and creation date of the loop's own generation; the listing recurses into every child history (all levels)", 2)
    gl = [p.funcs[q] for q in reach if any(isinstance(n, ast.For) and ".hash_lists" in norm(n.iter) for n in walk_no_nested(p.funcs[q].node)) and any("Generation" in norm(x) for x in walk_no_nested(p.funcs[q].node) if isinstance(x, ast.JoinedStr)) and not any("hash_entries" in norm(n.iter) for n in walk_no_nested(p.funcs[q].node) if isinstance(n, ast.For))]
    if len(gl) != 1:
        raise AnalysisError(f"generation lister not found: {[f.qual for f in gl]}")
    L = gl[0]
    gL = cfg_of(L)
    for n in walk_no_nested(L.node):
        if isinstance(n, ast.For) and ".hash_lists" in norm(n.iter):
            r2.instance(L, n, f"for {norm(n.target)} in {norm(n.iter)}")
            r2.check(is_plain_iter(p, n.iter) and norm(n.iter) == f"{L.params[0]}.hash_lists", L, n.iter, "the generation listing covers only a slice / another list of generations", construct=n.iter)
            ln = gL.by_ast[id(n)]
            logs = [c for c, tg in p.calls[L.qual] if any(t.endswith("logger.info") for t in tg) and _inside(c, n)]
            lid = {gL.node_for(c).id for c in logs}
            path = gL.find_path(ln, {ln.id, gL.exit.id}, avoid=lid, first_edges=[(m, l) for m, l in ln.succ if l == "iter"])
            r2.check(bool(logs) and path is None, L, n, "a generation can be passed over without a line of output", witness=gL.fmt_path(path) if path else None, construct="generation without output")
            v = norm(n.target)
            for c in logs:
                fields = fstring_fields(c.args[0]) if c.args else []
                okf = any("Generation" in b and norm(e) == f"{v}.generation_number" for b, e in fields) and any(norm(e) == f"{v}.creator_info.creation_date" for b, e in fields)
                r2.check(okf, L, c, "the generation line does not print the number and creation date of the generation being listed", construct=f"generation line fields {[norm(e) for _, e in fields][:4]}")
            brk = [x for s in n.body for x in ast.walk(s) if isinstance(x, (ast.Break, ast.Return, ast.Continue))]
            r2.check(not brk, L, brk[0] if brk else n, "the generation listing can skip or stop early")
    # recursion over all children
    kids = [n for n in walk_no_nested(L.node) if isinstance(n, ast.For) and ".child_histories" in norm(n.iter)]
    r2.instance(L, kids[0] if kids else L.node, "child recursion")
    okk = len(kids) == 1 and is_plain_iter(p, kids[0].iter) and norm(kids[0].iter) == f"{L.params[0]}.child_histories"
    if okk:
        rec = [c for c, tg in p.calls[L.qual] if L.qual in tg and _inside(c, kids[0])]
        okk = len(rec) == 1 and norm(rec[0].args[0]) == norm(kids[0].target)
        if okk:
            gn = gL.node_for(rec[0])
            deps = [t for t, l in gL.control_deps(gn, transitive=False) if t.kind == "test"]
            okk = not deps
    r2.check(okk, L, kids[0] if kids else L.node, "the generation lister does not call itself for every child history: nested histories two or more levels deep (or all of them) are missing from `info`", construct="recursive child listing")
    entry_calls = [(cf, c) for cf, c in callers_of(p, L.qual) if cf is not L]
    r2.check(all(cf.qual in reach for cf, _ in entry_calls) and len(entry_calls) >= 1, L, L.node, "the generation lister is not reached from info", construct="lister reachable")

    # ------------------------------------------------------------------ R19.3
    r3 = report.rule("R19.3", "per-file listing: every generation (skipped only when it has no record for the path) and every entry of the record produce one line whose fields are generation number, format, digest and action of the matching loop variables", 2)
    fl = [p.funcs[q] for q in reach if any(isinstance(n, ast.For) and ".hash_entries" in norm(n.iter) for n in walk_no_nested(p.funcs[q].node))]
    fl = [f for f in fl if f.module.name.endswith("commands")]
    if len(fl) != 1:
        raise AnalysisError(f"per-file lister not found: {[f.qual for f in fl]}")
    F = fl[0]
    gF = cfg_of(F)
    outer = [n for n in walk_no_nested(F.node) if isinstance(n, ast.For) and ".hash_lists" in norm(n.iter)]
    inner = [n for n in walk_no_nested(F.node) if isinstance(n, ast.For) and ".hash_entries" in norm(n.iter)]
    if len(outer) != 1 or len(inner) != 1:
        raise AnalysisError("per-file lister: generation / entry loops not found")
    o, i = outer[0], inner[0]
    r3.instance(F, o, f"for {norm(o.target)} in {norm(o.iter)}")
    r3.instance(F, i, f"for {norm(i.target)} in {norm(i.iter)}")
    r3.check(is_plain_iter(p, o.iter) and is_plain_iter(p, i.iter), F, o.iter, "the per-file listing iterates a slice / filtered view of generations or entries")
    # every named file is listed: the generation loop sits inside a loop over the bare -sf parameter
    file_loops = [a for a in _ancs(o) if isinstance(a, ast.For)]
    sf_param = next((pn for pn in F.params if "single" in pn or "file" in pn), None)
    fit = file_loops[0].iter if file_loops else None
    while fit is not None:  # the order in which the named files are listed is not part of the property
        if isinstance(fit, ast.Call) and norm(fit.func) in ("reversed", "sorted", "list", "tuple") and len(fit.args) == 1 and not fit.keywords:
            fit = fit.args[0]
        elif isinstance(fit, ast.Subscript) and isinstance(fit.slice, ast.Slice) and fit.slice.lower is None and fit.slice.upper is None:
            fit = fit.value
        else:
            break
    okf_ = len(file_loops) == 1 and sf_param is not None and norm(fit) == sf_param and is_plain_iter(p, fit)
    r3.instance(F, file_loops[0] if file_loops else o, f"file loop: {norm(file_loops[0].iter) if file_loops else '-'}")
    r3.check(okf_, F, file_loops[0].iter if file_loops else o, f"the per-file listing does not go through every file named with -sf (`for … in {norm(file_loops[0].iter)[:40] if file_loops else '?'}`): files that are passed over are silently not listed", construct="file loop of the per-file listing")
    rec = [n for n in ast.walk(o) if isinstance(n, ast.Assign) and isinstance(n.value, ast.Call) and norm(n.value.func) == f"{norm(o.target)}.find_media_hash_for_path"]
    okr = len(rec) == 1 and norm(i.iter) == f"{norm(rec[0].targets[0])}.hash_entries"
    r3.check(okr, F, rec[0] if rec else o, "the entries listed are not those of the record found in the generation being listed", construct="record lookup")
    conts = [x for s in o.body for x in ast.walk(s) if isinstance(x, (ast.Continue, ast.Break)) and _loop_of(x) is o]
    for c in conts:
        deps = [(norm(t.ast), l) for t, l in gF.control_deps(gF.node_for(c), transitive=False) if t.kind == "test"]
        okc = isinstance(c, ast.Continue) and rec and deps == [(f"{norm(rec[0].targets[0])} is None", "T")]
        r3.check(okc, F, c, f"a generation is skipped in the per-file listing under {deps}; only generations without a record for the path may be skipped", construct=f"generation skipped under {deps}")
    iloop = gF.by_ast[id(i)]
    logs = [c for c, tg in p.calls[F.qual] if any(t.endswith("logger.info") for t in tg) and _inside(c, i) and c.args and any("Generation" in b for b, _ in fstring_fields(c.args[0]))]
    # the listing is what `info -sf` PRINTS: every line goes to standard output through logger.info, none of them through a logger that writes elsewhere
    for c, tg in [(c, tg) for c, tg in p.calls[F.qual] if c in logs]:
        other = sorted(t for t in tg if not t.endswith("logger.info"))
        r3.check(not other, F, c, f"the per-file line may be written through {other} instead of logger.info: logger.error / logger.debug write to standard error (or nothing), so the listing on standard output lacks the line of that digest", construct=f"entry line through {other}")
    lid = {gF.node_for(c).id for c in logs}
    path = gF.find_path(iloop, {iloop.id, gF.exit.id}, avoid=lid, first_edges=[(m, l) for m, l in iloop.succ if l == "iter"])
    r3.check(bool(logs) and path is None, F, i, "an entry can be passed over without a line of output (e.g. only some actions are listed)", witness=gF.fmt_path(path) if path else None, construct="entry without output")
    ov, iv = norm(o.target), norm(i.target)
    for c in logs:
        fields = [norm(e) for _, e in fstring_fields(c.args[0])]
        need_fields = [f"{ov}.generation_number", f"{iv}.hash_format", f"{iv}.hash_string", f"{iv}.action"]
        pos = [fields.index(x) if x in fields else -1 for x in need_fields]
        okf = all(x >= 0 for x in pos) and pos == sorted(pos)
        r3.check(okf, F, c, f"the per-file line prints {fields[:6]}; it must print generation number, format, digest, action of the generation / entry being listed, in that order", construct=f"entry line fields {fields[:6]}")
        # labels: "<format>: <digest> (<action>)"
        fs = fstring_fields(c.args[0])
        lab = {norm(e): b for b, e in fs}
        okl = lab.get(f"{iv}.hash_string", "").endswith(": ") and lab.get(f"{iv}.action", "").endswith("(")
        r3.check(okl, F, c, "format / digest / action are not printed in the `format: digest (action)` layout", construct="entry line layout")
    rel = [n for n in walk_no_nested(F.node) if isinstance(n, ast.Assign) and isinstance(n.value, ast.Call) and "get_relative_file_path" in norm(n.value.func)]
    okp = len(rel) == 1 and bool(rec) and "os.path.abspath" in norm(rel[0].value)
    # nearest enclosing history: the root-relative path is ROUTED (find_history_for_path), the generations listed are those of the history the routing
    # names and the record is looked up under the path relative to that history (a file of a nested history has no record in the root history)
    if okp:
        look_o = [x for o_ in pr.origins(rec[0].value.args[0], F) for x in alts(o_)]
        gens_o = [x for o_ in pr.origins(o.iter, F) for x in alts(o_)]

        def _routed(t, comp):
            if not (t[0] == "elem" and is_call(t[1], "find_history_for_path") and t[2] == ("const", comp)):
                return False
            a0 = t[1][2][0] if t[1][2] else None
            return a0 is not None and all(is_call(x, "get_relative_file_path") for x in alts(a0))

        okp = bool(look_o) and all(_routed(t, 1) for t in look_o) and bool(gens_o) and all(t[0] == "attr" and t[2] == "hash_lists" and _routed(t[1], 0) for t in gens_o)
    r3.check(okp, F, rel[0] if rel else F.node, "the record is not looked up in the history that holds the named file (the routing of its root-relative path: nearest enclosing history, path relative to that history): for a file inside a nested history the listing is empty or taken from another history's records", construct="looked-up path")

    # ------------------------------------------------------------------ R19.8
    r8 = report.rule(
        "R19.8",
        "every named file is listed from ITS nearest enclosing history: where the dispatcher searches the history upward from a named file, it does so for each "
        "file it hands to the lister (not for one element of the -sf tuple on behalf of all of them)",
        1,
    )
    disp = need(commands(p), "info")
    sfp = next((pn for pn in disp.params if "single" in pn or "file" in pn), None)
    if sfp is None:
        raise AnalysisError("info: -sf parameter not found")
    r8.instance(disp, disp.node, f"info dispatcher, -sf parameter `{sfp}`")
    fixed_elems = [n for n in walk_no_nested(disp.node) if isinstance(n, ast.Subscript) and isinstance(n.value, ast.Name) and n.value.id == sfp and isinstance(n.slice, ast.Constant) and isinstance(parent(n), ast.Call) and "abspath" in norm(parent(n).func)]
    whole = [c for c, tg in p.calls[disp.qual] if F.qual in tg and any(isinstance(a, ast.Name) and a.id == sfp for a in list(c.args) + [k.value for k in c.keywords])]
    for n in fixed_elems:
        r8.check(not whole, disp, n, f"the history is searched upward from `{norm(n)}` only, then ALL files named with -sf are listed from that history: a file outside it (named after a file of a nested history, or in another tree) gets a header and no lines", construct="history searched for one -sf element only")
    r8.check(True, None, None, "")

    # ------------------------------------------------------------------ R19.9
    r9 = report.rule(
        "R19.9",
        "one line per digest also where the listing follows a renamed file to its earlier name: the recursive listing of the previous name is not started from inside "
        "the loop over the hash entries of a record (once per entry = the earlier generations' lines repeated for every format of the renaming generation)",
        1,
    )
    rec_calls = [c for c, tg in p.calls[F.qual] if F.qual in tg]
    r9.instance(F, F.node, f"{len(rec_calls)} recursive listing call(s)")
    for c in rec_calls:
        r9.instance(F, c, norm(c)[:70])
        r9.check(not _inside(c, i), F, c, "the listing of the previous name is started inside the loop over the record's hash entries: with two hash formats in the renaming generation every line of the earlier generations is printed twice (info -v -sf)", construct="previous-name listing once per hash entry")
    r9.check(True, None, None, "")

    # ------------------------------------------------------------------ R19.5
    r5 = report.rule(
        "R19.5",
        "exactly one line per digest: inside the generation loop of the per-file listing the digest line is the only output that does not depend on `verbose` - every other "
        "output statement, and every call that prints (the recursion into the file's previous name, which lists the same record again because a renamed record is indexed "
        "under both names), executes only under a test of the verbose flag",
        2,
    )
    log_funcs = {q for q, f_ in p.funcs.items() if f_.module.name.endswith(".logger")}
    for c, tg in p.calls[F.qual]:
        if not _inside(c, o):
            continue
        prints = any(t in log_funcs for t in tg) or norm(c.func) in ("print", "click.echo", "click.secho")
        callee_prints = [t for t in tg if t in p.funcs and t not in log_funcs and p.funcs[t].module.name.endswith("commands") and (set(p.reachable([t])) & log_funcs)]
        if not prints and not callee_prints:
            continue
        if any(c is l_ for l_ in logs):
            continue
        r5.instance(F, c, norm(c)[:70])
        atoms5 = []
        for t_, l_ in gF.necessary_branches(gF.node_for(c)):
            atoms5 += atomic_deps(t_.ast, l_)
        under_verbose = any("verbose" in a_ and ((l_ == "T" and " == False" not in a_ and " is False" not in a_) or (l_ == "F" and (" == False" in a_ or " is False" in a_))) for a_, l_ in atoms5)
        r5.check(under_verbose, F, c, f"`{norm(c)[:70]}` prints inside the generation loop of `info -sf` also when verbose is off" + (": the recursive listing of the previous name finds the very same record (it is indexed under its former name as well) and prints its digests a second time, after the lines of the current name - more than one line per recorded digest, generations no longer ascending" if callee_prints else ""), construct=f"output outside the verbose branch: {norm(c.func)[:40]}")
    # the non-verbose iteration prints exactly one digest line
    n_lines = [len([x for x in trail if x.id in lid]) for kind, conds, trail in loop_iteration_paths(gF, iloop) if kind == "back" and not any("verbose" in a_ and l2 == "T" for c_, l_ in conds if l_ in ("T", "F") and not isinstance(c_, (ast.For, ast.While)) for a_, l2 in atomic_deps(c_, l_))]
    r5.instance(F, i, "digest lines per entry iteration")
    r5.check(bool(n_lines) and all(k == 1 for k in n_lines), F, i, f"an entry iteration of the per-file listing prints {sorted(set(n_lines))} digest line(s) with verbose off; exactly one is required", construct="digest lines per entry")

    # ------------------------------------------------------------------ R19.6
    r6 = report.rule(
        "R19.6",
        "every generation is loaded ONCE: in the loader the manifests that were parsed are handed to the history (append_hash_list) after the walk over the ascmhl "
        "folder, not inside it - appended once per folder the walk visits, every generation shows up again for each sub-directory of the ascmhl folder (info lists "
        "1,2,1,2 and prints every digest line several times)",
        1,
    )
    ld = p.funcs.get("ascmhl.history.MHLHistory.load_from_path")
    if ld is None:
        raise AnalysisError("MHLHistory.load_from_path not found")
    lfs = [ld] + [p.funcs[q] for q in p.reachable([ld.qual]) if q in p.funcs and p.funcs[q].module is ld.module and q != ld.qual and p.funcs[q].cls == ld.cls and p.funcs[q].name.startswith("_")]
    n6 = 0
    for lf in lfs:
        for c in [c for c in walk_no_nested(lf.node) if isinstance(c, ast.Call) and isinstance(c.func, ast.Attribute) and c.func.attr == "append_hash_list"]:
            n6 += 1
            r6.instance(lf, c, f"{lf.name}: {norm(c)[:50]}")
            walk_loops = [a for a in _ancs(c) if isinstance(a, ast.For) and any(isinstance(x, ast.Call) and norm(x.func) in ("os.walk", "os.listdir", "os.scandir", "glob.glob") for x in ast.walk(a.iter))]
            r6.check(not walk_loops, lf, c, f"`{norm(c)[:50]}` runs inside the loop over `{norm(walk_loops[0].iter)[:40] if walk_loops else ''}`: the list of parsed manifests is appended to the history once per folder the walk visits, so any sub-directory inside the ascmhl folder makes every generation appear again - info lists the generations repeatedly (not ascending) and info -sf prints each digest line more than once", construct=f"{lf.name}: generations appended inside the folder walk")
    if n6 == 0:
        raise AnalysisError("loader: no append_hash_list call found")

    include_rules(report, p, 'c03', ['R3.17'], 'info must fail with the no-history code (30): a local that shadows the `errors` module turns the raise into UnboundLocalError (exit 1)')
    include_rules(report, p, 'c03', ['R3.16'], 'info must print every record: a sort that raises ends the listing')
    include_rules(report, p, 'c10', ['R10.8'], 'info prints what the readers loaded: a reader that stops early (a fast path that skips the <hashes> section, a break on some tag) makes info -sf print fewer digests than the manifests hold')
    include_rules(report, p, 'c06', ['R6.3'], 'the loader recognises every manifest name the tool generates, for every folder name: a generation that is silently passed over makes the history look shorter or empty' + ' - info lists fewer generations or exits 30')
    include_rules(report, p, 'c03', ['R3.11'], 'everything info prints goes through the logger')
    include_rules(report, p, 'c17', ['R17.1'], 'info -sf lists the records of exactly the named path: the per-manifest index is keyed by the exact recorded path')
    include_rules(report, p, 'c03', ['R3.9'], 'info dispatches to one of its two listers on every path')
    include_rules(report, p, 'c04', ['R4.3'], 'info lists generations in the order of the loaded list: ascending order rests on the loader sorting by generation number alone')
    report.not_decided += ["the exact output text", "files that live in nested child histories when a root is given (the lookup is in the root history only)"]


def _anc(n):
    x = parent(n)
    while x is not None:
        yield x
        x = parent(x)


def _loop_of(n):
    x = parent(n)
    while x is not None and not isinstance(x, (ast.For, ast.While)):
        x = parent(x)
    return x


def _inside(n, container):
    x = n
    while x is not None:
        if x is container:
            return True
        x = parent(x)
    return False


def finish(report):
    return report.finish(
        level="other",
        explanation="loop coverage of the listing loops, provenance of every formatted field (f-string wiring), recursion of the generation lister into all child histories, "
        "dominance of the empty-history check over the listing. Output text is not produced.",
    )
