"""C16 - recorded size and timestamps describe the real file in any time zone (structural clauses)."""
from __future__ import annotations

import ast

from sa.emit import Elem, walk_elems
from sa.flow import show, sig, subterms
from sa.model import AnalysisError, norm, parent, walk_no_nested

from .common import alts, include_rules, callers_of, commands, is_call, prov, unshipped_modules
from .xmlcommon import documents


def run(report, p):
    pr = prov(p)
    unshipped = unshipped_modules(p)
    report.assume("the tz database rules used by datetime.astimezone() are correct")
    report.assume("file sizes do not change while a file is being hashed")

    # ------------------------------------------------------------------ R16.1
    r1 = report.rule(
        "R16.1",
        "every ISO date string is produced from an offset-aware datetime whose offset is computed FROM THAT DATE (date.astimezone(), or a tzinfo whose provenance "
        "depends on the date); an offset taken from the current time (time.localtime() without argument, time.timezone/altzone) is the offset of 'now', not of the date",
        1,
    )
    for fq, f in p.funcs.items():
        if f.module.name in unshipped:
            continue
        for n in walk_no_nested(f.node):
            if isinstance(n, ast.Call) and isinstance(n.func, ast.Attribute) and n.func.attr == "isoformat":
                r1.instance(f, n, norm(n)[:100])
                date_params = [pn for pn in f.params if pn not in ("self", "cls")]
                chain = []
                x = n.func.value
                while isinstance(x, ast.Call) and isinstance(x.func, ast.Attribute):
                    chain.append(x)
                    x = x.func.value
                aware = False
                for c in chain:
                    if c.func.attr == "astimezone":
                        if not c.args and not c.keywords:
                            aware = True
                        else:
                            dep = _depends_on_params(pr, f, c.args[0] if c.args else c.keywords[0].value, date_params)
                            r1.check(dep or _is_utc(c.args[0] if c.args else c.keywords[0].value), f, c, "astimezone() target zone is neither derived from the date nor UTC", construct=c)
                            aware = True
                    if c.func.attr == "replace":
                        for k in c.keywords:
                            if k.arg == "tzinfo":
                                aware = True
                                dep = _depends_on_params(pr, f, k.value, date_params)
                                now_src = _now_sources(pr, f, k.value)
                                r1.check(dep and not now_src, f, c, "the UTC offset attached to the date is not computed from that date" + (f" but from {', '.join(now_src)} (the offset in force now): wrong instant across a DST switch" if now_src else ""), construct="replace(tzinfo=<offset not derived from the date>)", witness="; ".join(show(o)[:200] for o in pr.origins(k.value, f)))
                # the receiver must originate from the function's date parameter (or an aware now())
                recv_ok = any(any(s[0] == "param" and s[2] in date_params for s in subterms(o)) or any(is_call(s, "datetime.now") and (s[2] or s[3]) for s in subterms(o)) for o in pr.origins(x, f)) if not isinstance(x, ast.Call) else True
                r1.check(aware, f, n, "isoformat() on a naive datetime: the written date carries no UTC offset", construct="isoformat without offset")

    # ------------------------------------------------------------------ R16.5
    r5 = report.rule(
        "R16.5",
        "no date loses or swaps its offset on the way: `.replace(tzinfo=…)` is applied to a datetime only directly after `.astimezone(...)` (same instant, then relabelled); "
        "dropping the tzinfo of a date parsed from a manifest re-labels its wall-clock time as local time when it is written again (flatten in another zone)",
        1,
    )
    n_dates = 0
    for fq, f in p.funcs.items():
        if f.module.name in unshipped:
            continue
        for n in walk_no_nested(f.node):
            if isinstance(n, ast.Call) and isinstance(n.func, ast.Attribute) and n.func.attr == "replace" and any(k.arg == "tzinfo" for k in n.keywords):
                n_dates += 1
                r5.instance(f, n, norm(n)[:80])
                recv = n.func.value
                after_conv = isinstance(recv, ast.Call) and isinstance(recv.func, ast.Attribute) and recv.func.attr == "astimezone"
                inside_iso = any(isinstance(a, ast.Call) and isinstance(a.func, ast.Attribute) and a.func.attr == "isoformat" for a in _anc(n))
                if inside_iso:
                    r5.check(True, f, n, "")  # judged by R16.1 (offset must be computed from the date)
                    continue
                r5.check(after_conv, f, n, f"`{norm(n)[:70]}` changes the tzinfo of a date without converting the instant first: a date that carried another offset (parsed from a manifest written in another zone) now denotes a different instant", construct=f"tzinfo replaced without conversion: {norm(n)[:60]}")
    r5.instance(None, None, f"{n_dates} tzinfo replacement site(s) in shipped code")
    r5.check(True, None, None, "")

    # ------------------------------------------------------------------ R16.6
    r6 = report.rule(
        "R16.6",
        "no memoisation on the date path: a function that formats a date (reaches isoformat / strftime / astimezone) is not wrapped in a cache decorator - naive datetimes "
        "compare and hash equal regardless of `fold`, so the second occurrence of a repeated local hour would be served the first one's string (wrong offset)",
        3,
    )
    fmt_funcs = set()
    for fq, f in p.funcs.items():
        if f.module.name in unshipped:
            continue
        if any(isinstance(n, ast.Call) and isinstance(n.func, ast.Attribute) and n.func.attr in ("isoformat", "strftime", "astimezone") for n in walk_no_nested(f.node)):
            fmt_funcs.add(fq)
    on_path = {fq for fq in p.funcs if p.funcs[fq].module.name not in unshipped and any(t in fmt_funcs for t in p.reachable([fq])) and (fq in fmt_funcs or p.funcs[fq].module.name.endswith("utils"))}
    for fq in sorted(on_path):
        f = p.funcs[fq]
        r6.instance(f, f.node, fq)
        r6.check(not f.memoised, f, f.node, f"{fq} formats dates and is memoised ({', '.join(f.decorators)}): two different instants with the same wall-clock fields (DST fall-back, fold=0/1) get the same cached string", construct=f"memoised date formatter {f.name}")

    # ------------------------------------------------------------------ R16.2
    r2 = report.rule("R16.2", "an optional numeric attribute (size) is emitted under `is not None`, never under truthiness: 0 is a legal size", 2)
    em, mdoc, cdoc, raw = documents(p)
    for el in walk_elems(mdoc):
        for a in el.attrs:
            v = a.value
            if isinstance(v, ast.Call) and norm(v.func) == "str" and v.args and _optional_int(p, v.args[0], a.func):
                r2.instance(a.func, a.node, f"<{el.tagname()}> @{a.name} = {norm(v)} guards={[g.text() for g in a.guards]}")
                fld = norm(v.args[0])
                for g in a.guards:
                    t = g.test
                    truthy = norm(t) == fld and g.polarity
                    r2.check(not truthy, a.func, a.node, f"attribute {a.name} is written only when `{fld}` is truthy: the value 0 (empty file) is dropped", construct=f"@{a.name} guarded by truthiness of {fld}")
                    isnn = isinstance(t, ast.Compare) and len(t.ops) == 1 and isinstance(t.ops[0], (ast.IsNot, ast.NotEq)) and norm(t.left) == fld and isinstance(t.comparators[0], ast.Constant) and t.comparators[0].value is None
                    if not truthy:
                        r2.check(isnn and g.polarity, a.func, a.node, f"attribute {a.name}: unrecognised guard `{g.text()}` for an Optional[int] field", construct=f"@{a.name} guard {g.text()}")

    # ------------------------------------------------------------------ R16.3
    r3 = report.rule(
        "R16.3",
        "size and modification time stored with a record are os.path.getsize / getmtime of the same path expression that is hashed and recorded; mtime goes through datetime.fromtimestamp",
        3,
    )
    for fq, f in p.funcs.items():
        if f.module.name in unshipped:
            continue
        for call, tg in p.calls[fq]:
            if any(t.endswith("MHLGenerationCreationSession.append_file_hash") for t in tg) and len(call.args) >= 5:
                path_o, size_o, date_o, _fmt, digest_o = [pr.origins(a, f) for a in call.args[:5]]
                if any(any(s[0] == "attr" and s[2] == "file_size" for s in subterms(o)) for o in size_o):
                    continue  # flatten copies recorded values
                r3.instance(f, call, norm(call)[:100])
                psigs = {psig(o) for o in path_o}
                ok_size = all(is_call(o, "os.path.getsize") and psig(o[2][0]) in psigs for o in size_o)
                ok_date = all(is_call(o, "datetime.fromtimestamp") and o[2] and is_call(o[2][0], "os.path.getmtime") and psig(o[2][0][2][0]) in psigs for o in date_o)
                ok_dig = all(any(is_call(s, "multiple_format_hash_file") and s[2] and psig(s[2][0]) in psigs for s in subterms(o)) or any(is_call(s, "hasher.hash_file") and s[2] and psig(s[2][0]) in psigs for s in subterms(o)) for o in digest_o)
                r3.check(ok_size, f, call, "recorded size is not os.path.getsize() of the recorded path", witness="; ".join(show(o)[:120] for o in size_o))
                r3.check(ok_date, f, call, "recorded modification date is not datetime.fromtimestamp(os.path.getmtime()) of the recorded path", witness="; ".join(show(o)[:160] for o in date_o))
                r3.check(ok_dig, f, call, "recorded digest is not computed from the recorded path", witness="; ".join(show(o)[:160] for o in digest_o))
            if any(t.endswith("append_multiple_format_directory_hashes") for t in tg) and len(call.args) >= 2:
                path_o, date_o = pr.origins(call.args[0], f), pr.origins(call.args[1], f)
                r3.instance(f, call, norm(call)[:100])
                psigs = {psig(o) for o in path_o}
                ok_date = all(is_call(o, "datetime.fromtimestamp") and o[2] and is_call(o[2][0], "os.path.getmtime") and psig(o[2][0][2][0]) in psigs for o in date_o)
                r3.check(ok_date, f, call, "recorded folder modification date is not that of the recorded folder", witness="; ".join(show(o)[:160] for o in date_o))

    # ... and inside the session the values arrive at the record unchanged: from the parameters of the append methods to the record constructor's
    # arguments and from there to the record's fields nothing replaces, clamps or adjusts them
    n_pass = 0
    for fq, f in sorted(p.funcs.items()):
        if f.module.name in unshipped or not f.module.name.endswith((".generator", ".hashlist")):
            continue
        for call, tg in p.calls[fq]:
            if any(t.endswith("find_or_create_media_hash_for_path") for t in tg) and len(call.args) >= 3:
                for what, a in (("size", call.args[1]), ("modification date", call.args[2])):
                    n_pass += 1
                    r3.instance(f, call, f"{f.name}: {what} handed to the record")
                    try:
                        os_ = [x for o in pr.origins(a, f) for x in alts(o)]
                    except AnalysisError:
                        os_ = []
                    bad_ = [o for o in os_ if not (o[0] == "param" or (o[0] == "const" and o[1] is None) or (o[0] == "attr" and o[2] in ("file_size", "last_modification_date")))]
                    r3.check(bool(os_) and not bad_, f, a, f"the {what} recorded for a file is not the value the command measured: on some path `{norm(a)}` is `{show(bad_[0])[:90] if bad_ else '?'}` instead of the parameter it was given (an adjusted, clamped or substituted value - e.g. the hash date in place of a modification date that compares later as a naive local time - describes another instant than the file's)", construct=f"{f.name}: {what} replaced on the way to the record")
        for n in walk_no_nested(f.node):
            if isinstance(n, ast.Assign) and isinstance(n.targets[0], ast.Attribute) and n.targets[0].attr in ("file_size", "last_modification_date") and f.name == "find_or_create_media_hash_for_path":
                n_pass += 1
                r3.instance(f, n, norm(n)[:70])
                os_ = [x for o in pr.origins(n.value, f) for x in alts(o)]
                r3.check(bool(os_) and all(o[0] == "param" for o in os_), f, n, f"`{norm(n)[:60]}` does not store the parameter as it is", construct=f"record field {n.targets[0].attr} not the parameter")
    if n_pass < 4:
        raise AnalysisError(f"size / modification date pass-through: only {n_pass} site(s) found in the session and the record constructor")

    # ------------------------------------------------------------------ R16.4
    r4 = report.rule("R16.4", "the time stamp in manifest file names is taken from an aware UTC 'now' (or a time converted to UTC) and formatted with a pattern ending in 'Z'", 1)
    namers = []
    for f in p.funcs.values():
        if not f.module.name.endswith("history"):
            continue
        for n in walk_no_nested(f.node):
            if isinstance(n, ast.JoinedStr) and any(isinstance(v, ast.FormattedValue) and norm(v.value) == "ascmhl_file_extension" for v in n.values):
                namers.append((f, n))
    if not namers:
        raise AnalysisError("file-name date helper / its users not found")
    for f, js in namers:
        stamped = False
        for v in js.values:
            if not isinstance(v, ast.FormattedValue) or norm(v.value) == "ascmhl_file_extension":
                continue
            for o in pr.origins(v.value, f):
                full = pr.full(o, depth=4, inline_depth=4)
                for c in [t for t in subterms(full) if is_call(t, "strftime")]:
                    consts = [s2[1] for s2 in subterms(c) if s2[0] == "const" and isinstance(s2[1], str) and "%H" in s2[1]]
                    if not consts:
                        continue
                    stamped = True
                    r4.instance(f, v.value, f"{f.name}: time stamp {show(c)[:70]}")
                    r4.check(all(k.endswith("Z") for k in consts), f, v.value, f"the time stamp pattern {consts} of manifest file names does not end in 'Z'", construct="filename date pattern")
                    # every clock value that is formatted is an aware UTC time
                    srcs = [t for t in subterms(c) if t[0] == "call" and t[1].split(".")[-1] in ("now", "utcnow", "today", "fromisoformat", "fromtimestamp", "strptime", "parse", "localtime", "gmtime")]
                    srcs = [t for t in srcs if not any(o2 is not t and any(x is t for x in subterms(o2)) for o2 in srcs)]  # outermost clock values only
                    for src in srcs:
                        kind = src[1].split(".")[-1]
                        args = list(src[2]) + list(src[3].values())
                        is_utc_now = kind in ("now", "fromtimestamp") and any(("timezone.utc" in show(a)) or ("UTC" in show(a)) for a in args)
                        converted = any(is_call(w, "astimezone") and any(("timezone.utc" in show(a)) or ("UTC" in show(a)) for a in list(w[2]) + list(w[3].values())) and any(x is src for x in subterms(w)) for w in subterms(c))
                        r4.check(is_utc_now or converted, f, v.value, f"manifest file names carry `{show(src)[:70]}` formatted with a trailing 'Z' without a conversion to UTC: on a host that is not on UTC the name states local time as UTC", construct=f"filename time from {kind} without UTC conversion")
        if not stamped:
            raise AnalysisError(f"{f.qual}: the time stamp that goes into the manifest file name could not be traced to a strftime call")

    # ------------------------------------------------------------------ R16.8
    r8 = report.rule(
        "R16.8",
        "every date attribute of a manifest is formatted with the local offset: at each call of the ISO formatter the only parameters that are set are the date and the "
        "keep-microseconds flag - a parameter that changes the zone of the output (utc=, tz=, offset=) is never bound to a value other than its default, in particular not by a "
        "positional argument that used to mean something else before the signature was extended",
        4,
    )
    iso = p.funcs.get("ascmhl.utils.datetime_isostring")
    if iso is None:
        raise AnalysisError("utils.datetime_isostring not found")
    zone_params = [pn for pn in iso.params[1:] if not ("micro" in pn or "keep" in pn)]
    for cf, call in _callers(p, iso.qual):
        if cf.module.name.endswith("_debug_commands"):
            continue
        r8.instance(cf, call, f"{cf.name}: {norm(call)[:60]}")
        b = p.bind_args(iso, call)
        dfl = iso.param_defaults()
        for pn in zone_params:
            arg = b.get(pn)
            if arg is None or arg is dfl.get(pn):
                continue
            v = p.fold(arg, cf)
            is_default = isinstance(dfl.get(pn), ast.Constant) and v == dfl[pn].value and (v is not None or isinstance(arg, ast.Constant))
            feeds_manifest = cf.module.name.endswith(("_xml_parser", "utils"))
            if not is_default and feeds_manifest:
                positional = any(arg is a for a in call.args)
                r8.check(False, cf, call, f"`{norm(call)[:60]}` sets `{pn}={norm(arg)}` of the ISO formatter{' through a positional argument' if positional else ''}: the date attribute is then written in another zone than the configured one (the value `{norm(arg)}` was {'probably meant for another parameter: positional flags shift when a parameter is inserted' if positional else 'set explicitly'})", construct=f"{cf.name}: ISO formatter called with {pn}={norm(arg)}")
    r8.check(True, iso, iso.node, "")

    # ------------------------------------------------------------------ R16.7
    r7 = report.rule(
        "R16.7",
        "the manifest reader converts the size attribute faithfully: the expression stored into a record's file_size, evaluated for the attribute text \"0\", yields the integer 0 "
        "(an empty file read back as `no size` loses the recorded size in every later generation and flattened manifest), and for \"7\" yields 7",
        1,
    )
    from sa.absint import UNKNOWN, Evaluator, Val

    rd = p.funcs.get("ascmhl.hashlist_xml_parser.parse")
    if rd is None:
        raise AnalysisError("manifest reader hashlist_xml_parser.parse not found")
    stores = [n for n in walk_no_nested(rd.node) if isinstance(n, ast.Assign) and any(isinstance(t, ast.Attribute) and t.attr == "file_size" for t in n.targets)]
    if not stores:
        raise AnalysisError("manifest reader: no store into a record's file_size found")
    for st in stores:
        r7.instance(rd, st, norm(st)[:90])
        body = None
        par = parent(st)
        for fld in ("body", "orelse", "finalbody"):
            if st in (getattr(par, fld, None) or []):
                body = getattr(par, fld)
        if body is None:
            raise AnalysisError(f"{rd.loc(st)}: enclosing block of the file_size store not found")
        before = body[: body.index(st)]
        for text, want in (("0", 0), ("7", 7)):
            def atom(e, env, text=text):
                if isinstance(e, ast.Call) and isinstance(e.func, ast.Attribute) and e.func.attr == "get" and e.args and isinstance(e.args[0], ast.Constant) and e.args[0].value == "size":
                    return Val(text)
                if isinstance(e, ast.Subscript) and isinstance(e.slice, ast.Constant) and e.slice.value == "size":
                    return Val(text)
                return None

            ev = Evaluator(atom, where=rd.qual, value_boolops=True)
            vals = []
            for env, out in ev.run(before, {}):
                if out is None:
                    vals.append(ev.eval(st.value, env))
            if not vals or any(v is UNKNOWN for v in vals):
                raise AnalysisError(f"{rd.loc(st)}: the conversion of the size attribute `{norm(st.value)[:60]}` is not understood by the evaluator")
            bad = [v for v in vals if not (type(v) is int and v == want)]
            r7.check(not bad, rd, st, f"the reader turns the recorded size {text!r} into {bad[0] if bad else None!r}: `{norm(st.value)[:70]}`", construct=f"size attribute {text!r} read back as {bad[0] if bad else None!r}")

    include_rules(report, p, 'c18', ['R18.2'], 'a flattened manifest states, for every digest, the instant at which that digest was computed: the hash date is carried over from the source entry')
    report.not_decided += ["correctness of the tz database", "that the instant written equals the file's mtime at run time (only its provenance)", "sizes of files that change during hashing"]


def _callers(p, q):
    from .common import callers_of

    return callers_of(p, q)


def _same_file(t):
    """strip wrappers that denote the same file: realpath / abspath / normpath / str"""
    while isinstance(t, tuple) and t[0] == "call" and t[1].endswith(("os.path.realpath", "os.path.abspath", "os.path.normpath", "builtin:str", "os.fspath")) and t[2]:
        t = t[2][0]
    return t


def psig(t):
    return sig(_same_file(t), 3)


def _depends_on_params(pr, f, e, params) -> bool:
    for o in pr.origins(e, f):
        for s in subterms(o):
            if s[0] == "param" and s[2] in params:
                return True
    return False


def _now_sources(pr, f, e):
    out = []
    for o in pr.origins(e, f):
        for s in subterms(o):
            if s[0] == "call" and s[1].endswith("time.localtime") and not s[2]:
                out.append("time.localtime()")
            if s[0] == "global" and s[1] in ("time.timezone", "time.altzone", "time.daylight"):
                out.append(s[1])
            if s[0] == "call" and s[1].endswith(("datetime.now", "datetime.utcnow", "time.time")):
                out.append(s[1].split(":")[-1] + "()")
    return sorted(set(out))


def _is_utc(e):
    return "utc" in norm(e).lower()


def _optional_int(p, e, f) -> bool:
    if isinstance(e, ast.Attribute):
        bt = p.etype(e.value, f)
        if bt and bt[0] == "C":
            c = p.classes[bt[1]]
            for k in p.mro(bt[1]):
                for s in p.classes[k].node.body:
                    if isinstance(s, ast.AnnAssign) and isinstance(s.target, ast.Name) and s.target.id == e.attr:
                        return "Optional[int]" in norm(s.annotation) or norm(s.annotation) == "int"
    return False


def _anc(n):
    x = parent(n)
    while x is not None:
        yield x
        x = parent(x)


def finish(report):
    return report.finish(
        level="other",
        explanation="provenance/dependency of the tzinfo attached to every ISO date, typing of emission guards of numeric attributes, same-path provenance of size/mtime/digest. "
        "That the written instant is correct for concrete zones and clocks is not executed.",
    )
