"""C06 - histories are append-only and generations are numbered without gaps (structural clauses)."""
from __future__ import annotations

import ast
import re

from sa.cfg import cfg_of
from sa.effects import classify, open_mode
from sa.emit import Alt, Elem, Opt, Rep, walk_elems
from sa.flow import show, sig, subterms
from sa.model import AnalysisError, norm, parent, walk_no_nested
from sa.rules import Report

from .common import include_rules, alts, callers_of, commands, is_call, is_const, is_plain_iter, need, prov, reach_from, unshipped_modules
from .xmlcommon import documents, writers
from . import c04, c05

HIST = "ascmhl.history.MHLHistory"


def run(report, p):
    pr = prov(p)
    cmds = commands(p)
    unshipped = unshipped_modules(p)
    mw, cw = writers(p)
    report.assume("a fresh NNNN_… name does not collide with a foreign file of the same name")

    # ------------------------------------------------------------------ R6.1
    r1 = report.rule("R6.1", "who-may-write: in shipped code files are opened for writing only by the manifest writer and the chain writer; the manifest writer is called only when a new generation is written", 3)
    shipped = set()
    for c in cmds.values():
        shipped |= set(reach_from(p, [c.qual]))
    for fq in sorted(shipped):
        f = p.funcs[fq]
        for call, tg in p.calls[fq]:
            if "builtin:open" in tg:
                mode = open_mode(p, call, f)
                if mode is None or any(ch in mode for ch in "wax+"):
                    r1.instance(f, call, norm(call)[:80])
                    r1.check(f in (mw, cw), f, call, f"a file is opened for writing ({mode!r}) outside the two history writers: existing manifests / chain entries could be modified")
                    r1.check(mode is not None and "a" not in mode and "+" not in mode, f, call, f"history file opened in update/append mode {mode!r}")
    callers = callers_of(p, mw.qual)
    for cf, call in callers:
        r1.instance(cf, call, norm(call)[:80])
        r1.check(cf.qual == f"{HIST}.write_new_generation", cf, call, "the manifest writer is called from somewhere other than write_new_generation (a manifest could be written without a fresh name)")

    # ------------------------------------------------------------------ R6.2
    r2 = report.rule(
        "R6.2",
        "fresh name: the path given to the manifest writer is join(<ascmhl folder>, <name from the new-generation-name helper | custom basename helper>); the number in the name is "
        "latest generation number + 1, and the same value is stored as the list's generation_number (which the chain writer emits as sequencenr)",
        2,
    )
    # ------------------------------------------------------------------ R6.8
    r8 = report.rule(
        "R6.8",
        "the manifest's name carries the folder's name as it is: the folder component of `NNNN_<folder>_<date>Z.mhl` is the final component of the root path itself, not a "
        "character-wise rewritten, replaced, case-folded, re-encoded, stripped or truncated copy (such a `sanitiser` also hits legitimate names - a non-breaking or ideographic "
        "space, a zero-width joiner, a soft hyphen are not `printable` - and the file is then named after another folder)",
        1,
    )
    from .common import strip_string_rewrites

    n8 = 0
    for f8 in p.funcs.values():
        if not f8.module.name.endswith("history"):
            continue
        for js in [n for n in walk_no_nested(f8.node) if isinstance(n, ast.JoinedStr) and any(isinstance(v, ast.FormattedValue) and norm(v.value) == "ascmhl_file_extension" for v in n.values)]:
            for v in js.values:
                if not isinstance(v, ast.FormattedValue):
                    continue
                for o in pr.origins(v.value, f8):
                    full = pr.inline(pr.resolve(o, depth=3), depth=3)
                    if not any(is_call(t, "get_root_path") or (t[0] == "attr" and t[2] == "asc_mhl_path") for t in subterms(full)):
                        continue
                    n8 += 1
                    r8.instance(f8, v.value, f"{f8.name}: {show(full)[:70]}")
                    inner, rewrites = strip_string_rewrites(full)
                    r8.check(not rewrites, f8, v.value, f"the folder name in the manifest file name goes through {' / '.join(rewrites)} (`{show(full)[:80]}`): for a folder whose name contains a character the rewrite touches (U+00A0, U+3000, U+200D, U+00AD, U+2028 ... for an isprintable() filter) the manifest is named after a different string than the folder - numbering, chain and digests stay intact, so nothing reports it", construct=f"{f8.name}: folder name rewritten ({'/'.join(rewrites)})")
    if n8 == 0:
        raise AnalysisError("the folder-name field of the manifest file name was not found")

    wng = p.funcs.get(f"{HIST}.write_new_generation")
    if wng is None:
        raise AnalysisError("write_new_generation not found")
    for cf, call in callers:
        if cf is not wng:
            continue
        r2.instance(cf, call, norm(call)[:80])
        path_arg = call.args[1] if len(call.args) > 1 else None
        ok = False
        name_terms = []
        for o in pr.origins(path_arg, cf):
            if is_call(o, "os.path.join") and len(o[2]) == 2 and o[2][0][0] == "attr" and o[2][0][2] == "asc_mhl_path" and o[2][0][1][0] == "self":
                ok = True
                name_terms += alts(o[2][1])
            else:
                ok = False
                break
        r2.check(ok, cf, call, "the manifest is not written to join(<own ascmhl folder>, <fresh name>)", witness="; ".join(show(o)[:160] for o in pr.origins(path_arg, cf)))
        helpers = set()
        for t in name_terms:
            if t[0] == "elem" and t[1][0] == "call" and t[1][1] in p.funcs:
                helpers.add(t[1][1])
            elif t[0] == "call" and t[1] in p.funcs:
                helpers.add(t[1])
            else:
                # the name is built in place (a helper was inlined by hand?): not a harmful shape in itself, but not one the rule can judge
                raise AnalysisError(f"{cf.loc(call)}: the manifest file name is not produced by a name helper ({show(t)[:80]}); the fresh-name rule cannot be evaluated on this shape")
        gen_helper = None
        for hq in sorted(helpers):
            h = p.funcs[hq]
            rets = [n for n in walk_no_nested(h.node) if isinstance(n, ast.Return)]
            if len(rets) != 1:
                raise AnalysisError(f"{hq}: expected a single return")
            rv = rets[0].value
            if isinstance(rv, ast.Tuple):
                gen_helper = h
                idx_expr = rv.elts[1]
                name_expr = rv.elts[0]
                r2.instance(h, rets[0], "numbered name helper")
                io = [pr.inline(o, depth=1) for o in pr.origins(idx_expr, h)]
                ok_i = all(t[0] == "op" and t[1] == "Add" and any(is_const(x, 1) for x in t[2]) and any(is_call(x, "latest_generation_number") or (is_call(x, "builtin:len") and "hash_lists" in show(x)) or (is_call(x, "builtin:max")) for x in t[2]) for o in pr.origins(idx_expr, h) for t in alts(o))
                r2.check(ok_i, h, rets[0], "the new generation number is not (latest generation number + 1): numbers could repeat or skip", witness="; ".join(show(o)[:120] for o in pr.origins(idx_expr, h)), construct="index = latest + 1")
                # the f-string uses that same index
                fs = _resolve_name(h, name_expr)
                if isinstance(fs, ast.JoinedStr):
                    first = next((v for v in fs.values if isinstance(v, ast.FormattedValue)), None)
                    r2.check(first is not None and norm(first.value) == norm(idx_expr), h, rets[0], "the number inside the file name is not the generation number that is returned", construct="name uses index")
        if gen_helper is None:
            raise AnalysisError(f"{wng.qual}: no helper returning (file name, generation number) found; the fresh-name rule cannot be evaluated")
        else:
            # generation_number store uses the helper's second element
            stores = [n for n in walk_no_nested(wng.node) if isinstance(n, ast.Assign) and any(isinstance(t, ast.Attribute) and t.attr == "generation_number" for t in n.targets)]
            okg = len(stores) == 1 and all(o[0] == "elem" and is_call(o[1], gen_helper.qual) and o[2] == ("const", 1) for o in pr.origins(stores[0].value, wng))
            r2.check(okg, wng, stores[0] if stores else wng.node, "the hash list's generation_number is not the number used in its file name", construct="generation_number = helper[1]")
            g = cfg_of(wng)
            r2.check(bool(stores) and g.dominates(g.node_for(stores[0]), g.node_for(call)), wng, call, "generation_number is set after the manifest was written", construct="number before write")

    # ------------------------------------------------------------------ R6.3
    r3 = report.rule("R6.3", "the generated file name NNNN_<folder>_<UTC>Z.mhl is accepted by the loader: extension test, history_file_name_regex (>= 4 digits, then '_' + text), number parsed back from group 1", 1)
    ext = p.module_const(p.modules["ascmhl.__version__"], "ascmhl_file_extension")
    rx = None
    hc = p.classes.get(HIST)
    for s in hc.node.body:
        if isinstance(s, ast.Assign) and any(isinstance(t, ast.Name) and t.id == "history_file_name_regex" for t in s.targets):
            rx = p.fold(s.value, None, hc.module)
    if not isinstance(rx, str) or not isinstance(ext, str):
        raise AnalysisError("history_file_name_regex / extension constants not found")
    if gen_helper is not None:
        rets = [n for n in walk_no_nested(gen_helper.node) if isinstance(n, ast.Return)]
        fs = _resolve_name(gen_helper, rets[0].value.elts[0])
        r3.instance(gen_helper, rets[0], f"name template {norm(fs)[:80]} vs regex {rx}")
        ok3 = isinstance(fs, ast.JoinedStr)
        why = ""
        if ok3:
            parts = fs.values
            first = parts[0] if parts else None
            spec = norm(first.format_spec) if isinstance(first, ast.FormattedValue) and first.format_spec is not None else ""
            m = re.fullmatch(r"f?'0(\d+)d'", spec)
            width = int(m.group(1)) if m else None
            # regex: ^(\d{N,})(?:_(.+))?$
            try:
                import re._parser as sre_parse  # py3.11+
            except Exception:  # pragma: no cover
                import sre_parse
            # structure of the loader's regex (parsed, not matched as text): a leading group of at least N digits ...
            try:
                tree = sre_parse.parse(rx)
            except Exception as e:
                raise AnalysisError(f"history_file_name_regex {rx!r} does not compile: {e}")
            min_digits = None
            any_name = False

            def _walk(items):
                nonlocal min_digits, any_name
                for op, av in items:
                    opn = str(op)
                    if opn in ("MAX_REPEAT", "MIN_REPEAT"):
                        lo, hi, sub = av
                        subl = list(sub)
                        if min_digits is None and len(subl) == 1 and str(subl[0][0]) == "IN" and any(str(x[0]) == "CATEGORY" and "DIGIT" in str(x[1]) and "NOT" not in str(x[1]) for x in subl[0][1]):
                            min_digits = lo
                        if len(subl) == 1 and str(subl[0][0]) == "ANY" and lo <= 1 and str(hi) == "MAXREPEAT":
                            any_name = True
                        _walk(subl)
                    elif opn == "SUBPATTERN":
                        _walk(list(av[3]))
                    elif opn == "BRANCH":
                        for b in av[1]:
                            _walk(list(b))

            _walk(list(tree))
            if min_digits is None:
                raise AnalysisError(f"history_file_name_regex {rx!r} has a shape this checker does not model (no leading digit group)")
            if width is None or width < min_digits:
                ok3, why = False, f"the number is formatted with {spec or 'no'} padding but the loader requires at least {min_digits} digits"
            elif not (len(parts) >= 3 and isinstance(parts[1], ast.Constant) and str(parts[1].value).startswith("_")):
                ok3, why = False, "the number is not followed by '_'"
            else:
                last = parts[-1]
                lastv = p.fold(last.value, gen_helper) if isinstance(last, ast.FormattedValue) else (last.value if isinstance(last, ast.Constant) else None)
                if not (isinstance(lastv, str) and lastv.endswith(ext)):
                    ok3, why = False, f"the name does not end with the manifest extension {ext!r}"
            # cross-check with concrete instantiations against the regex itself (constants only; no repository code is run)
            if ok3:
                folders = ("root", "My Folder_2", "a.b", "ü", "Reel 03 (A-cam) #2", "R&D", "x+y", "50%", "a,b;c", "[1]", "{x}", "!$'~@^`=", "日本語", " lead", "trail ", ".hidden", "dots..", "a\tb", "_", "-", "0001_x", "line\nbreak", "cr\rx", "sep\u2028x", "nbsp\u00a0x")
                for idx in (1, 42, 9999, 10000, 123456):
                    for folder in folders:
                        nm = f"{idx:0{width}d}_{folder}_2020-01-16_091500Z"
                        found = re.findall(rx, nm)
                        if not found or len(found) != 1 or int(found[0][0] if isinstance(found[0], tuple) else found[0]) != idx:
                            ok3, why = False, f"the manifest name {nm!r} (folder name {folder!r}) is not recognised by the loader's pattern {rx!r}: every generation of a folder with such a name is silently skipped when the history is loaded - it looks empty, verify and verify -dh exit 0 on anything"
                            break
                    if not ok3:
                        break
                if ok3 and not any_name:
                    raise AnalysisError(f"history_file_name_regex {rx!r}: the name part is not `.+`; the sample names all match, but acceptance of every folder name is not established")
        r3.check(ok3, gen_helper, rets[0], "a generated manifest name would not be recognised by the loader: " + why, construct="name template vs loader regex")
        loader = p.funcs.get(f"{HIST}.load_from_path")
        # by shape, not by the names of locals: int(<findall result>[0][0]), <name>.endswith(<extension constant>), os.path.splitext(<name>)
        lfs = [loader] + [p.funcs[q] for q in p.reachable([loader.qual]) if q in p.funcs and p.funcs[q].module is loader.module and q != loader.qual]
        has_int = has_ext = has_split = False
        for lf in lfs:
            for n in walk_no_nested(lf.node):
                if isinstance(n, ast.Call) and norm(n.func) == "int" and n.args and isinstance(n.args[0], ast.Subscript) and isinstance(n.args[0].value, ast.Subscript) and p.fold(n.args[0].slice, lf) == 0 and p.fold(n.args[0].value.slice, lf) == 0:
                    has_int = True
                if isinstance(n, ast.Call) and isinstance(n.func, ast.Attribute) and n.func.attr == "endswith" and n.args and p.fold(n.args[0], lf) == ext:
                    has_ext = True
                if isinstance(n, ast.Call) and norm(n.func).endswith("splitext"):
                    has_split = True
        _shape_missing = not (has_int and has_ext and has_split)
        if not _shape_missing:
            r3.check(True, loader, loader.node, "")

    # the loader's skip filter, evaluated on generated names: no manifest the tool itself names may be passed over
    if gen_helper is not None and loader is not None:
        from sa.absint import UNKNOWN, Evaluator, Val
        from sa.cfg import cfg_of as _cfg

        gl = _cfg(loader)
        lloops = [n for n in walk_no_nested(loader.node) if isinstance(n, ast.For) and isinstance(n.target, ast.Name) and "filename" in n.target.id]
        skips = [c for lp in lloops for st in lp.body for c in ast.walk(st) if isinstance(c, ast.Continue)]
        # conditions (as written) that lead to a `continue` in the loop over the folder's file names, before the name is parsed
        class _T:  # (whole `if` test, branch) pairs between the `continue` and its loop: their conjunction is the skip condition
            def __init__(self, a):
                self.ast = a

        for c in skips:
            deps = []
            x, par = c, parent(c)
            while par is not None and not isinstance(par, (ast.For, ast.While)):
                if isinstance(par, ast.If):
                    deps.append((_T(par.test), "T" if any(y is x for y in par.body) else "F"))
                x, par = par, parent(par)
            if not deps:
                continue
            fname = next(lp.target.id for lp in lloops if any(x is c for st in lp.body for x in ast.walk(st)))
            if not all(any(isinstance(x, ast.Name) and x.id == fname for x in ast.walk(t.ast)) for t, l in deps):
                continue  # not a test on the file name (e.g. the regex result): judged above
            r3.instance(loader, c, f"loader skip filter: {[norm(t.ast)[:60] for t, l in deps]}")
            width_ = width if isinstance(width, int) else 4
            bad = None
            for folder in ("root", "Vol.", "a._b", "My Folder_2", "x.mhl", "._", "R&D", "ü", ".hidden", "tmp", "a b"):
                nm = f"{1:0{width_}d}_{folder}_2020-01-16_091500Z{ext}"

                def atom(e, env, nm=nm):
                    if isinstance(e, ast.Name) and e.id == fname:
                        return Val(nm)
                    if isinstance(e, ast.Name):
                        v = p.fold(e, loader)
                        if isinstance(v, (str, int)):
                            return Val(v)
                    return None

                ev = Evaluator(atom, where=loader.qual, value_boolops=False)
                # what the loop body computes from the name before the test (e.g. stem, _, extension = filename.partition('.'))
                env0 = {}
                lp_ = next(lp for lp in lloops if any(x is c for st in lp.body for x in ast.walk(st)))
                for st in lp_.body:
                    if any(x is c for x in ast.walk(st)):
                        break
                    if isinstance(st, (ast.Assign, ast.AnnAssign, ast.AugAssign, ast.Expr)):
                        try:
                            outs = ev.run([st], env0)
                            env0 = outs[0][0] if outs else env0
                        except AnalysisError:
                            pass
                taken = True
                for t, l in deps:
                    v = ev.eval(t.ast, env0)
                    if v is UNKNOWN:
                        raise AnalysisError(f"{loader.loc(t.ast)}: the loader's skip condition `{norm(t.ast)[:70]}` could not be evaluated for the name {nm!r}")
                    taken = taken and (bool(v) == (l == "T"))
                if taken:
                    bad = (nm, folder)
                    break
            r3.check(bad is None, loader, c, f"the loader passes over the manifest {bad[0]!r} (folder name {bad[1]!r}) that the tool itself writes: under `{' and '.join(norm(t.ast)[:60] for t, l in deps)}` every generation of such a folder is silently skipped, the history looks empty" if bad else "", construct="loader skip filter hits a generated manifest name")

    # manifests are found by listing the folder, not by globbing a pattern that contains the folder path: `[`, `]`, `*`, `?` in a folder name are pattern syntax to glob
    if loader is not None:
        for lf in [loader] + [p.funcs[q] for q in p.reachable([loader.qual]) if q in p.funcs and p.funcs[q].module is loader.module and q != loader.qual]:
            for c, tg in p.calls[lf.qual]:
                if any(t in ("ext:glob.glob", "ext:glob.iglob") or t.endswith((".glob", ".rglob")) and t.startswith(("ext:", "unk:")) for t in tg) and c.args:
                    r3.instance(lf, c, norm(c)[:70])
                    variable_dir = False
                    for o in pr.origins(c.args[0], lf):
                        for st_ in subterms(o):
                            if st_[0] in ("param", "attr") and not any(is_call(w, "glob.escape") and any(x is st_ for x in subterms(w)) for w in subterms(o)):
                                variable_dir = True
                    r3.check(not variable_dir, lf, c, f"`{norm(c)[:70]}` builds a glob pattern from the path of the history folder: a folder name containing `[`, `]`, `*` or `?` is read as pattern syntax, the manifests of such a history are not found and the history looks empty (glob.escape() the directory part, or list the folder)", construct="manifests enumerated by a glob pattern built from the folder path")
    if gen_helper is not None and loader is not None and _shape_missing and not r3.findings:
        raise AnalysisError(f"{loader.qual}: how the loader filters manifest names by extension and parses the generation number out of the name was not recognised (int(parts[0][0]) / endswith(extension) / splitext)")

    # ------------------------------------------------------------------ R6.4
    r4 = report.rule(
        "R6.4",
        "chain rewrite: the chain writer emits every existing entry of the full, unsliced generation list in order through the entry builder, then exactly one new entry, "
        "and the builders' (path, c4, sequencenr) come from the fields the chain reader fills",
        3,
    )
    em, mdoc, cdoc, raw = documents(p)
    roles = c05.chain_reader_fields(p)
    kids = cdoc.children
    r4.instance(cw, cw.node, "chain document: " + " , ".join(type(k).__name__ + (":" + k.tagname() if isinstance(k, Elem) else "") for k in kids))
    ok4 = len(kids) == 2 and isinstance(kids[0], Rep) and isinstance(kids[1], Elem) and kids[1].tag == "hashlist"
    r4.check(ok4, cw, cw.node, "the chain file is not written as [all previous entries] followed by exactly one new entry", construct="chain = old* + new")
    if ok4:
        rep = kids[0]
        it = rep.loop.iter
        okit = is_plain_iter(p, it) and isinstance(it, ast.Attribute) and it.attr == "generations" and norm(it.value) == cw.params[0]
        r4.check(okit, cw, it, "previous chain entries are re-written from a slice / filtered / reordered view: earlier generations would drop out of the chain", construct=it)
        brk = [x for s in rep.loop.body for x in ast.walk(s) if isinstance(x, (ast.Break, ast.Continue, ast.Return, ast.If))]
        r4.check(not brk, cw, rep.loop, "the loop that re-writes previous chain entries can skip entries", construct="conditional in chain rewrite loop")
        olds = [e for item in rep.items for e in walk_elems(item) if e.tag == "hashlist" and e.children]
        for e in olds:
            r4.instance(e.func, e.node, "old entry builder")
            m = _entry_fields(e)
            want = {"path": roles["path"], "c4": roles["digest"], "sequencenr": roles["seq"]}
            got = {k: (norm(v).split(".")[-1].rstrip(")") if v is not None else None) for k, v in m.items()}
            r4.check(got == want, e.func, e.node, f"an existing chain entry is re-written from the wrong fields: {got}, the reader fills {want}", construct=f"old entry fields {got}")
        new = kids[1]
        r4.instance(new.func, new.node, "new entry builder")
        m = _entry_fields(new)
        okn = m.get("path") is not None and "os.path.basename" in norm(m["path"]) and norm(m["path"]).rstrip(")").endswith(".file_path") and m.get("c4") is not None and norm(m["c4"]).endswith("generate_reference_hash()") and m.get("sequencenr") is not None and norm(m["sequencenr"]) .endswith(".generation_number)")
        base = {norm(m[k]).split("hash_list")[0] for k in m if m[k] is not None}
        r4.check(okn, new.func, new.node, f"the new chain entry is not (basename of the new manifest, c4 of its bytes, its generation number): {{k: norm(v) for k, v in m.items()}}".replace("{k: norm(v) for k, v in m.items()}", str({k: norm(v) for k, v in m.items() if v is not None})), construct="new entry fields")

    # ------------------------------------------------------------------ R6.5
    r5 = report.rule("R6.5", "hashed after closed: every non-raising path of the manifest writer closes the file after the last write; the chain entry (which hashes the new manifest) is built after the manifest writer returned", 2)
    g = cfg_of(mw)
    opens = [c for c, tg in p.calls[mw.qual] if "builtin:open" in tg]
    for oc in opens:
        r5.instance(mw, oc, norm(oc)[:60])
        h = norm(parent(oc).targets[0]) if isinstance(parent(oc), ast.Assign) else None
        closes = {g.node_for(c).id for c, _ in p.calls[mw.qual] if isinstance(c.func, ast.Attribute) and c.func.attr == "close" and norm(c.func.value) == h}
        in_with = isinstance(parent(oc), ast.withitem)
        path = None if in_with else g.find_path(g.node_for(oc), {g.exit.id}, avoid=closes)
        r5.check(path is None, mw, oc, "the manifest can be left open (not flushed) when the writer returns: its reference hash would be computed from incomplete bytes", witness=g.fmt_path(path) if path else None)
        # no write after close
        for cid in closes:
            later = g.reachable_from([m for m, _ in g.nodes[cid].succ])
            writes = [c for c, tg in p.calls[mw.qual] if any(t.endswith(("_write_xml_string_to_file", "_write_xml_element_to_file")) or t == "extm:open().write" for t in tg) and g.node_for(c).id in later]
            r5.check(not writes, mw, writes[0] if writes else oc, "the manifest is written to after it was closed")
    commit = p.funcs.get("ascmhl.generator.MHLGenerationCreationSession.commit")
    if commit is None:
        raise AnalysisError("session commit not found")
    gc = cfg_of(commit)
    wcalls = [c for c, tg in p.calls[commit.qual] if any(t.endswith("write_new_generation") for t in tg)]
    ccalls = [c for c, tg in p.calls[commit.qual] if cw.qual in tg]
    for cc in ccalls:
        r5.instance(commit, cc, norm(cc)[:60])
        r5.check(any(gc.dominates(gc.node_for(w), gc.node_for(cc)) and norm(w.args[0]) == norm(cc.args[1]) for w in wcalls), commit, cc, "the chain entry for a manifest is built before that manifest has been written")
        r5.check(len(cc.args) == 2 and norm(cc.args[0]).endswith(".chain") and norm(cc.args[0]).split(".")[0] == norm(wcalls[0].func.value) if wcalls else False, commit, cc, "the chain that is rewritten does not belong to the history whose generation was written")

    # ------------------------------------------------------------------ R6.6 / R6.7 (shared with C04)
    sub = Report("C04", report.tier, p)
    c04.run(sub, p)
    for rr in sub.rules:
        if rr.id in ("R4.3", "R4.6"):
            rr.id = {"R4.3": "R6.6", "R4.6": "R6.7"}[rr.id]
            for f in rr.findings:
                f.rule = rr.id
            report.rules.append(rr)

    # ------------------------------------------------------------------ R6.9
    r9 = report.rule(
        "R6.9",
        "who may fill the in-memory chain: generations are appended to a chain object only by the chain readers while they parse the chain file - nothing on the way "
        "to write_chain adds entries (write_chain emits every loaded entry plus exactly ONE for the new manifest; an entry `completed` in memory for a manifest "
        "that an interrupted run left unlisted makes the next create append two entries at once)",
        2,
    )
    for fq, f in sorted(p.funcs.items()):
        if not f.module.name.startswith("ascmhl") or f.module.name in unshipped_modules(p):
            continue
        for n in walk_no_nested(f.node):
            hit = None
            if isinstance(n, ast.Call) and isinstance(n.func, ast.Attribute) and n.func.attr == "append_generation":
                hit = n
            elif isinstance(n, ast.Call) and isinstance(n.func, ast.Attribute) and n.func.attr in ("append", "extend", "insert", "pop", "remove", "clear", "sort", "reverse") and isinstance(n.func.value, ast.Attribute) and n.func.value.attr == "generations":
                hit = n
            elif isinstance(n, (ast.Assign, ast.AugAssign)) and any(isinstance(t, ast.Attribute) and t.attr == "generations" for t in (n.targets if isinstance(n, ast.Assign) else [n.target])):
                hit = n
            if hit is None:
                continue
            r9.instance(f, hit, f"{f.qual.split('.')[-2] if f.cls else f.module.name.split('.')[-1]}.{f.name}: {norm(hit)[:50]}")
            allowed = f.module.name.endswith(("chain_xml_parser", "chain_txt_parser", ".chain")) and (f.name in ("parse", "__init__", "append_generation") or f.name.startswith(("parse", "_parse", "read")))
            r9.check(allowed, f, hit, f"`{norm(hit)[:60]}` in {f.name} changes the list of generations of a chain object outside the chain reader: what write_chain then emits is no longer [the entries of the chain file] + [one entry for the new manifest] - e.g. an entry added for a manifest that an interrupted run left unlisted gives the next create a chain that grows by two entries", construct=f"{f.name}: chain generations modified outside the reader")

    include_rules(report, p, 'c08', ['R8.2'], "every history a run touches gets exactly one new manifest: a history that the root's mapping does not know (nested three levels or deeper) is left without a generation, its files are recorded one level up")
    include_rules(report, p, 'c13', ['R13.7'], 'the <folder> part of NNNN_<folder>_<time>Z.mhl is the name of the root folder, whatever the spelling of the root (., x/., trailing separator)')
    include_rules(report, p, 'c08', ['R8.6'], 'exactly one new manifest and chain entry per touched history: the commit loop writes every history that received records or references, and skips only the others')
    include_rules(report, p, 'c16', ['R16.4'], 'the manifest name carries the UTC time')
    include_rules(report, p, 'c10', ['R10.9'], 'the chain entry names its manifest through the path conversion: a conversion that rewrites a character of the folder name (a backslash on POSIX) makes the entry name a file that does not exist, and the history no longer loads (exit 33)')
    report.not_decided += ["byte-for-byte stability of earlier manifests at run time", "collision of the fresh name with a foreign file", "several runs within the same clock second (names differ by number, not by time)"]


def _resolve_name(f, e):
    seen = 0
    while isinstance(e, ast.Name) and seen < 4:
        binds = [n for n in walk_no_nested(f.node) if isinstance(n, ast.Assign) and len(n.targets) == 1 and isinstance(n.targets[0], ast.Name) and n.targets[0].id == e.id]
        if len(binds) != 1:
            return e
        e = binds[0].value
        seen += 1
    return e


def _entry_fields(e: Elem):
    out = {"path": None, "c4": None, "sequencenr": None}
    for c in e.children:
        if isinstance(c, Elem) and c.tag in ("path", "c4") and c.text is not None:
            out[c.tag] = c.text[0]
    for a in e.attrs:
        if a.name == "sequencenr":
            out["sequencenr"] = a.value
    return out


def finish(report):
    return report.finish(
        level="other",
        explanation="who-may-write, provenance of the manifest path and of the generation number, structural inclusion of the name template in the loader's regex, shape of the chain rewrite "
        "in the emission grammar with writer/reader field agreement, close-before-hash typestate, plus the C04 rules on ascending order and commit-before-exit.",
    )
