"""C04 - digests are always judged against the first recorded value (structural clauses)."""
from __future__ import annotations

import ast

from sa.cfg import cfg_of
from sa.flow import show, sig, subterms
from sa.model import AnalysisError, norm, parent, walk_no_nested

from .common import include_rules, alts, callers_of, class_with_code, commands, is_call, is_const, is_plain_iter, need, prov, raised_class, unshipped_modules

ACTIONS = {"original", "verified", "failed", "new"}
SPEC_TABLE = {
    "original": {("ORIG-NONE", True)},
    "verified": {("ORIG-NONE", False), ("FMT-NONE", False), ("EQUAL", True)},
    "failed": {("ORIG-NONE", False), ("FMT-NONE", False), ("EQUAL", False)},
    "new": {("ORIG-NONE", False), ("FMT-NONE", True)},
}


def atom_of(p, pr, f, test, label):
    """normalise a branch test to (role, truth) by provenance; None if unrecognised"""
    t = test
    neg = False
    # a named condition: `is_first = <lookup> is None` ... `if is_first:` - judge the expression the name stands for (single binding, a comparison)
    flips = 0
    t0 = t
    while isinstance(t0, ast.UnaryOp) and isinstance(t0.op, ast.Not):
        t0, flips = t0.operand, flips + 1
    if isinstance(t0, ast.Name):
        binds = [a for a in walk_no_nested(f.node) if isinstance(a, ast.Assign) and len(a.targets) == 1 and isinstance(a.targets[0], ast.Name) and a.targets[0].id == t0.id]
        others = [n for n in walk_no_nested(f.node) if isinstance(n, ast.Name) and n.id == t0.id and isinstance(n.ctx, ast.Store)]
        if len(binds) == 1 and len(others) == 1 and isinstance(binds[0].value, ast.Compare) and t0.id not in f.params:
            lab2 = label if flips % 2 == 0 else ("F" if label == "T" else "T")
            return atom_of(p, pr, f, binds[0].value, lab2)
    if isinstance(t, ast.Compare) and len(t.ops) == 1:
        l, r = t.left, t.comparators[0]
        op = t.ops[0]
        if isinstance(r, ast.Constant) and r.value is None or isinstance(l, ast.Constant) and l.value is None:
            subj = l if isinstance(r, ast.Constant) else r
            is_none = isinstance(op, (ast.Is, ast.Eq))
            if not isinstance(op, (ast.Is, ast.IsNot, ast.Eq, ast.NotEq)):
                return None
            role = None
            for o in pr.origins(subj, f):
                if is_call(o, "find_original_hash_entry_for_path"):
                    role = "ORIG-NONE"
                elif is_call(o, "find_first_hash_entry_for_path"):
                    role = "FMT-NONE"
                elif o[0] == "param" and o[2] == "action":
                    role = "ACTION-GIVEN"
                    is_none = not is_none  # ACTION-GIVEN is true when action is not None
            if role is None:
                return None
            truth = (label == "T") == is_none
            return (role, truth)
        if isinstance(op, (ast.Eq, ast.NotEq)):
            sides = [pr.origins(l, f), pr.origins(r, f)]
            def is_rec(os):
                return any(o[0] == "attr" and o[2] == "hash_string" and any(is_call(s, "find_first_hash_entry_for_path") for s in subterms(o)) for o in os)
            def is_new(os):
                return any((o[0] == "param" and o[2] == "hash_string") or (o[0] == "elem" and any(s[0] == "param" and s[2] == "hash_lookup" for s in subterms(o))) for o in os)
            if (is_rec(sides[0]) and is_new(sides[1])) or (is_rec(sides[1]) and is_new(sides[0])):
                eq = isinstance(op, ast.Eq)
                return ("EQUAL", (label == "T") == eq)
            # digest compared with something else
            if is_new(sides[0]) or is_new(sides[1]):
                return ("EQUAL-OTHER:" + norm(test), label == "T")
    return None


def run(report, p):
    pr = prov(p)
    cmds = commands(p)
    unshipped = unshipped_modules(p)
    shipped = set()
    for c in cmds.values():
        shipped |= set(p.reachable([c.qual]))

    # ------------------------------------------------------------------ R4.1
    r1 = report.rule(
        "R4.1",
        "action decision table of the session: original <=> no 'original' entry recorded for the path; verified <=> recorded, an entry of this format exists and its digest equals the new one; "
        "failed <=> ... differs; new <=> recorded but no entry of this format; a given action overrides only when `action is not None` and only flatten passes one",
        1,
    )
    deciders = []
    for fq, f in p.funcs.items():
        consts = [n for n in walk_no_nested(f.node) if isinstance(n, ast.Assign) and any(isinstance(t, ast.Attribute) and t.attr == "action" for t in n.targets) and isinstance(n.value, ast.Constant) and n.value.value in ACTIONS]
        if len({n.value.value for n in consts}) >= 3:
            deciders.append((f, consts))
    if not deciders:
        raise AnalysisError("no function assigning the action constants found")
    for f, consts in deciders:
        if f.qual not in shipped:
            continue
        g = cfg_of(f)
        r1.instance(f, f.node, f"decision table in {f.qual}")
        seen_actions = set()
        for a in consts:
            an = g.node_for(a)
            conds = set()
            unknown = []
            for t, l in g.control_deps(an):
                if t.kind != "test":
                    continue
                at = atom_of(p, pr, f, t.ast, l)
                if at is None:
                    unknown.append((norm(t.ast), l))
                else:
                    conds.add(at)
            val = a.value.value
            seen_actions.add(val)
            want = SPEC_TABLE[val]
            r1.check(not unknown and conds == want, f, a, f"action '{val}' is assigned under {sorted(conds)}{' + unrecognised ' + str(unknown) if unknown else ''}; the property requires {sorted(want)}", construct=f"action {val} under {sorted(conds)} {unknown if unknown else ''}")
        r1.check(seen_actions == ACTIONS, f, f.node, f"the session assigns the actions {sorted(seen_actions)}, expected {sorted(ACTIONS)}", construct="action constants")
        # lookups use the same path; per-format lookup uses the entry's own format
        origs = [c for c, tg in p.calls[f.qual] if any(t.endswith("find_original_hash_entry_for_path") for t in tg)]
        firsts = [c for c, tg in p.calls[f.qual] if any(t.endswith("find_first_hash_entry_for_path") for t in tg)]
        ok = len(origs) == 1 and len(firsts) == 1 and len(firsts[0].args) == 2 and norm(origs[0].args[0]) == norm(firsts[0].args[0]) and norm(origs[0].func.value) == norm(firsts[0].func.value)
        if ok:
            fo = pr.origins(firsts[0].args[1], f)
            ok = all(o[0] == "param" and "format" in o[2] or o[0] == "elem" for o in fo)
        r1.check(ok, f, firsts[0] if firsts else f.node, "the 'original' lookup and the per-format lookup do not use the same history/path, or the per-format lookup is not by the new entry's own format", construct="lookup arguments")
        # overriding action
        for n in walk_no_nested(f.node):
            if isinstance(n, ast.Assign) and any(isinstance(t, ast.Attribute) and t.attr == "action" for t in n.targets) and not isinstance(n.value, ast.Constant):
                nn = g.node_for(n)
                deps = [atom_of(p, pr, f, t.ast, l) for t, l in g.control_deps(nn, transitive=False) if t.kind == "test"]
                r1.check(deps == [("ACTION-GIVEN", True)] and isinstance(n.value, ast.Name) and n.value.id == "action", f, n, "a computed action is overridden outside the `action is not None` (flatten) case", construct=f"action override under {deps}")
        for cf, call in callers_of(p, f.qual):
            passes = any(k.arg == "action" for k in call.keywords) or len(call.args) >= 6
            if passes:
                r1.check("flatten" in cf.name, cf, call, "a predetermined action is passed to the session outside flatten: the original/verified/failed decision is bypassed", construct=f"action= passed by {cf.name}")

    # ------------------------------------------------------------------ R4.2
    r2 = report.rule("R4.2", "first-generation-wins: the history lookups iterate the bare generation list, return at the first match and fall through to None", 2)
    hist = "ascmhl.history.MHLHistory"
    for name in ("find_original_hash_entry_for_path", "find_first_hash_entry_for_path"):
        f = p.funcs.get(f"{hist}.{name}")
        if f is None:
            raise AnalysisError(f"{hist}.{name} not found")
        loops = [n for n in f.node.body if isinstance(n, ast.For)]
        r2.instance(f, f.node, name)
        ok = len(loops) == 1 and norm(loops[0].iter) == f"{f.params[0]}.hash_lists" and is_plain_iter(p, loops[0].iter)
        r2.check(ok, f, loops[0].iter if loops else f.node, "the lookup does not iterate the generations in list order (first generation first)", construct=f"{name} iterable: {norm(loops[0].iter) if loops else '-'}")
        if loops:
            inner_rets = [n for n in ast.walk(loops[0]) if isinstance(n, ast.Return)]
            r2.check(bool(inner_rets) and all(isinstance(n.value, ast.Name) for n in inner_rets), f, loops[0], "the lookup does not return at the first match inside the loop (a later generation could win)", construct=f"{name}: return inside loop")
            after = f.node.body[f.node.body.index(loops[0]) + 1:]
            tail_ok = len(after) == 1 and isinstance(after[0], ast.Return) and (after[0].value is None or (isinstance(after[0].value, ast.Constant) and after[0].value.value is None))
            r2.check(tail_ok, f, after[0] if after else f.node, "after the loop the lookup returns something other than None (last-match-wins pattern)", construct=f"{name}: fall-through")
            # every entry of the record is looked at: inner loops run over the record's bare entry list
            for il in [n for st in loops[0].body for n in ast.walk(st) if isinstance(n, ast.For)]:
                r2.instance(f, il, f"{name}: for {norm(il.target)} in {norm(il.iter)[:40]}")
                it_ = il.iter
                # order-only wrappers do not matter here (a record holds at most one entry per format and one `original`)
                while True:
                    if isinstance(it_, ast.Call) and norm(it_.func) in ("reversed", "sorted", "list", "tuple", "iter") and it_.args:
                        it_ = it_.args[0]
                    elif isinstance(it_, ast.Subscript) and isinstance(it_.slice, ast.Slice) and it_.slice.lower is None and it_.slice.upper is None:
                        it_ = it_.value
                    else:
                        break
                r2.check(is_plain_iter(p, it_) and norm(it_).endswith(".hash_entries"), f, il.iter, f"the lookup does not look at every entry of the record (`{norm(il.iter)[:50]}`): an entry that is not in the visited part is never found, e.g. the `original` of a record whose first entry has another format", construct=f"{name}: entry loop iterable {norm(il.iter)[:40]}")
            # candidate-overwrite pattern inside the loop
            stores = [n for n in ast.walk(loops[0]) if isinstance(n, ast.Assign) and isinstance(n.value, ast.Name) and n.value.id in ("hash_entry",)]
            r2.check(not stores, f, stores[0] if stores else loops[0], "the lookup remembers a candidate and keeps scanning (a later generation can replace the first)", construct=f"{name}: candidate overwrite")
    f1 = p.funcs[f"{hist}.find_original_hash_entry_for_path"]
    tests = [n for n in walk_no_nested(f1.node) if isinstance(n, ast.Compare) and ".action" in norm(n)]
    r2.check(len(tests) == 1 and norm(tests[0]).replace('"', "'") == "hash_entry.action == 'original'", f1, tests[0] if tests else f1.node, "the reference lookup does not select the entry marked 'original'", construct="original selector")
    f2 = p.funcs[f"{hist}.find_first_hash_entry_for_path"]
    tests = [n for n in walk_no_nested(f2.node) if isinstance(n, ast.Compare) and "hash_entry.hash_format" in norm(n)]
    r2.check(len(tests) == 1 and isinstance(tests[0].ops[0], ast.Eq) and norm(tests[0].comparators[0]) == f2.params[2], f2, tests[0] if tests else f2.node, "the per-format lookup does not compare the entry's format with the requested format", construct="format selector")

    # ------------------------------------------------------------------ R4.3
    r3 = report.rule("R4.3", "generations stay ascending: the loader sorts by generation number (not reversed) before adding; new generations are numbered latest+1 and appended; nothing else mutates the list", 3)
    for fq, f in p.funcs.items():
        if f.module.name in unshipped:
            continue
        for n in walk_no_nested(f.node):
            if isinstance(n, ast.Call) and isinstance(n.func, ast.Attribute) and norm(n.func.value).endswith(".hash_lists"):
                r3.instance(f, n, norm(n)[:80])
                r3.check(n.func.attr in ("append", "__len__", "copy", "index"), f, n, f"the generation list is modified by .{n.func.attr}(): ascending order is not preserved")
            if isinstance(n, ast.Assign) and any(isinstance(t, ast.Attribute) and t.attr == "hash_lists" for t in n.targets):
                r3.instance(f, n, norm(n)[:80])
                r3.check(isinstance(n.value, ast.List) and not n.value.elts and f.name == "__init__", f, n, "the generation list is re-assigned")
    loader = p.funcs.get(f"{hist}.load_from_path")
    g = cfg_of(loader)
    sorts = [n for n in walk_no_nested(loader.node) if isinstance(n, ast.Call) and isinstance(n.func, ast.Attribute) and n.func.attr == "sort"]
    # sorts of other collections (e.g. the directory names of a walk, when the child discovery is inlined into the loader) are not the generation sort
    _apps_iters = {norm(parent(parent(c)).iter) for c, tg in p.calls[loader.qual] if any(t.endswith("append_hash_list") for t in tg) and isinstance(parent(parent(c)), ast.For)}
    sorts = [n for n in sorts if any(k.arg == "key" for k in n.keywords) or norm(n.func.value) in _apps_iters]
    apps = [c for c, tg in p.calls[loader.qual] if any(t.endswith("append_hash_list") for t in tg)]
    r3.instance(loader, sorts[0] if sorts else loader.node, "loader sort")
    sorts_all = sorts
    sorteds = [n for n in walk_no_nested(loader.node) if isinstance(n, ast.Call) and norm(n.func) == "sorted" and n.args]
    ok = len(sorts) + len(sorteds) == 1 and len(apps) >= 1
    if ok:
        s0 = (sorts + sorteds)[0]
        key = next((k.value for k in s0.keywords if k.arg == "key"), None)
        rev = next((k.value for k in s0.keywords if k.arg == "reverse"), None)
        def _by_generation(k):
            if isinstance(k, ast.Lambda):
                return norm(k.body).endswith(".generation_number") and len(k.args.args) == 1 and norm(k.body) == f"{k.args.args[0].arg}.generation_number"
            if isinstance(k, (ast.Name, ast.Attribute)):
                # a named key function: def f(x): return x.generation_number
                for q in p.resolve_name_targets(k, loader) if hasattr(p, "resolve_name_targets") else []:
                    pass
                nm = k.id if isinstance(k, ast.Name) else k.attr
                cands = [f2 for f2 in p.funcs.values() if f2.name == nm and f2.module is loader.module]
                if len(cands) == 1:
                    f2 = cands[0]
                    rets = [n for n in walk_no_nested(f2.node) if isinstance(n, ast.Return)]
                    ps = [x for x in f2.params if x not in ("self", "cls")]
                    return len(rets) == 1 and len(ps) == 1 and norm(rets[0].value) == f"{ps[0]}.generation_number"
                if norm(k) in ("operator.attrgetter('generation_number')", "attrgetter('generation_number')"):
                    return True
            if isinstance(k, ast.Call) and norm(k.func).endswith("attrgetter") and len(k.args) == 1 and isinstance(k.args[0], ast.Constant) and k.args[0].value == "generation_number":
                return True
            return False

        ok = _by_generation(key) and (rev is None or p.fold(rev, loader) is False)
        for a in apps:
            lp = parent(parent(a))
            if sorts:
                ok = ok and isinstance(lp, ast.For) and norm(lp.iter) == norm(s0.func.value) and g.dominates(g.node_for(s0), g.node_for(a))
            else:
                # for x in sorted(L, key=...):  or  L2 = sorted(L, key=...); for x in L2:
                it = lp.iter if isinstance(lp, ast.For) else None
                direct = it is s0
                via = isinstance(it, ast.Name) and isinstance(parent(s0), ast.Assign) and norm(parent(s0).targets[0]) == it.id and g.dominates(g.node_for(s0), g.node_for(a))
                ok = ok and (direct or via)
    r3.check(ok, loader, (sorts + sorteds)[0] if (sorts + sorteds) else loader.node, "the loader does not add the parsed generations in ascending generation-number order", construct="loader order")
    wng = p.funcs.get(f"{hist}.write_new_generation")
    gw = cfg_of(wng)
    app = [c for c, tg in p.calls[wng.qual] if any(t.endswith("append_hash_list") for t in tg)]
    num = [n for n in walk_no_nested(wng.node) if isinstance(n, ast.Assign) and any(isinstance(t, ast.Attribute) and t.attr == "generation_number" for t in n.targets)]
    r3.instance(wng, wng.node, "new generation numbering")
    okn = len(app) == 1 and len(num) == 1
    if okn:
        full = [pr.inline(o, depth=2) for o in pr.origins(num[0].value, wng)]
        okn = all(any(t[0] == "op" and t[1] == "Add" and any(is_const(x, 1) for x in t[2]) and any(is_call(s, "latest_generation_number") or (s[0] == "attr" and s[2] == "generation_number") for s in subterms(t)) for t in alts(x)) for x in full)
    r3.check(okn, wng, num[0] if num else wng.node, "the new generation is not numbered (latest generation number + 1) before it is appended", construct="generation_number = latest + 1")
    lgn = p.funcs.get(f"{hist}.latest_generation_number")
    rets = [n for n in walk_no_nested(lgn.node) if isinstance(n, ast.Return)]
    loops = [n for n in walk_no_nested(lgn.node) if isinstance(n, ast.For)]
    ok_scan = len(loops) == 1 and is_plain_iter(p, loops[0].iter) and norm(loops[0].iter).endswith("hash_lists")
    if not ok_scan and len(loops) == 1:
        # backward scan: the first generation from the end that carries a number is the last one from the front
        it = loops[0].iter
        rev = isinstance(it, ast.Call) and norm(it.func) == "reversed" and len(it.args) == 1 and norm(it.args[0]).endswith("hash_lists") and is_plain_iter(p, it.args[0])
        v = norm(loops[0].target)
        inner = [n for n in ast.walk(loops[0]) if isinstance(n, ast.Return)]
        guards_ok = all(norm(r.value) == f"{v}.generation_number" and [norm(t.ast) for t, l in cfg_of(lgn).control_deps(cfg_of(lgn).node_for(r), through_loops=False) if t.kind == "test" and l == "T"] == [f"{v}.generation_number"] for r in inner)
        no_exit = not [x for x in ast.walk(loops[0]) if isinstance(x, (ast.Break, ast.Continue))]
        ok_scan = rev and bool(inner) and guards_ok and no_exit
    if not ok_scan and not loops:
        # next((n for n in (h.generation_number for h in reversed(self.hash_lists)) if n), 0): the first number from the end
        def gen_chain(e, depth=0):
            """True if e enumerates h.generation_number for every h of reversed(self.hash_lists), filtered at most by truthiness of the number"""
            if depth > 4:
                return False
            if isinstance(e, ast.Name):
                b = [n.value for n in walk_no_nested(lgn.node) if isinstance(n, ast.Assign) and len(n.targets) == 1 and isinstance(n.targets[0], ast.Name) and n.targets[0].id == e.id]
                return len(b) == 1 and gen_chain(b[0], depth + 1)
            if isinstance(e, (ast.GeneratorExp, ast.ListComp)) and len(e.generators) == 1:
                gen = e.generators[0]
                tv = norm(gen.target)
                if not all(norm(i) in (tv, norm(e.elt)) for i in gen.ifs):
                    return False
                it = gen.iter
                base = isinstance(it, ast.Call) and norm(it.func) == "reversed" and len(it.args) == 1 and norm(it.args[0]).endswith("hash_lists") and is_plain_iter(p, it.args[0])
                if base:
                    return norm(e.elt) == f"{tv}.generation_number"
                return norm(e.elt) == tv and gen_chain(it, depth + 1)
            return False

        nx = [r.value for r in rets if isinstance(r.value, ast.Call) and norm(r.value.func) == "next" and len(r.value.args) == 2 and isinstance(r.value.args[1], ast.Constant) and r.value.args[1].value == 0]
        ok_scan = len(nx) == len(rets) == 1 and gen_chain(nx[0].args[0])
    if not ok_scan and not loops and len(rets) == 1:
        # numbers = [h.generation_number for h in self.hash_lists if h.generation_number]; return numbers[-1] if numbers else 0  - the last number in list order
        rv = rets[0].value
        if isinstance(rv, ast.IfExp) and isinstance(rv.test, ast.Name) and isinstance(rv.orelse, ast.Constant) and rv.orelse.value == 0 and norm(rv.body) == f"{rv.test.id}[-1]":
            b = [n.value for n in walk_no_nested(lgn.node) if isinstance(n, ast.Assign) and len(n.targets) == 1 and isinstance(n.targets[0], ast.Name) and n.targets[0].id == rv.test.id]
            if len(b) == 1 and isinstance(b[0], ast.ListComp) and len(b[0].generators) == 1:
                gen = b[0].generators[0]
                tv = norm(gen.target)
                ok_scan = norm(gen.iter).endswith("hash_lists") and is_plain_iter(p, gen.iter) and norm(b[0].elt) == f"{tv}.generation_number" and all(norm(i) == norm(b[0].elt) for i in gen.ifs)
    r3.check(ok_scan, lgn, lgn.node, "latest_generation_number does not scan all generations", construct="latest_generation_number")
    # every value it can return is a number read from a manifest that was actually loaded (or the constant start value):
    # the chain file lags behind the manifests after an interrupted run, a number taken from it can be one that is already used
    for rt in rets:
        if rt.value is None:
            continue
        for o in pr.origins(rt.value, lgn):
            for t in alts(o):
                while True:
                    if t[0] == "call" and t[1] in ("builtin:int", "builtin:max", "builtin:next") and len(t[2]) >= 1 and all(x[0] == "const" for x in t[2][1:]):
                        t = t[2][0]
                    elif t[0] == "op" and t[1] == "comp" and t[2] and t[2][-1][0] != "unknown":
                        t = t[2][-1]  # a generator expression stands for its element expression
                    elif t[0] == "elem" and t[1][0] == "op" and t[1][1] == "comp" and t[1][2] and t[1][2][-1][0] != "unknown":
                        t = t[1][2][-1]
                    else:
                        break
                if t[0] == "attr" and t[2] == "generation_number" and t[1][0] == "elem" and t[1][1][0] == "call" and t[1][1][1] == "builtin:reversed" and t[1][1][2]:
                    t = ("attr", ("elem", t[1][1][2][0], t[1][2]), t[2], t[3] if len(t) > 3 else None)
                if t[0] == "const" and isinstance(t[1], int):
                    continue
                if t[0] == "attr" and t[2] == "generation_number" and t[1][0] == "elem" and t[1][1][0] == "attr" and t[1][1][2] == "hash_lists" and t[1][1][1][0] == "self":
                    continue
                from_chain = any(s[0] == "attr" and s[2] in ("chain", "generations") for s in subterms(t))
                if from_chain:
                    r3.check(False, lgn, rt, f"latest_generation_number can return a number that does not come from the loaded manifests but from the chain file ({show(t)[:90]}): after an interrupted run the chain lacks the last manifest and the next generation re-uses its number", construct="latest number source: chain")
                else:
                    raise AnalysisError(f"{lgn.loc(rt)}: latest_generation_number returns a value whose source this checker does not model: {show(t)[:120]}")

    # ------------------------------------------------------------------ R4.4
    r4 = report.rule("R4.4", "gating: a digest in a format that is new for the file is appended only under a flag that is cleared whenever an already recorded format failed to verify; recorded formats are appended first", 2)
    seal = p.funcs.get("ascmhl.commands.seal_file_path")
    if seal is None:
        raise AnalysisError("seal_file_path not found")
    g = cfg_of(seal)
    sites = [c for c, tg in p.calls[seal.qual] if any(t.endswith("MHLGenerationCreationSession.append_file_hash") for t in tg)]
    existing_sites, new_sites = [], []
    for c in sites:
        lp = next((a for a in _ancestors(c) if isinstance(a, ast.For)), None)
        if lp is None:
            raise AnalysisError(f"{seal.loc(c)}: session append outside a per-format loop")
        it_o = pr.origins(lp.iter, seal)
        if any(is_call(o, "find_existing_hash_formats_for_path") for o in it_o):
            existing_sites.append((c, lp))
        else:
            new_sites.append((c, lp))
    if not existing_sites or not new_sites:
        raise AnalysisError("sealer: could not tell the existing-format append from the new-format append")
    for c, lp in existing_sites:
        r4.instance(seal, c, "existing-format append")
    flags = set()
    for c, lp in new_sites:
        r4.instance(seal, c, "new-format append")
        cn = g.node_for(c)
        deps = [(t, l) for t, l in g.control_deps(cn, transitive=False) if t.kind == "test"]
        gate = None
        for t, l in deps:
            for o in pr.origins(t.ast, seal):
                for s in subterms(o):
                    pass
            names = [x.id for x in ast.walk(t.ast) if isinstance(x, ast.Name)]
            for nm in names:
                for o in pr.origins(ast.Name(id=nm, ctx=ast.Load()), seal) if False else []:
                    pass
            gate = (t, l)
        # gate variable: follow `success = flag` one hop
        ok = False
        if gate and gate[1] == "T" and isinstance(gate[0].ast, ast.Name):
            v = gate[0].ast.id
            defs = [n for n in ast.walk(lp) if isinstance(n, ast.Assign) and any(isinstance(t, ast.Name) and t.id == v for t in n.targets)]
            srcs = {norm(d.value) for d in defs if not isinstance(d.value, ast.Call)}
            flags |= {s for s in srcs if s.isidentifier()}
            ok = len(srcs) == 1 and next(iter(srcs)).isidentifier()
        r4.check(ok, seal, c, "a digest in a new format is appended without being gated on the verification of the recorded formats")
        # formats already recorded are skipped in this loop
        skip = [n for n in ast.walk(lp) if isinstance(n, ast.Continue)]
        r4.check(bool(skip), seal, lp, "the new-format loop does not skip formats that are already recorded")
    for fl in flags:
        # cleared on every path where an existing append returned falsy
        clears = [n for n in g.nodes if n.kind == "stmt" and isinstance(n.ast, ast.Assign) and any(isinstance(t, ast.Name) and t.id == fl for t in n.ast.targets) and p.fold(n.ast.value, seal) is False]
        inits = [n for n in g.nodes if n.kind == "stmt" and isinstance(n.ast, ast.Assign) and any(isinstance(t, ast.Name) and t.id == fl for t in n.ast.targets) and p.fold(n.ast.value, seal) is True]
        # the accumulating spelling of the same clearing: `flag = flag and result` / `flag &= result` (false from the first failure on)
        def _accumulates(n, resvar):
            if n.kind != "stmt" or resvar is None:
                return False
            a = n.ast
            if isinstance(a, ast.AugAssign) and isinstance(a.target, ast.Name) and a.target.id == fl and isinstance(a.op, ast.BitAnd):
                return norm(a.value) == resvar
            if isinstance(a, ast.Assign) and len(a.targets) == 1 and isinstance(a.targets[0], ast.Name) and a.targets[0].id == fl:
                v = a.value
                if isinstance(v, ast.BoolOp) and isinstance(v.op, ast.And) and len(v.values) == 2:
                    return sorted(norm(x) for x in v.values) == sorted([fl, resvar])
                if isinstance(v, ast.BinOp) and isinstance(v.op, ast.BitAnd):
                    return sorted([norm(v.left), norm(v.right)]) == sorted([fl, resvar])
            return False

        okc = len(inits) == 1
        any_clear = bool(clears)
        for c, lp in existing_sites:
            cn = g.node_for(c)
            st = _stmt(c)
            resvar = st.targets[0].id if isinstance(st, (ast.Assign,)) and isinstance(st.targets[0], ast.Name) else (st.target.id if isinstance(st, ast.AugAssign) and isinstance(st.target, ast.Name) else None)
            good = False
            for cl in clears:
                deps = [(t, l) for t, l in g.control_deps(cl, transitive=False) if t.kind == "test"]
                if len(deps) == 1 and norm(deps[0][0].ast) == resvar and deps[0][1] == "F" and _inside(cl.ast, lp):
                    good = True
            accs = [n for n in g.nodes if _accumulates(n, resvar) and _inside(n.ast, lp)]
            if not good and accs:
                # every way from the append to the next iteration (or out of the loop) passes the accumulation, and the result is not rebound in between
                stops = {h.id for h in g.nodes if h.kind == "loop"} | {g.exit.id}
                rebinds = {n.id for n in g.nodes if n.kind == "stmt" and n is not g.node_for(_stmt(c)) and isinstance(n.ast, (ast.Assign, ast.AugAssign)) and any(isinstance(x, ast.Name) and x.id == resvar and isinstance(x.ctx, ast.Store) for x in ast.walk(n.ast)) and _inside(n.ast, lp)}
                if not rebinds and g.find_path(cn, stops, avoid={n.id for n in accs}) is None:
                    good = True
                    any_clear = True
            okc = okc and good and resvar is not None
        okc = okc and any_clear
            # the result variable is fresh per iteration (success = True; success &= call)
        r4.check(okc, seal, clears[0].ast if clears else seal.node, f"the gate `{fl}` is not cleared on every failed verification of a recorded format", construct=f"gate {fl} cleared on failure")
    for (cx, lx) in existing_sites:
        for (cnw, ln) in new_sites:
            r4.check(g.node_for(cx).id not in g.reachable_from([g.node_for(cnw)]) and g.node_for(cnw).id in g.reachable_from([g.node_for(cx)]), seal, ln, "recorded formats are not verified before new formats are added", construct="existing before new")

    # ------------------------------------------------------------------ R4.5
    r5 = report.rule("R4.5", "promotion or abort before write: 'new' becomes 'verified' only when the entry of the reference format exists in the same record and is 'verified'; every other path raises; validation dominates the writer", 1)
    val = p.funcs.get(f"{hist}._validate_new_hash_list")
    if val is None:
        cands = [f for f in p.funcs.values() if f.cls == hist and any(isinstance(n, ast.Compare) and "'new'" in norm(n) for n in walk_no_nested(f.node))]
        if len(cands) != 1:
            raise AnalysisError("validator of new hash lists not found")
        val = cands[0]
    gv = cfg_of(val)
    r5.instance(val, val.node, "validator")
    promos = [n for n in gv.nodes if n.kind == "stmt" and isinstance(n.ast, ast.Assign) and any(isinstance(t, ast.Attribute) and t.attr == "action" for t in n.ast.targets)]
    okp = len(promos) == 1 and p.fold(promos[0].ast.value, val) == "verified"
    if okp:
        from .common import branch_where, canon_dep

        deps = {canon_dep(t.ast, l) for t, l in gv.control_deps(promos[0]) if t.kind == "test"}
        need_deps = {("hash_entry.action == 'new'", "T"), ("required_hash_entry is None", "F"), ("required_hash_entry.action == 'verified'", "T")}
        okp = need_deps <= deps and len(deps) == 3
        r5.check(okp, val, promos[0].ast, f"'new' is promoted to 'verified' under {sorted(deps)}; required: the entry of the reference format exists and is verified", construct=f"promotion under {sorted(deps)}")
    else:
        r5.check(False, val, val.node, "the validator does not promote 'new' to 'verified' at exactly one place", construct="promotion site")
    for t in gv.nodes:
        if t.kind == "test" and "'new'" in norm(t.ast).replace('"', "'"):
            fix = {n.id for n in promos}
            loops = {n.id for n in gv.nodes if n.kind == "loop"} | {gv.exit.id}
            from .common import branch_where

            newl = branch_where(t.ast, True)  # the branch on which `.action == 'new'` holds
            path = gv.find_path(t, loops, avoid=fix, first_edges=[(m, l) for m, l in t.succ if l == newl])
            r5.check(path is None, val, t.ast, "an entry marked 'new' can leave the validator unpromoted without an abort", witness=gv.fmt_path(path) if path else None)
    # the required entry is looked up in the same record by the format of the file's original entry
    req = [n for n in walk_no_nested(val.node) if isinstance(n, ast.Assign) and isinstance(n.value, ast.Call) and isinstance(n.value.func, ast.Attribute) and n.value.func.attr == "find_hash_entry_for_format"]
    okr = len(req) == 1
    if okr:
        ao = pr.origins(req[0].value.args[0], val)
        okr = all(o[0] == "attr" and o[2] == "hash_format" and is_call(o[1], "find_original_hash_entry_for_path") for o in ao)
    r5.check(okr, val, req[0] if req else val.node, "the validator does not demand the format of the file's 'original' entry", construct="required format selector")
    wr = [c for c, tg in p.calls[f"{hist}.write_new_generation"] if any(t.endswith("write_hash_list") for t in tg)]
    vc = [c for c, tg in p.calls[f"{hist}.write_new_generation"] if val.qual in tg]
    if not vc and val.qual == f"{hist}.write_new_generation":
        raise AnalysisError("the validation of new hash lists sits in write_new_generation itself (helper inlined): its position before the writer is not judged on this shape")
    r5.check(bool(wr) and bool(vc) and all(gw.dominates(gw.node_for(vc[0]), gw.node_for(w)) for w in wr), wng, wr[0] if wr else wng.node, "the manifest writer is not dominated by the validator", construct="validate before write")

    # ------------------------------------------------------------------ R4.6
    r6 = report.rule("R4.6", "a failed check is recorded and committed: the session reaches the entry append on every path (only an already present format is skipped); in both create commands the commit precedes the failure exit", 3)
    sess = p.funcs.get("ascmhl.generator.MHLGenerationCreationSession.append_file_hash")
    gs = cfg_of(sess)
    apps = [c for c, tg in p.calls[sess.qual] if any(t.endswith("MHLMediaHash.append_hash_entry") for t in tg)]
    r6.instance(sess, apps[0] if apps else sess.node, "entry append")
    ok6 = len(apps) == 1
    if ok6:
        an = gs.node_for(apps[0])
        deps = [(norm(t.ast), l) for t, l in gs.control_deps(an) if t.kind == "test"]
        ok6 = all("find_hash_entry_for_format" in d and l == "T" for d, l in deps) and len(deps) <= 1
        rets = [n for n in gs.nodes if n.kind == "stmt" and isinstance(n.ast, (ast.Return, ast.Raise))]
        ok6 = ok6 and len(rets) == 1 and an.id in {x for x in gs.reachable_from([gs.entry])}
        r6.check(ok6, sess, apps[0], f"the entry (also a failed one) is not appended on every path: append is conditional on {deps}", construct=f"append under {deps}")
    for fname in ("create_for_folder_subcommand", "create_for_single_files_subcommand"):
        f = p.funcs.get("ascmhl.commands." + fname)
        if f is None:
            raise AnalysisError(fname + " not found")
        gf = cfg_of(f)
        commits = [gf.node_for(c) for c, tg in p.calls[f.qual] if any(t.endswith("commit_session") for t in tg)]
        r6.instance(f, f.node, f"{fname}: commit before failure exit")
        c10, c11 = class_with_code(p, 10), class_with_code(p, 11)
        for n in gf.nodes:
            if n.kind == "stmt" and isinstance(n.ast, ast.Raise):
                r6.check(any(gf.dominates(cm, n) for cm in commits), f, n.ast, "the command can exit with a failure before the new generation (with the failed entries) is committed")

    # ------------------------------------------------------------------ R4.7
    r7 = report.rule(
        "R4.7",
        "one selector for the reference format: the format the validator demands (format of the file's first 'original' entry) is put on the sealer's generate list "
        "whenever the run adds a format that is new for the file, so that every sequence of format choices on an unaltered tree passes validation",
        1,
    )
    gen_appends = []
    genlist = None
    for c, tg in p.calls[seal.qual]:
        if any(t.endswith("multiple_format_hash_file") for t in tg) and len(c.args) >= 2 and isinstance(c.args[1], ast.Name):
            genlist = c.args[1].id
    if genlist is None:
        raise AnalysisError("sealer: list of formats to generate not found")
    found = False
    for n in walk_no_nested(seal.node):
        if isinstance(n, ast.Call) and isinstance(n.func, ast.Attribute) and n.func.attr == "append" and norm(n.func.value) == genlist and n.args:
            # the value may come out of a helper that decides by itself when there is NO reference format to add (returns None on some paths): those
            # conditions gate the append just like the ones written here - they are visible where the helper's body stands in its place
            for o_raw in pr.origins(n.args[0], seal):
                if o_raw[0] == "call" and o_raw[1] in p.funcs and p.funcs[o_raw[1]].name not in ("find_original_hash_entry_for_path",):
                    hf_ = p.funcs[o_raw[1]]
                    rets_ = [x for x in walk_no_nested(hf_.node) if isinstance(x, ast.Return)]
                    if len(rets_) > 1 and any(x.value is None or (isinstance(x.value, ast.Constant) and x.value.value is None) for x in rets_):
                        raise AnalysisError(f"{seal.loc(n)}: the reference format comes out of {hf_.name}(), which returns None on some of its paths: the conditions of the gating sit inside that helper (judged on the helper-inlined view)")
            for o in pr.origins(n.args[0], seal):
                if o[0] == "attr" and o[2] == "hash_format" and is_call(o[1], "find_original_hash_entry_for_path"):
                    found = True
                    r7.instance(seal, n, norm(n))
                    nn = g.node_for(n)
                    deps = [(norm(t.ast), l) for t, l in g.control_deps(nn) if t.kind == "test"]
                    bad = []
                    for d, l in deps:
                        d2 = d.replace(" ", "")
                        accepted = (
                            (("isnotNone" in d2 or "!=None" in d2) and l == "T")
                            or ("notin" + genlist in d2 and l == "T")
                            or (d2 in ("existing_hash_formats", "existing_hash_formatsandlen(existing_hash_formats)>0", "len(existing_hash_formats)>0") and l == "T")
                            or _adds_new_format_guard(seal, d, l)
                        )
                        if not accepted:
                            bad.append((d, l))
                    r7.check(not bad, seal, n, f"the validator's reference format is generated only under {bad}: format sequences outside that guard abort with an AssertionError on an unaltered file", construct=f"reference format generated under {bad}")
                    # same path as the validator: lookup on the routed child history with the routed path
                    lk = o[1]
                    r7.check(len(lk[2]) == 1, seal, n, "reference lookup arguments", construct="reference lookup")
    # where the reference format is carried in a variable that is set to None on some paths (a helper's `return None`, expanded in place), every such path is
    # one of the cases in which no reference is needed: nothing new is added / the file has no original entry / the original format is generated anyway
    for n in walk_no_nested(seal.node):
        if isinstance(n, ast.Call) and isinstance(n.func, ast.Attribute) and n.func.attr == "append" and norm(n.func.value) == genlist and n.args and isinstance(n.args[0], ast.Name):
            vn = n.args[0].id
            if not any(o[0] == "attr" and o[2] == "hash_format" and is_call(o[1], "find_original_hash_entry_for_path") for o in pr.origins(n.args[0], seal)):
                continue
            for a in [x for x in walk_no_nested(seal.node) if isinstance(x, ast.Assign) and len(x.targets) == 1 and isinstance(x.targets[0], ast.Name) and x.targets[0].id == vn and isinstance(x.value, ast.Constant) and x.value.value is None]:
                from .common import atomic_deps as _ad4

                atoms = [(a_, l_) for t_, l_ in g.necessary_branches(g.node_for(a)) for a_, l_ in _ad4(t_.ast, l_)]
                inner = [(a_, l_) for a_, l_ in atoms if not a_.startswith("__done") and a_ not in ("existing_hash_formats", "len(existing_hash_formats) > 0", "existing_hash_formats and len(existing_hash_formats) > 0")]
                if not inner:
                    continue  # the initialisation
                def _accepted(txt, lab):
                    parts = [x.strip() for x in txt.split(" or ")] if lab == "T" else [txt]
                    ok_all = True
                    for part in parts:
                        okp = (part.endswith(" is None") and lab == "T") or ((".hash_format in " in part) and lab == "T") or (part.startswith("all(") and " in existing" in part and lab == "T") or (part.startswith("any(") and " not in existing" in part and lab == "F")
                        ok_all = ok_all and okp
                    return ok_all
                bad_ = [(a_, l_) for a_, l_ in inner if not _accepted(a_, l_)]
                r7.instance(seal, a, f"{vn} = None under {[x[0][:40] for x in inner][:3]}")
                r7.check(not bad_, seal, a, f"the validator's reference format is withheld (`{vn} = None`) when {'; '.join('`' + a_[:70] + '` is ' + ('true' if l_ == 'T' else 'false') for a_, l_ in bad_[:3])}: the validator still demands the format of the first original entry, so a run that adds a new format in that situation aborts with AssertionError on an unaltered file (e.g. -h xxh64, then -h md5, then -h md5 -h sha1)", construct=f"reference format withheld under {[x[0][:50] for x in bad_][:2]}")
    if not found:
        r7.instance(seal, seal.node, "sealer generate list")
        r7.check(False, seal, seal.node, "the sealer chooses the formats to generate from 'requested ∩ recorded, else the first recorded format', the validator demands the format of the first 'original' entry: "
                 "e.g. `-h md5 -h xxh64` then `-h xxh64 -h sha1` on an untouched file aborts with AssertionError('no hash entry found for new hash')", construct="sealer never generates the validator's reference format")

    # ---- rules shared with other properties (same mechanism, same rule, reported under every property it can break)
    # ------------------------------------------------------------------ R4.8
    r8 = report.rule(
        "R4.8",
        "tables keyed by hash format are total: a dictionary of the package whose keys are hash format names (cost / priority / label tables) has an entry for every format the "
        "command line accepts (`ascmhl_supported_hashformats`) - a lookup for a missing one yields None or KeyError in the middle of a run, and `every sequence of format choices "
        "succeeds` no longer holds for sequences containing that format",
        1,
    )
    dom = p.module_const(p.modules["ascmhl.__version__"], "ascmhl_supported_hashformats")
    if not isinstance(dom, list) or not dom:
        raise AnalysisError("ascmhl_supported_hashformats not found")
    r8.instance(None, None, f"format domain {dom}")
    for m in p.modules.values():
        if m.name in unshipped:
            continue
        for n in ast.walk(m.tree):
            if isinstance(n, ast.Dict) and len(n.keys) >= 3 and all(isinstance(k, ast.Constant) and isinstance(k.value, str) for k in n.keys):
                keys = [k.value for k in n.keys]
                if sum(1 for k in keys if k in dom) >= 3 and all(k in dom or k in ("xxh32",) for k in keys):
                    r8.instance(None, n, f"{m.name}: table over {keys}")
                    missing = [d for d in dom if d not in keys]
                    r8.check(not missing, None, n, f"the format table {{{', '.join(keys)}}} in {m.name} has no entry for {missing}: a run in which such a format is looked up fails with None / KeyError although the format is accepted by -h", construct=f"{m.name}: format table without {missing}")
    r8.check(True, None, None, "")

    # ------------------------------------------------------------------ R4.9
    r9 = report.rule(
        "R4.9",
        "who may decide an action: the `action` of a hash entry is assigned only by the entry's constructor, by the session's append methods (the decision table of R4.1), by the "
        "validator that promotes `new` to `verified` before the write, and by the manifest reader - never by a command after the session has decided (an `original` relabelled "
        "`verified` leaves the file without any original entry: verify / diff then call it a new file)",
        4,
    )
    allowed_mods = (".generator", ".hashlist", ".hashlist_xml_parser")
    for fq, f in sorted(p.funcs.items()):
        if not f.module.name.startswith("ascmhl") or f.module.name in unshipped:
            continue
        for n in walk_no_nested(f.node):
            if isinstance(n, (ast.Assign, ast.AugAssign)):
                tgs = n.targets if isinstance(n, ast.Assign) else [n.target]
                for t in tgs:
                    for x in ([t] if not isinstance(t, ast.Tuple) else t.elts):
                        if isinstance(x, ast.Attribute) and x.attr == "action" and not (isinstance(x.value, ast.Name) and x.value.id == "self" and not f.cls):
                            r9.instance(f, n, f"{f.qual.split('.')[-1]}: {norm(n)[:50]}")
                            is_validator = f.module.name.endswith(".history") and any(isinstance(c, ast.Compare) and "'new'" in norm(c).replace('"', "'") and ".action" in norm(c) for c in walk_no_nested(f.node))
                            ok9 = f.module.name.endswith(allowed_mods) or is_validator
                            r9.check(ok9, f, n, f"`{norm(n)[:60]}` in {f.qual.split('.')[-1]} overrides the action the session decided: an entry that the decision table made `original` (no earlier record under this path) and that is relabelled afterwards leaves the path without an original entry - the next verify / diff find no reference digest and report the file as new (exit 21), and a changed content is no longer reported as failed", construct=f"{f.name}: action assigned outside the session")
            elif isinstance(n, ast.Call) and isinstance(n.func, ast.Name) and n.func.id == "setattr" and len(n.args) >= 2 and isinstance(n.args[1], ast.Constant) and n.args[1].value == "action":
                r9.instance(f, n, norm(n)[:50])
                r9.check(f.module.name.endswith(allowed_mods), f, n, f"`{norm(n)[:60]}` sets an entry's action outside the session", construct=f"{f.name}: action assigned outside the session")

    include_rules(report, p, 'c08', ['R8.8'], 'whether a digest is original / verified / failed / new is decided against the entries of the history that holds the file: lookups are made on the routed history with the routed path')
    include_rules(report, p, 'c03', ['R3.11'], 'a failed check is only recorded if reporting it cannot raise: the mismatch is logged before the generation is written')
    include_rules(report, p, 'c08', ['R8.1'], 'the first recorded value is looked up in the history that owns the path')
    include_rules(report, p, 'c08', ['R8.2'], 'the first recorded value lives in the deepest history: the mapping of nested histories must be transitive, or a deeper file gets a second original in an ancestor')
    include_rules(report, p, 'c13', ['R13.3'], 'the first recorded value is found only if the lookup key is the normalised history-relative path (relpath), however the path was spelled on the command line')
    include_rules(report, p, 'c01', ['R1.1'], 'the compared digest must cover the whole file')
    report.not_decided += ["behaviour over concrete generation sequences", "that the reference format's digest is recomputed correctly (C01)"]


def _adds_new_format_guard(seal, d, l):
    """`adds_new_format` = any(f not in existing for f in requested)  (or a flag set while collecting new formats)"""
    if l != "T":
        return False
    name = d.strip()
    if not name.isidentifier():
        return "notin" in d.replace(" ", "") and "any(" in d
    for n in walk_no_nested(seal.node):
        if isinstance(n, ast.Assign) and any(isinstance(t, ast.Name) and t.id == name for t in n.targets):
            v = norm(n.value).replace(" ", "")
            if v.startswith("any(") and "notin" in v:
                return True
    return False


def _ancestors(n):
    x = parent(n)
    while x is not None:
        yield x
        x = parent(x)


def _stmt(n):
    x = n
    while x is not None and not isinstance(x, ast.stmt):
        x = parent(x)
    return x


def _inside(n, container):
    x = n
    while x is not None:
        if x is container:
            return True
        x = parent(x)
    return False


def finish(report):
    return report.finish(
        level="other",
        explanation="decision-table extraction by control dependence with atoms normalised through provenance, shape of the first-generation-wins lookups, who-may-mutate the generation list, "
        "gating of new formats by control dependence, promotion-or-abort path rule, cross-site agreement between validator and sealer on the reference format.",
    )
