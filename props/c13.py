"""C13 - results do not depend on where the tree is mounted or how the OS lists it."""
from __future__ import annotations

import ast

from sa.cfg import cfg_of
from sa.flow import show, subterms
from sa.model import AnalysisError, norm, parent, walk_no_nested
from sa.rules import construct_text

from .common import commands, need, include_rules, alts, is_call, is_const, prov, unshipped_modules

ENUM = ("os.listdir", "os.scandir", "os.walk", "os.fwalk", "glob.glob", "glob.iglob")
ENUM_M = ("iterdir", "glob", "rglob")

ABS_SOURCES = ("os.getcwd", "os.path.abspath", "os.path.realpath", "os.path.expanduser")
SANITISERS = ("os.path.relpath", "os.path.basename", "MHLHistory.get_relative_file_path")


def is_enum_target(t):
    return (t.startswith("ext:") and t[4:] in ENUM) or (t.startswith("extm:pathlib.Path") and t.split(".")[-1] in ENUM_M)


def _sort_ok(call: ast.Call):
    """a total, listing-independent order on names: sort()/sorted() without key (reverse allowed)"""
    for k in call.keywords:
        if k.arg == "key" and not (isinstance(k.value, ast.Constant) and k.value.value is None) and norm(k.value) != "str":
            return False
    return True


def _mutates_receiver(p, fq, seen=None, depth=0):
    """does package method fq (transitively) store into / append to attributes of its own receiver?"""
    seen = seen or set()
    if fq in seen or depth > 4:
        return False
    seen.add(fq)
    f = p.funcs[fq]
    selfname = f.params[0] if f.cls and f.params and not f.is_static else None
    for n in walk_no_nested(f.node):
        if isinstance(n, (ast.Assign, ast.AugAssign)):
            tgts = n.targets if isinstance(n, ast.Assign) else [n.target]
            for t in tgts:
                b = t
                while isinstance(b, (ast.Attribute, ast.Subscript)):
                    b = b.value
                if isinstance(t, (ast.Attribute, ast.Subscript)) and isinstance(b, ast.Name) and b.id == selfname:
                    return True
        if isinstance(n, ast.Call) and isinstance(n.func, ast.Attribute) and n.func.attr in ("append", "extend", "add", "update", "insert", "setdefault"):
            b = n.func.value
            while isinstance(b, (ast.Attribute, ast.Subscript)):
                b = b.value
            if isinstance(n.func.value, (ast.Attribute, ast.Subscript)) and isinstance(b, ast.Name) and b.id == selfname:
                return True
    for call, tg in p.calls[fq]:
        if isinstance(call.func, ast.Attribute) and isinstance(call.func.value, ast.Name) and call.func.value.id == selfname:
            for t in tg:
                if t in p.funcs and _mutates_receiver(p, t, seen, depth + 1):
                    return True
    return False


def order_sensitive_effects(p, f, body_stmts, loop_locals):
    """calls/yields inside `body_stmts` whose effect depends on iteration order:
    yields; appends to containers that outlive the iteration; package method calls on receivers that outlive the
    iteration and mutate them. returns list of (node, kind, container_name_or_None)"""
    out = []
    for s in body_stmts:
        for n in ast.walk(s):
            if isinstance(n, (ast.Yield, ast.YieldFrom)):
                out.append((n, "yield", None))
            elif isinstance(n, ast.Call) and isinstance(n.func, ast.Attribute):
                recv = n.func.value
                base = recv
                while isinstance(base, (ast.Attribute, ast.Subscript)):
                    base = base.value
                bname = base.id if isinstance(base, ast.Name) else None
                if n.func.attr in ("append", "extend", "insert"):
                    if bname is not None and bname in loop_locals and isinstance(recv, ast.Name):
                        continue  # container created inside this iteration
                    out.append((n, "append", norm(recv)))
                else:
                    tg = [t for c, ts in p.calls[f.qual] if c is n for t in ts]
                    for t in tg:
                        if t in p.funcs and p.funcs[t].cls and bname is not None and bname not in loop_locals and _mutates_receiver(p, t):
                            out.append((n, "mutating call " + t.split(".")[-1], None))
                            break
    return out


def names_bound_in(stmts):
    out = set()
    for s in stmts:
        for n in ast.walk(s):
            if isinstance(n, ast.Name) and isinstance(n.ctx, ast.Store):
                out.add(n.id)
    return out


def uses_of(f, name, exclude=()):
    return [n for n in walk_no_nested(f.node) if isinstance(n, ast.Name) and n.id == name and isinstance(n.ctx, ast.Load) and n not in exclude]


def consumer_sorted(p, f, g, container, after_node):
    """every use of local list `container` that can follow `after_node`... is dominated by container.sort(...) / or is the sort itself"""
    sorts = []
    for n in walk_no_nested(f.node):
        if isinstance(n, ast.Call) and isinstance(n.func, ast.Attribute) and n.func.attr == "sort" and norm(n.func.value) == container:
            sorts.append(n)
    sort_nodes = [g.node_for(s) for s in sorts]
    n_sorted_uses = 0
    for u in uses_of(f, container):
        pu = parent(u)
        if isinstance(pu, ast.Attribute) and pu.attr in ("append", "sort", "extend"):
            continue
        if isinstance(pu, ast.Call) and norm(pu.func) == "sorted" and pu.args and pu.args[0] is u:
            n_sorted_uses += 1
            continue  # consumed through sorted(container, ...)
        if isinstance(pu, ast.Call) and norm(pu.func) in ("len", "set", "frozenset", "bool"):
            continue
        if not sort_nodes:
            return False, f"use `{norm(enclosing(u))[:60]}` of {container} without a sort"
        un = g.node_for(u)
        if not any(g.dominates(sn, un) for sn in sort_nodes):
            return False, f"use `{norm(enclosing(u))[:60]}` not dominated by {container}.sort()"
    if not sort_nodes and n_sorted_uses == 0:
        return False, "no sort of " + container
    return True, ""


def enclosing(n):
    x = n
    while x is not None and not isinstance(x, ast.stmt):
        x = parent(x)
    return x if x is not None else n


def tainted_leaves(p, t, root_params, under_sanitiser=False):
    """absolute-path sources in a term that are not under a sanitiser. returns list of descriptions"""
    out = []
    if not isinstance(t, tuple):
        return out
    k = t[0]
    if k == "call":
        nm = t[1]
        if any(nm.endswith(s) for s in SANITISERS):
            return out
        if nm.endswith("find_history_for_path"):
            return out  # returns (history, history-relative path); checked by C08 R8.1
        if any(nm.endswith(s) for s in ABS_SOURCES):
            out.append(nm.split(":")[-1] + "()")
        if nm.endswith("post_order_lexicographic"):
            out.append("traversal folder path (absolute)")
            return out
        if nm.endswith(("get_root_path",)):
            out.append("history root path (absolute)")
            return out
        for a in t[2]:
            out += tainted_leaves(p, a, root_params)
        for a in t[3].values():
            out += tainted_leaves(p, a, root_params)
        if t[5] is not None and not nm.startswith(("ext:", "builtin:")):
            pass
        return out
    if k == "param":
        if (t[1], t[2]) in root_params:
            out.append(f"command path argument {t[2]}")
        return out
    if k == "attr":
        if t[2] in ("asc_mhl_path", "file_path"):
            out.append(f"absolute field .{t[2]}")
            return out
        return tainted_leaves(p, t[1], root_params)
    if k == "elem":
        return tainted_leaves(p, t[1], root_params)
    if k in ("op",):
        if t[1] == "comp" and t[2] and t[2][-1][0] != "unknown":
            # a comprehension holds the values of its element expression (last operand), not its sources
            return tainted_leaves(p, t[2][-1], root_params)
        for a in t[2]:
            out += tainted_leaves(p, a, root_params)
        return out
    if k == "alt":
        for a in t[1]:
            out += tainted_leaves(p, a, root_params)
        return out
    return out


def root_params(p):
    """(function, parameter) pairs that carry user-supplied path arguments of shipped commands"""
    out = set()
    for name, c in p.shipped_commands().items():
        for pn, o in p.click_options(c).items():
            decl = norm(o["node"])
            if "click.Path" in decl:
                out.add((c.qual, pn))
    return out


def run(report, p):
    pr = prov(p)
    unshipped = unshipped_modules(p)
    report.assume("pairwise distinct file contents where rename detection assigns previous paths (C17's own premise)")

    # ------------------------------------------------------------------ R13.1
    r1 = report.rule(
        "R13.1",
        "every directory enumeration (os.listdir / os.scandir / os.walk / glob / Path.iterdir) is put into a total, listing-independent order "
        "(sort()/sorted() without key) before its order can reach an order-sensitive effect (yield, append to a longer-lived list, mutating method), "
        "or every such consumer list is sorted before use; os.walk descent order is fixed by sorting dirnames in place on every iteration",
        3,
    )
    for fq, f in p.funcs.items():
        if f.module.name in unshipped:
            continue
        g = cfg_of(f)
        for call, tg in p.calls[fq]:
            if not any(is_enum_target(t) for t in tg):
                continue
            kind = [t for t in tg if is_enum_target(t)][0].split(".")[-1]
            r1.instance(f, call, f"{kind}: {norm(call)[:80]}")
            par = parent(call)
            # sorted(os.listdir(x)) directly
            if isinstance(par, ast.Call) and norm(par.func) == "sorted" and par.args and par.args[0] is call:
                r1.check(_sort_ok(par), f, par, "enumeration sorted with a key: ties keep the OS listing order")
                continue
            if kind in ("walk", "fwalk"):
                _check_walk(p, r1, f, g, call)
                continue
            # name = os.listdir(...)
            st = enclosing(call)
            if isinstance(st, ast.Assign) and len(st.targets) == 1 and isinstance(st.targets[0], ast.Name) and st.value is call:
                var = st.targets[0].id
                sorts = [n for n in walk_no_nested(f.node) if isinstance(n, ast.Call) and isinstance(n.func, ast.Attribute) and n.func.attr == "sort" and norm(n.func.value) == var]
                sort_nodes = [g.node_for(s) for s in sorts if _sort_ok(s)]
                bad_key = [s for s in sorts if not _sort_ok(s)]
                for s in bad_key:
                    r1.check(False, f, s, "enumeration sorted with a key: ties keep the OS listing order")
                ok = True
                for u in uses_of(f, var):
                    pu = parent(u)
                    if isinstance(pu, ast.Attribute) and pu.attr == "sort":
                        continue
                    if isinstance(pu, ast.Call) and norm(pu.func) == "sorted" and _sort_ok(pu):
                        continue
                    if isinstance(pu, ast.Call) and norm(pu.func) in ("len", "set", "frozenset"):
                        continue
                    if isinstance(pu, ast.Compare):
                        continue  # membership / comparison does not depend on order
                    un = g.node_for(u)
                    if not any(g.dominates(sn, un) and sn is not un for sn in sort_nodes):
                        ok = False
                        r1.check(False, f, enclosing(u), f"`{var}` (result of {kind}) is used in OS listing order: no sort precedes this use", construct=f"unsorted use of {kind} result: {construct_text(enclosing(u))[:80]}")
                if ok:
                    r1.check(True, f, call, "")
            elif isinstance(par, ast.comprehension) and par.iter is call and _order_insensitive_consumer(par):
                r1.check(True, f, call, "")
            elif isinstance(par, (ast.For, ast.comprehension)) and par.iter is call:
                body = par.body if isinstance(par, ast.For) else []
                eff = order_sensitive_effects(p, f, body, names_bound_in(body)) if body else [(par, "comprehension", None)]
                r1.check(not eff, f, par.iter, f"iteration directly over {kind} in OS listing order with order-sensitive effect ({eff[0][1] if eff else ''})")
            else:
                r1.check(False, f, call, f"result of {kind} flows into `{norm(par)[:60]}` without a recognised sort", construct=f"unrecognised use of {kind}: {norm(par)[:80]}")

    # ------------------------------------------------------------------ R13.2
    r2 = report.rule(
        "R13.2",
        "every path handed to an ignore-pattern match (PathSpec.match_file) is relative to the tree root: it is relpath(<path>, <root>) or built from listed names only, "
        "never a path that contains the absolute location of the root",
        2,
    )
    rps = root_params(p)
    for fq, f in p.funcs.items():
        if f.module.name in unshipped:
            continue
        for call, tg in p.calls[fq]:
            if isinstance(call.func, ast.Attribute) and call.func.attr in ("match_file", "match_files", "match_tree") and any("pathspec" in t.lower() or t.startswith("unk:") for t in tg):
                r2.instance(f, call, norm(call)[:100])
                if not call.args:
                    continue
                bad = []
                for o in pr.origins(call.args[0], f):
                    full = pr.resolve(o, depth=4)
                    full = pr.inline(full, depth=2)
                    trav = {(fq, f.params[0])} if f.is_generator() and f.params else set()
                    bad += tainted_leaves(p, full, rps | trav)
                    if _occurs_unsanitised(full, "set_of_file_paths"):
                        bad.append("absolute recorded path (set_of_file_paths joins the history root)")
                r2.check(not bad, f, call, f"ignore patterns are matched against a path containing the absolute location ({', '.join(sorted(set(bad)))[:160]}): ancestors matching a pattern change the result", witness=show(pr.origins(call.args[0], f)[0])[:300])

    # the base of that relpath: in the traversal the pattern root defaults to the start folder and is otherwise the caller's root
    from sa.absint import OBJ, UNKNOWN, Evaluator, Obj

    for fq, f in p.funcs.items():
        if f.module.name in unshipped or not f.is_generator():
            continue
        dfl = f.param_defaults()
        rels = [n for n in walk_no_nested(f.node) if isinstance(n, ast.Call) and norm(n.func) == "os.path.relpath" and len(n.args) == 2 and isinstance(n.args[1], ast.Name) and n.args[1].id in dfl and isinstance(dfl[n.args[1].id], ast.Constant) and dfl[n.args[1].id].value is None]
        for rc in rels:
            rootp = rc.args[1].id
            r2.instance(f, rc, f"pattern root `{rootp}` of {f.name}")
            prelude = []
            for st in f.node.body:
                if isinstance(st, (ast.For, ast.While)) or any(x is rc for x in ast.walk(st)):
                    break
                prelude.append(st)
            top_obj, root_obj = Obj(), Obj()
            okb = True
            for given, want in ((None, top_obj), (root_obj, root_obj)):
                ev = Evaluator(lambda e, env: None, fq)
                try:
                    outs = ev.run(prelude, {f.params[0]: top_obj, rootp: given})
                except AnalysisError:
                    outs = []
                vals = {id(e2.get(rootp, UNKNOWN)) for e2, o in outs if o is None}
                okb = okb and vals == {id(want)}
            r2.check(okb, f, rc, f"the folder the ignore patterns are relative to (`{rootp}`) is not 'the start folder when none is given, else the given root': paths are matched relative to the current working directory or to a sub-folder", construct=f"pattern root default of {f.name}")

    # ------------------------------------------------------------------ R13.3
    r3 = report.rule(
        "R13.3",
        "no absolute location reaches a record key: every path given to find_or_create_media_hash_for_path and every previous_path is sanitised "
        "(relpath / get_relative_file_path / history routing / basename); get_relative_file_path returns relpath(...) whenever the path is absolute",
        4,
    )
    grfp = p.funcs.get("ascmhl.history.MHLHistory.get_relative_file_path")
    if grfp is None:
        raise AnalysisError("MHLHistory.get_relative_file_path not found")
    rets = [n for n in walk_no_nested(grfp.node) if isinstance(n, ast.Return)]
    gg = cfg_of(grfp)
    ok_shape = True
    for rn in rets:
        v = rn.value
        if v is None or (isinstance(v, ast.Constant) and v.value is None):
            continue
        if isinstance(v, ast.Call) and norm(v.func) == "os.path.relpath" and len(v.args) == 2 and norm(v.args[0]) == grfp.params[1]:
            continue
        ok_shape = False
    r3.instance(grfp, grfp.node, "get_relative_file_path shape")
    r3.check(ok_shape, grfp, grfp.node, "get_relative_file_path returns something other than relpath(file_path, root) or None", construct="get_relative_file_path returns")
    for fq, f in p.funcs.items():
        if f.module.name in unshipped:
            continue
        for call, tg in p.calls[fq]:
            if any(t.endswith("find_or_create_media_hash_for_path") for t in tg) and call.args:
                r3.instance(f, call, norm(call)[:100])
                bad = []
                origs = pr.origins(call.args[0], f)
                guarded = _guarded_fallback_params(f, call.args[0])
                for o in origs:
                    if o[0] == "param" and o[2] in guarded and any(any(is_call(s2, "get_relative_file_path") and any(l[0] == "param" and l[2] == o[2] for l in subterms(s2)) for s2 in subterms(o2)) for o2 in origs if o2 is not o):
                        # `key = <param>` taken only when routing/get_relative_file_path of that same parameter gave None,
                        # i.e. the parameter is not an absolute path (shape of get_relative_file_path checked above)
                        continue
                    full = pr.resolve(o, depth=3)
                    bad += tainted_leaves(p, full, rps)
                r3.check(not [b for b in bad], f, call, f"record key may carry an absolute location: {sorted(set(bad))}", witness=show(pr.origins(call.args[0], f)[0])[:300])
        for n in walk_no_nested(f.node):
            if isinstance(n, ast.Assign):
                for t in n.targets:
                    if isinstance(t, ast.Attribute) and t.attr == "previous_path" and f.module.name != "ascmhl.hashlist_xml_parser" and not (isinstance(n.value, ast.Constant) and n.value.value is None):
                        r3.instance(f, n, norm(n)[:100])
                        bad = []
                        for o in pr.origins(n.value, f):
                            bad += tainted_leaves(p, pr.resolve(o, depth=3), rps)
                        r3.check(not bad, f, n, f"previous_path may carry an absolute location: {sorted(set(bad))}")

    # ------------------------------------------------------------------ R13.4
    r4 = report.rule("R13.4", "no iteration over a set (hash order) creates records, references or yields: set iteration bodies contain no append / record-creating call", 1)
    n_sets = 0
    for fq, f in p.funcs.items():
        if f.module.name in unshipped:
            continue
        for n in walk_no_nested(f.node):
            if isinstance(n, ast.For):
                is_set = False
                for o in pr.origins(n.iter, f):
                    for a in alts(o):
                        if a[0] == "op" and (a[1] in ("collect-set",) or (a[1] == "comp" and isinstance(_def_value(f, n.iter), ast.SetComp))):
                            is_set = True
                        if a[0] == "op" and a[1] == "Sub" and any(x[0] == "op" and x[1] in ("collect-set", "comp") for x in a[2]):
                            is_set = True
                        if a[0] == "call" and (a[1] in ("builtin:set", "builtin:frozenset") or a[1].endswith("set_of_file_paths")):
                            is_set = True
                if not is_set:
                    continue
                n_sets += 1
                r4.instance(f, n, f"for {norm(n.target)} in {norm(n.iter)} (set)")
                eff = [e for e in order_sensitive_effects(p, f, n.body, names_bound_in(n.body)) if e[1] != "mutating call discard"]
                eff = [e for e in eff if not (e[1] == "append" and e[2] and e[2].split(".")[0] in names_bound_in(n.body))]
                # set.add / discard on sets are order-insensitive; appends and record creation are not
                eff = [e for e in eff if not (e[1].startswith("mutating call") and e[1].split()[-1] in ("add", "discard"))]
                r4.check(not eff, f, n, f"iteration over a set has an order-sensitive effect ({eff[0][1] + ' ' + norm(eff[0][0])[:60] if eff else ''}): record order would depend on hash order")
    if n_sets == 0:
        raise AnalysisError("no iteration over a set found (rename detection loops expected)")

    # ------------------------------------------------------------------ R13.6
    r6 = report.rule(
        "R13.6",
        "no default argument freezes the environment: a parameter default is evaluated once, when the module is imported; a default that reads the working directory, "
        "the clock or the environment (os.getcwd(), datetime.now(), os.environ ...) makes later calls resolve paths against the import-time location",
        3,
    )
    ENV_CALLS = ("os.getcwd", "os.path.abspath", "os.path.realpath", "os.path.expanduser", "datetime.now", "datetime.datetime.now", "datetime.utcnow", "time.time", "time.localtime", "os.getenv", "os.environ.get", "Path.cwd", "pathlib.Path.cwd", "Path.home")
    ndef = 0
    for fq, f in sorted(p.funcs.items()):
        if f.module.name in unshipped:
            continue
        for pn, d in f.param_defaults().items():
            if isinstance(d, ast.Constant):
                continue
            ndef += 1
            r6.instance(f, d, f"{f.name}({pn}={norm(d)[:40]})")
            bad = [norm(x.func) for x in ast.walk(d) if isinstance(x, ast.Call) and any(norm(x.func).endswith(e) for e in ENV_CALLS)] + [norm(x) for x in ast.walk(d) if isinstance(x, ast.Attribute) and norm(x) == "os.environ"]
            r6.check(not bad, f, d, f"default `{pn}={norm(d)[:50]}` of {f.name} is computed at import time from {bad[0] if bad else ''}: a process that changes its working directory afterwards (library use, test runners) resolves relative paths against the old location", construct=f"import-time default {f.name}.{pn}")
    r6.instance(None, None, f"{ndef} non-constant parameter default(s) in shipped code")
    r6.check(True, None, None, "")

    # ------------------------------------------------------------------ R13.5
    r5 = report.rule(
        "R13.5",
        "no decision is taken on the spelling of an absolute location: string decomposition (split / partition / startswith / endswith / find / substring `in` / re / fnmatch) "
        "is never applied to a path that still contains the absolute location of the root (comparing two absolute paths with each other, and taking the last component, is fine)",
        3,
    )
    from .common import commands as _commands

    shipped = set()
    for c in _commands(p).values():
        shipped |= set(p.reachable([c.qual]))

    def abs_string(t, depth=0):
        """string-valued term that carries the absolute location: description or None"""
        if not isinstance(t, tuple) or depth > 12:
            return None
        k = t[0]
        if k == "alt":
            for a in t[1]:
                d = abs_string(a, depth + 1)
                if d:
                    return d
            return None
        if k == "param":
            return f"command path argument {t[2]}" if (t[1], t[2]) in rps else None
        if k == "attr":
            return f"absolute field .{t[2]}" if t[2] in ("asc_mhl_path", "file_path") else None
        if k == "elem":
            inner = t[1]
            # for root, dirs, files in os.walk(X): element 0 is X-prefixed, 1 and 2 are plain names
            if inner[0] == "elem" and inner[1][0] == "call" and inner[1][1] in ("ext:os.walk", "ext:os.fwalk"):
                if t[2] == ("const", 0):
                    for a in inner[1][2]:
                        if tainted_leaves(p, a, rps):
                            return "folder path yielded by os.walk(<absolute root>)"
                return None
            if inner[0] == "call" and inner[1].endswith("post_order_lexicographic") and t[2] is None:
                return None
            return None
        if k == "op" and t[1] in ("Add", "Mod", "fstring", "format"):
            for a in t[2]:
                d = abs_string(a, depth + 1)
                if d:
                    return d
            return None
        if k == "call":
            nm = t[1]
            if any(nm.endswith(x) for x in SANITISERS) or nm in ("ext:glob.escape", "ext:re.escape"):
                return None
            if any(nm.endswith(x) for x in ABS_SOURCES):
                return nm.split(":")[-1] + "()"
            if nm.endswith("get_root_path"):
                return "history root path (absolute)"
            if nm in ("ext:os.path.join", "ext:os.path.normpath", "ext:os.path.dirname", "ext:os.path.normcase", "builtin:str", "ext:os.fspath", "ext:os.path.commonpath", "ext:os.path.commonprefix"):
                for a in t[2]:
                    d = abs_string(a, depth + 1)
                    if d:
                        return d
            return None
        return None

    DECOMP = {"split", "rsplit", "partition", "rpartition", "startswith", "endswith", "find", "rfind", "index", "rindex", "count", "removeprefix", "removesuffix"}
    PATTERN_ARG = {"glob.glob": 0, "glob.iglob": 0, "re.compile": 0, "re.match": 0, "re.search": 0, "re.findall": 0, "re.fullmatch": 0, "re.split": 0, "re.sub": 0, "fnmatch.fnmatch": 1, "fnmatch.fnmatchcase": 1, "fnmatch.filter": 1}
    SUBJECT_ARG = {"re.match": 1, "re.search": 1, "re.findall": 1, "re.fullmatch": 1, "re.split": 1, "fnmatch.fnmatch": 0, "fnmatch.fnmatchcase": 0}

    def taint_of(e, f):
        for o in pr.origins(e, f):
            full = pr.resolve(o, depth=4)
            d = abs_string(full)
            if d:
                return d
        return None

    for fq in sorted(shipped):
        f = p.funcs[fq]
        if f.module.name in unshipped:
            continue
        for n in walk_no_nested(f.node):
            subject = other = None
            what = None
            if isinstance(n, ast.Call) and isinstance(n.func, ast.Attribute) and n.func.attr in DECOMP and not isinstance(n.func.value, ast.Constant):
                subject, other, what = n.func.value, (n.args[0] if n.args else None), f".{n.func.attr}()"
                par = parent(n)
                # <abs>.split(sep)[-1] / rsplit(sep, 1)[-1]: the last component (a name), not the location
                if n.func.attr in ("split", "rsplit") and isinstance(par, ast.Subscript) and par.value is n and isinstance(par.slice, ast.UnaryOp) and isinstance(par.slice.op, ast.USub) and isinstance(par.slice.operand, ast.Constant) and par.slice.operand.value == 1:
                    r5.instance(f, n, norm(n)[:70] + " [last component]")
                    continue
            elif isinstance(n, ast.Call) and norm(n.func) in PATTERN_ARG and len(n.args) > PATTERN_ARG[norm(n.func)] and taint_of(n.args[PATTERN_ARG[norm(n.func)]], f) is not None:
                # the absolute location is part of a *pattern*: its characters ([ ] * ? or regex operators) are interpreted
                r5.instance(f, n, norm(n)[:80])
                r5.check(False, f, n, f"{norm(n.func)} interprets its argument as a pattern, and the argument contains the absolute location of the root ({taint_of(n.args[PATTERN_ARG[norm(n.func)]], f)}) unescaped: under a folder whose name contains pattern characters (e.g. 'Card [A001]') nothing matches", construct=f"absolute path inside a pattern: {norm(n)[:60]}")
                continue
            elif isinstance(n, ast.Call) and norm(n.func) in SUBJECT_ARG and len(n.args) > SUBJECT_ARG[norm(n.func)]:
                subject, what = n.args[SUBJECT_ARG[norm(n.func)]], norm(n.func)
            elif isinstance(n, ast.Compare) and len(n.ops) == 1 and isinstance(n.ops[0], (ast.In, ast.NotIn)):
                right = n.comparators[0]
                # substring test only: the right operand is itself a decomposed / string path (collections of paths compare by equality)
                if isinstance(right, ast.Call) and isinstance(right.func, ast.Attribute) and right.func.attr in DECOMP:
                    continue  # the inner call is judged on its own
                subject, other, what = right, n.left, "substring `in`"
            else:
                continue
            r5.instance(f, n, norm(n)[:80])
            d = taint_of(subject, f)
            if d is None:
                r5.check(True, f, n, "")
                continue
            # absolute against absolute (containment / equality of two locations) does not depend on where the tree is
            if other is not None and taint_of(other, f) is not None:
                r5.check(True, f, n, "")
                continue
            r5.check(False, f, n, f"{what} is applied to a path that contains the absolute location of the root ({d}): the outcome depends on the names of the folders the tree is stored under", construct=f"{what} on absolute path: {norm(n)[:70]}")

    # ------------------------------------------------------------------ R13.8
    r8 = report.rule(
        "R13.8",
        "a record only carries what a copy of the tree carries with it - name, content, size, modification time: nothing create / flatten reach reads the parts of a "
        "file's status that belong to THIS copy (inode change time st_ctime / getctime, birth time, access time, inode and device numbers, link count, owner) - a "
        "value derived from them makes two byte-identical trees at different locations produce different manifests and chain hashes",
        1,
    )
    _COPY_BOUND = ("st_ctime", "st_ctime_ns", "st_birthtime", "st_atime", "st_atime_ns", "st_ino", "st_dev", "st_nlink", "st_uid", "st_gid")
    n8 = 0
    cmds8 = commands(p)
    reach8 = set(p.reachable([need(cmds8, "create").qual, need(cmds8, "flatten").qual]))
    for fq in sorted(reach8):
        f8 = p.funcs[fq]
        if f8.module.name in unshipped:
            continue
        n8 += 1
        for n in walk_no_nested(f8.node):
            hit = None
            if isinstance(n, ast.Attribute) and n.attr in _COPY_BOUND and isinstance(n.ctx, ast.Load):
                hit = n.attr
            elif isinstance(n, ast.Call) and norm(n.func) in ("os.path.getctime", "os.path.getatime"):
                hit = norm(n.func)
            elif isinstance(n, ast.Call) and isinstance(n.func, ast.Name) and n.func.id == "getattr" and len(n.args) >= 2 and isinstance(n.args[1], ast.Constant) and n.args[1].value in _COPY_BOUND:
                hit = n.args[1].value
            if hit:
                r8.instance(f8, n, f"{f8.name}: {hit}")
                r8.check(False, f8, n, f"`{norm(n)[:60]}` reads {hit}, a property of this COPY of the file (it changes when the tree is copied, moved to another volume or restored), on the way to a record: the manifests of two identical trees differ", construct=f"{f8.name}: {hit} read")
    r8.instance(None, None, f"{n8} functions reachable from create / flatten scanned")
    r8.check(True, None, None, "")

    # ---- rules shared with other properties (same mechanism, same rule, reported under every property it can break)
    # ------------------------------------------------------------------ R13.7
    r7 = report.rule(
        "R13.7",
        "the folder name that goes into manifest file names (and thereby into the chain) does not depend on how the root was spelled: it is the final component of the NORMALISED "
        "root path - basename(normpath(root)) / basename(abspath(root)) - so that `tree/`, `tree/.`, `tree/A/..` all give `tree`",
        1,
    )
    for f in p.funcs.values():
        if not f.module.name.endswith("history"):
            continue
        for js in [n for n in walk_no_nested(f.node) if isinstance(n, ast.JoinedStr) and any(isinstance(v, ast.FormattedValue) and norm(v.value) == "ascmhl_file_extension" for v in n.values)]:
            for v in js.values:
                if not isinstance(v, ast.FormattedValue):
                    continue
                for o in pr.origins(v.value, f):
                    full = pr.inline(pr.resolve(o, depth=3), depth=3)
                    rootish = [t for t in subterms(full) if is_call(t, "get_root_path") or (t[0] == "attr" and t[2] in ("asc_mhl_path",))]
                    if not rootish:
                        continue
                    r7.instance(f, v.value, f"{f.name}: {show(full)[:80]}")
                    top = full
                    while top[0] == "alt" and len(top[1]) == 1:
                        top = top[1][0]
                    # a character-level rewrite of the name (judged by R6.8) does not make it depend on the spelling of the root
                    from .common import strip_string_rewrites

                    top, _rw = strip_string_rewrites(top)
                    def _norm_basename(t):
                        return is_call(t, "os.path.basename") and t[2] and any(is_call(t[2][0], k) for k in ("os.path.normpath", "os.path.abspath", "os.path.realpath"))
                    if _norm_basename(top):
                        r7.check(True, f, v.value, "")
                    elif (top[0] == "attr" and top[2] in ("name", "stem") and any(is_call(x, "Path") or is_call(x, "PurePath") or is_call(x, "pathlib.Path") for x in subterms(top))):
                        r7.check(False, f, v.value, f"the folder name in manifest file names is `{show(top)[:60]}`: pathlib drops trailing separators and `.` but keeps `..`, so a root spelled `tree/A/..` is sealed as `NNNN_.._<date>.mhl` (and a different chain entry) instead of `NNNN_tree_...`", construct="folder name via pathlib .name (no normalisation of ..)")
                    elif is_call(top, "os.path.basename"):
                        r7.check(False, f, v.value, f"the folder name in manifest file names is `{show(top)[:60]}` of the root as spelled: a trailing separator gives an empty name, `tree/A/..` gives `..`", construct="folder name via basename without normpath")
                    else:
                        raise AnalysisError(f"{f.loc(v.value)}: how the folder name in the manifest file name is derived from the root path is not understood: {show(top)[:100]}")

    include_rules(report, p, 'c15', ['R15.7'], 'the result must not depend on where the tree lives: a temporary in the system temp directory makes sealing fail on every other file system')
    include_rules(report, p, 'c12', ['R12.13'], 'the same relative spelling at every ignore match')
    include_rules(report, p, 'c12', ['R12.1'], 'what is sealed depends on the tree and its own history only: the effective patterns come from the history AT the root (and the command line), never from a history found in an ancestor folder of the root')
    include_rules(report, p, 'c17', ['R17.1'], 'the expected set and the traversal are compared by string equality: both must spell a path the same way for every spelling of the root (., ./tree, a/../b, //)')
    include_rules(report, p, 'c07', ['R7.2'], 'directory hashes must not depend on enumeration order: the list hash sorts')
    include_rules(report, p, 'c17', ['R17.12'], 'a previous path is written into the manifest: it must be the history-relative spelling, never the absolute location of the tree at the time of the run')
    include_rules(report, p, 'c17', ['R17.8', 'R17.6'], 'which (new path, missing path) pairs are matched must not depend on the iteration order of sets of absolute paths: every pair is compared, none is skipped because an earlier one matched')
    report.not_decided += ["byte identity of manifests at run time", "behaviour under exotic spellings of the root path (a/../b, symlinked ancestors)", "order of 'missing file' lines in the console output"]


def _guarded_fallback_params(f, key_expr):
    """parameters P with an assignment `K = P` that sits under `if K == None` / `if K is None` (K the key variable)"""
    out = set()
    if not isinstance(key_expr, ast.Name):
        return out
    k = key_expr.id
    for n in walk_no_nested(f.node):
        if isinstance(n, ast.Assign) and len(n.targets) == 1 and isinstance(n.targets[0], ast.Name) and n.targets[0].id == k and isinstance(n.value, ast.Name) and n.value.id in f.params:
            par = parent(n)
            if isinstance(par, ast.If) and n in par.body and isinstance(par.test, ast.Compare) and len(par.test.ops) == 1 and isinstance(par.test.ops[0], (ast.Eq, ast.Is)) and norm(par.test.left) == k and isinstance(par.test.comparators[0], ast.Constant) and par.test.comparators[0].value is None:
                out.add(n.value.id)
    return out


def _order_insensitive_consumer(comp: ast.comprehension) -> bool:
    """the comprehension feeds any()/all()/set()/len()/sum()/min()/max()/sorted() (no key) or is a set comprehension"""
    c = parent(comp)
    if isinstance(c, ast.SetComp):
        return True
    if isinstance(c, (ast.GeneratorExp, ast.ListComp)):
        u = parent(c)
        if isinstance(u, ast.Call) and u.args and u.args[0] is c:
            nm = norm(u.func)
            if nm in ("any", "all", "set", "frozenset", "len", "sum", "min", "max"):
                return True
            if nm == "sorted" and _sort_ok(u):
                return True
    return False


def _occurs_unsanitised(t, suffix) -> bool:
    """a call ...<suffix>() occurs in the term outside every sanitiser (relpath / basename / get_relative_file_path); a comprehension
    contributes its element expression only"""
    if not isinstance(t, tuple):
        return False
    k = t[0]
    if k == "call":
        if any(t[1].endswith(x) for x in SANITISERS):
            return False
        if t[1].endswith(suffix):
            return True
        return any(_occurs_unsanitised(a, suffix) for a in t[2]) or any(_occurs_unsanitised(a, suffix) for a in t[3].values()) or (t[5] is not None and _occurs_unsanitised(t[5], suffix))
    if k in ("attr", "elem"):
        return _occurs_unsanitised(t[1], suffix)
    if k == "op":
        if t[1] == "comp" and t[2] and t[2][-1][0] != "unknown":
            return _occurs_unsanitised(t[2][-1], suffix)
        return any(_occurs_unsanitised(a, suffix) for a in t[2])
    if k == "alt":
        return any(_occurs_unsanitised(a, suffix) for a in t[1])
    return False


def _under_relpath(t):
    return t[0] == "call" and t[1].endswith("os.path.relpath")


def _def_value(f, name_expr):
    if not isinstance(name_expr, ast.Name):
        return name_expr
    for n in walk_no_nested(f.node):
        if isinstance(n, ast.Assign) and any(isinstance(t, ast.Name) and t.id == name_expr.id for t in n.targets):
            if isinstance(n.value, ast.SetComp):
                return n.value
    return None


def _check_walk(p, r1, f, g, call):
    par = parent(call)
    if not (isinstance(par, ast.For) and par.iter is call):
        r1.check(False, f, call, "os.walk result is not consumed by a for loop (unrecognised idiom)")
        return
    tgt = par.target
    if not (isinstance(tgt, ast.Tuple) and len(tgt.elts) == 3 and all(isinstance(e, ast.Name) for e in tgt.elts)):
        r1.check(False, f, par, "os.walk loop target is not a 3-tuple of names (unrecognised idiom)")
        return
    rootv, dirsv, filesv = [e.id for e in tgt.elts]
    body_locals = names_bound_in(par.body)
    eff = order_sensitive_effects(p, f, par.body, body_locals)
    # (a) effects inside nested loops over filenames
    file_loops = [n for s in par.body for n in ast.walk(s) if isinstance(n, ast.For) and isinstance(n.iter, ast.Name) and n.iter.id == filesv]
    file_eff = []
    for fl in file_loops:
        file_eff += order_sensitive_effects(p, f, fl.body, names_bound_in(fl.body))
    file_eff_ids = {id(e[0]) for e in file_eff}
    dir_eff = [e for e in eff if id(e[0]) not in file_eff_ids]
    # file order: sorted before the loop, or every affected container consumer-sorted
    for fl in file_loops:
        fl_sorted = any(
            isinstance(n, ast.Call) and isinstance(n.func, ast.Attribute) and n.func.attr == "sort" and norm(n.func.value) == filesv and g.dominates(g.node_for(n), g.node_for(fl))
            for s in par.body
            for n in ast.walk(s)
        )
        if fl_sorted:
            continue
        for e in order_sensitive_effects(p, f, fl.body, names_bound_in(fl.body)):
            if e[1] == "append" and e[2] and "." not in e[2]:
                ok, why = consumer_sorted(p, f, g, e[2], g.node_for(par))
                r1.check(ok, f, e[0], f"file names from os.walk reach `{e[2]}` in OS listing order and the list is not sorted before use ({why})", construct=f"walk files -> {norm(e[0])[:80]}")
            else:
                r1.check(False, f, e[0], f"file names from os.walk reach an order-sensitive effect ({e[1]}) in OS listing order", construct=f"walk files -> {norm(e[0])[:80]}")
    # descent / directory order: if anything order-sensitive happens per visited directory, dirnames must be sorted in place on every iteration
    if dir_eff:
        loop = g.by_ast.get(id(par))
        fixers = set()
        for s in par.body:
            for n in ast.walk(s):
                if isinstance(n, ast.Call) and isinstance(n.func, ast.Attribute) and isinstance(n.func.value, ast.Name) and n.func.value.id == dirsv and n.func.attr == "sort" and _sort_ok(n):
                    fixers.add(g.node_for(n).id)
                if isinstance(n, ast.Assign) and any(isinstance(t, ast.Subscript) and isinstance(t.value, ast.Name) and t.value.id == dirsv and isinstance(t.slice, ast.Slice) for t in n.targets) and isinstance(n.value, ast.Call) and norm(n.value.func) == "sorted" and _sort_ok(n.value):
                    fixers.add(g.node_for(n).id)
        # every path through one iteration must sort dirnames (clear() alone leaves siblings of the *parent* level unsorted)
        starts = [(m, l) for m, l in loop.succ if l == "iter"]
        path = g.find_path(loop, {loop.id}, avoid=fixers, first_edges=starts)
        r1.check(path is None, f, dir_eff[0][0], f"os.walk visits directories in OS listing order and the loop has an order-sensitive effect ({dir_eff[0][1]}): `{dirsv}` is not sorted in place on every iteration", construct=f"walk dirs unsorted -> {norm(dir_eff[0][0])[:80]}", witness=g.fmt_path(path) if path else None)
    if not file_loops and not dir_eff:
        r1.check(True, f, call, "")


def finish(report):
    return report.finish(
        level="other",
        explanation="sortedness dataflow on every enumeration site, provenance/taint of every ignore-match argument and record key, and a scan of set iterations. "
        "Decides that no OS-order or location-dependent value can reach record/reference order or a pattern match; byte identity is not executed.",
    )
