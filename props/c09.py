"""C09 - directory-hash verification detects any change anywhere in the tree (structural clauses)."""
from __future__ import annotations

import ast

from sa.cfg import cfg_of
from sa.emit import Alt, Elem, Opt, Rep, walk_elems
from sa.flow import show, sig, subterms
from sa.model import AnalysisError, norm, parent, walk_no_nested

from .common import include_rules, alts, class_with_code, commands, is_call, is_plain_iter, loop_iteration_paths, need, prov, raised_class, unshipped_modules
from .xmlcommon import documents


def dh_function(p):
    """the function that owns the exit-12 decision (raises VerificationDirectoriesFailed)"""
    c12 = class_with_code(p, 12)
    out = []
    for fq, f in p.funcs.items():
        for n in walk_no_nested(f.node):
            if isinstance(n, ast.Call) and p.resolve_name_expr(n.func, f.module) == c12:
                out.append(f)
                break
    if len(out) != 1:
        raise AnalysisError(f"function constructing the exit-12 exception: {[f.qual for f in out]}")
    return out[0], c12


def optional_tags(doc):
    """tags that are emitted only on some alternatives / under a condition (direct children of each element)"""
    opt = set()

    def scan(items, conditional):
        for it in items:
            if isinstance(it, Elem):
                if conditional and isinstance(it.tag, str):
                    opt.add(it.tag)
            elif isinstance(it, Opt):
                scan(it.items, True)
            elif isinstance(it, Rep):
                scan(it.items, conditional)
            elif isinstance(it, Alt):
                tagsets = [{x.tag for x in b if isinstance(x, Elem) and isinstance(x.tag, str)} for b in it.branches]
                common = set.intersection(*tagsets) if tagsets else set()
                for b in it.branches:
                    for x in b:
                        if isinstance(x, Elem) and isinstance(x.tag, str) and x.tag not in common:
                            opt.add(x.tag)
                    scan([x for x in b if not isinstance(x, Elem)], conditional)
                # same element in all branches: compare their children
                for tg in common:
                    kids = [[c.tag for c in x.children if isinstance(c, Elem) and isinstance(c.tag, str)] for b in it.branches for x in b if isinstance(x, Elem) and x.tag == tg]
                    allk = set().union(*map(set, kids)) if kids else set()
                    for k in allk:
                        if not all(k in ks for ks in kids):
                            opt.add(k)

    for el in walk_elems(doc):
        scan(el.children, False)
    return opt


def nullable_fields(p, mdoc):
    """model fields that the reader fills only from an element the writer may omit: {(class, field): tag}"""
    rd = p.funcs.get("ascmhl.hashlist_xml_parser.parse")
    if rd is None:
        raise AnalysisError("manifest reader not found")
    opt = optional_tags(mdoc)
    out = {}
    for n in walk_no_nested(rd.node):
        if isinstance(n, ast.Assign) and len(n.targets) == 1 and isinstance(n.targets[0], ast.Attribute):
            fld = n.targets[0].attr
            # enclosing `tag == "x"` test
            x = parent(n)
            tag = None
            while x is not None and x is not rd.node:
                if isinstance(x, ast.If) and isinstance(x.test, ast.Compare) and norm(x.test.left) == "tag" and isinstance(x.test.comparators[0], ast.Constant) and _in_body(n, x):
                    tag = x.test.comparators[0].value
                    break
                x = parent(x)
            if tag in opt:
                # Optional-annotated model field?
                for cq, c in p.classes.items():
                    ft = None
                    for s in c.node.body:
                        if isinstance(s, ast.AnnAssign) and isinstance(s.target, ast.Name) and s.target.id == fld and "Optional" in norm(s.annotation):
                            ft = s
                    if ft is not None and c.module.name.endswith("hashlist"):
                        # object-valued (dereferenced) fields only
                        if "MHL" in norm(ft.annotation):
                            out[(cq, fld)] = tag
    return out


def _in_body(n, iff):
    for s in iff.body:
        for x in ast.walk(s):
            if x is n:
                return True
    return False


def none_guarded(g, expr_text, node):
    """is cfg node `node` protected by a test establishing `expr_text` is not None / truthy?  A test protects the node when it
    dominates it and the node cannot be reached from the test's 'may be None' branch without passing the test again (this covers
    `if x is not None: use(x)`, `if x is None: continue / return / raise` followed by the use, and their negated spellings)."""
    for t in g.nodes:
        if t.kind != "test" or not g.dominates(t, node) or t is node:
            continue
        s = norm(t.ast)
        pos = s in (f"{expr_text} is not None", f"{expr_text} != None", expr_text)
        neg = s in (f"{expr_text} is None", f"{expr_text} == None", f"not {expr_text}")
        if not (pos or neg):
            continue
        bad = [m for m, l in t.succ if l == ("F" if pos else "T")]
        if bad and all(m is not node and node.id not in g.reachable_from([m], avoid={t.id}) for m in bad):
            return True
    return False


def run(report, p):
    pr = prov(p)
    cmds = commands(p)
    unshipped = unshipped_modules(p)
    dh, c12 = dh_function(p)
    g = cfg_of(dh)
    em, mdoc, cdoc, raw = documents(p)
    report.assume("a changed tree yields different directory hashes (C07 + collision resistance)")
    shipped = set()
    for c in cmds.values():
        shipped |= set(p.reachable([c.qual]))

    # ------------------------------------------------------------------ R9.1
    r1 = report.rule(
        "R9.1",
        "result-use consistency: within one calling function the result of a package function is not consumed at one call site and discarded at another "
        "(checked here, ignored there); scoped to functions reachable from verify",
        1,
    )
    vreach = set(p.reachable([need(cmds, "verify").qual]))
    for fq in sorted(vreach):
        f = p.funcs[fq]
        used, dropped = {}, {}
        for call, tg in p.calls[fq]:
            if getattr(call, "_synthetic_property_read", False):
                continue
            for t in tg:
                if t in p.funcs and not t.endswith(".__init__"):
                    rets = [n for n in walk_no_nested(p.funcs[t].node) if isinstance(n, ast.Return) and n.value is not None and not (isinstance(n.value, ast.Constant) and n.value.value is None)]
                    if not rets:
                        continue
                    if isinstance(parent(call), ast.Expr):
                        dropped.setdefault(t, []).append(call)
                    else:
                        used.setdefault(t, []).append(call)
        for t in used:
            if t in dropped:
                for c in used[t]:
                    r1.instance(f, c, f"result of {t.split('.')[-1]} consumed")
                for c in dropped[t]:
                    r1.instance(f, c, f"result of {t.split('.')[-1]} discarded")
                    r1.check(False, f, c, f"the verdict returned by {t.split('.')[-1]}() is used at {f.loc(used[t][0])} but discarded here: a mismatch detected by this comparison never reaches the exit decision")
        for t in used:
            if t not in dropped and fq == dh.qual:
                for c in used[t][:1]:
                    r1.instance(f, c, f"result of {t.split('.')[-1]} consumed at every site")
                    r1.check(True, f, c, "")

    # ------------------------------------------------------------------ R9.2
    r2 = report.rule("R9.2", "every 'ERROR:' log in the function that owns the exit-12 decision is followed on every path by an update of a failure signal", 2)
    signal_nodes = set()
    direct_map_stores = set()
    for n in g.nodes:
        a = n.ast
        if n.kind == "stmt" and isinstance(a, ast.AugAssign) and isinstance(a.op, ast.Add) and "fail" in norm(a.target):
            signal_nodes.add(n.id)
        if n.kind == "stmt" and isinstance(a, ast.Expr) and isinstance(a.value, ast.Call):
            tg = [t for c, ts in p.calls[dh.qual] if c is a.value for t in ts]
            for t in tg:
                if t in p.funcs and p.funcs[t].outer is dh and any(isinstance(x, ast.Name) and "fail" in x.id for x in ast.walk(p.funcs[t].node)):
                    signal_nodes.add(n.id)
        # the per-format failure map written directly (d[fmt] = d.get(fmt, 0) + 1, setdefault / update) or through a helper that
        # stores into the mapping it is handed
        if n.kind == "stmt" and isinstance(a, ast.Assign) and any(isinstance(t, ast.Subscript) and isinstance(t.value, ast.Name) and "fail" in t.value.id for t in a.targets):
            signal_nodes.add(n.id)
            direct_map_stores.add(n.id)
        if n.kind == "stmt" and isinstance(a, ast.Expr) and isinstance(a.value, ast.Call):
            c = a.value
            if isinstance(c.func, ast.Attribute) and c.func.attr in ("setdefault", "update") and isinstance(c.func.value, ast.Name) and "fail" in c.func.value.id:
                signal_nodes.add(n.id)
            for t in [t for c2, ts in p.calls[dh.qual] if c2 is c for t in ts]:
                hf = p.funcs.get(t)
                if hf is None or hf.outer is dh:
                    continue
                b = p.bind_args(hf, c)
                for pn, arg in b.items():
                    if isinstance(arg, ast.Name) and "fail" in arg.id and any(isinstance(x, ast.Assign) and any(isinstance(tt, ast.Subscript) and isinstance(tt.value, ast.Name) and tt.value.id == pn for tt in x.targets) for x in walk_no_nested(hf.node)):
                        signal_nodes.add(n.id)
    map_signal_nodes = {i for i in signal_nodes if isinstance(g.nodes[i].ast, ast.Expr)} | direct_map_stores
    flagged_vars = _vars_fed_by_unguarded_recorded_keys(p, pr, dh, g)
    for call, tg in p.calls[dh.qual]:
        if any(t.endswith("logger.error") for t in tg) and call.args:
            lit = _literal_prefix(call.args[0])
            if not lit.startswith("ERROR"):
                continue
            r2.instance(dh, call, lit[:80])
            cn = g.node_for(call)
            if _depends_on_flagged(g, dh, cn, flagged_vars):
                r2.note(f"{dh.loc(call)}: not evaluated - this log is reachable only when a lookup flagged by R9.4 yields nothing, which today raises KeyError instead (known finding); it becomes subject to R9.2 once the lookup is guarded")
                continue
            stops = {h.id for h in g.nodes if h.kind == "loop"} | {g.exit.id}
            path = g.find_path(cn, stops, avoid=map_signal_nodes)
            r2.check(path is None, dh, call, "an ERROR is logged but no failure signal is updated on this path: the command can still exit 0", witness=g.fmt_path(path) if path else None, construct=f"unpaired error log: {lit[:70]}")

    # ------------------------------------------------------------------ R9.3
    r3 = report.rule(
        "R9.3",
        "a model field that the reader fills only from an element the writer may omit (today: the root hash, absent after -n / -sf generations) is never "
        "dereferenced without a dominating None test, in code reachable from shipped commands",
        3,
    )
    nf = nullable_fields(p, mdoc)
    if not any(f == "root_media_hash" for (_, f) in nf):
        raise AnalysisError(f"root_media_hash not recognised as writer-optional (nullable set: {nf})")
    report.extra["nullable_in_practice"] = {f"{c}.{f}": t for (c, f), t in nf.items()}
    for fq in sorted(shipped):
        f = p.funcs[fq]
        if f.module.name.endswith("_xml_parser") or f.module.name in unshipped:
            continue
        gg = cfg_of(f)
        for n in walk_no_nested(f.node):
            if isinstance(n, ast.Attribute) and isinstance(n.value, ast.Attribute) and isinstance(n.ctx, ast.Load):
                inner = n.value
                bt = p.etype(inner.value, f)
                key = (bt[1], inner.attr) if bt and bt[0] == "C" else None
                if key not in nf and not any(inner.attr == fld and bt is None for (_, fld) in nf):
                    continue
                # objects created in this run (new hash lists of the session) always get their root hash from the traversal
                origin_fresh = False
                for o in pr.origins(inner.value, f):
                    if any(s[0] == "attr" and s[2] == "new_hash_lists" for s in subterms(o)) or any(is_call(s, "class:ascmhl.hashlist.MHLProcessInfo") for s in subterms(o)):
                        origin_fresh = True
                if origin_fresh:
                    continue
                r3.instance(f, n, norm(n)[:100])
                nn = gg.node_for(n)
                ok = none_guarded(gg, norm(inner), nn) or _same_test_guard(n, inner)
                r3.check(ok, f, n, f"`{norm(inner)}` can be None (generations written with -n or -sf have no <roothash>) and is dereferenced without a None test: AttributeError on a history the tool itself produced", construct=f"unguarded {norm(n)}")

        # the same through a local alias:  rmh = x.process_info.root_media_hash ... rmh.hash_entries
        for n in walk_no_nested(f.node):
            if isinstance(n, ast.Attribute) and isinstance(n.value, ast.Name) and isinstance(n.ctx, ast.Load):
                nm = n.value
                if nm.id in f.params:
                    continue
                try:
                    os_ = pr.origins(nm, f)
                except AnalysisError:
                    continue
                if not os_ or not all(o[0] == "attr" and any(o[2] == fld for (_, fld) in nf) for o in os_):
                    continue
                if any(any(s2[0] == "attr" and s2[2] == "new_hash_lists" for s2 in subterms(o)) or any(is_call(s2, "class:ascmhl.hashlist.MHLProcessInfo") for s2 in subterms(o)) for o in os_):
                    continue
                r3.instance(f, n, norm(n)[:100] + " (alias)")
                ok = none_guarded(gg, nm.id, gg.node_for(n))
                r3.check(ok, f, n, f"`{nm.id}` holds `{show(os_[0])[-60:]}`, which can be None (generations written with -n or -sf have no <roothash>), and is dereferenced without a None test: AttributeError on a history the tool itself produced", construct=f"unguarded {norm(n)} (alias of a nullable field)")

    # ------------------------------------------------------------------ R9.4
    r4 = report.rule(
        "R9.4",
        "key-domain agreement: a per-format dictionary whose keys come from the formats computed in this run is not subscripted with the format of a *recorded* entry unless guarded (`in` / .get)",
        2,
    )
    ordinals = {}
    for n in sorted(_recorded_key_subscripts(p, pr, dh), key=lambda x: (x.lineno, x.col_offset)):
        if True:
            dorig = pr.origins(n.value, dh)
            role = "sub-folder lookup popped from the per-folder mapping" if any(any(s[0] == "call" and s[1].endswith(".pop") for s in subterms(o)) for o in dorig) else "root-folder lookup built in this iteration"
            ordinals[role] = ordinals.get(role, 0) + 1
            site = f"{role} #{ordinals[role]}"
            r4.instance(dh, n, norm(n))
            nn = g.node_for(n)
            guarded = False
            for t in g.nodes:
                if t.kind == "test" and g.dominates(t, nn) and norm(t.ast) in (f"{norm(n.slice)} in {norm(n.value)}", f"{norm(n.slice)} in {norm(n.value)}.keys()"):
                    if any(m is nn or g.dominates(m, nn) for m, l in t.succ if l == "T"):
                        guarded = True
            r4.check(guarded, dh, n, f"`{norm(n.value)}` holds the formats computed in this run but is indexed with the format of a recorded entry: KeyError when a nested history was sealed with another format", construct=f"recorded-format key into computed per-format dict ({site})")

    # ------------------------------------------------------------------ R9.5
    r5 = report.rule("R9.5", "the failure bookkeeping reaches the exit decision: the exit-12 raise is controlled by the failure map; every recorded entry of every generation is compared (loops unsliced)", 3)
    raises = [n for n in g.nodes if n.kind == "stmt" and isinstance(n.ast, ast.Raise)]
    ctor = [n for n in walk_no_nested(dh.node) if isinstance(n, ast.Call) and p.resolve_name_expr(n.func, dh.module) == c12]
    for c in ctor:
        cn = g.node_for(c)
        r5.instance(dh, c, "exit-12 exception constructed")
        tests = [t for t, l in g.control_deps(cn) if t.kind == "test"]
        uses_map = any("failures" in norm(t.ast) for t in tests)
        r5.check(uses_map, dh, c, "the exit-12 decision does not depend on the recorded failures")
        for t in tests:
            for x in ast.walk(t.ast):
                if isinstance(x, ast.Name) and isinstance(x.ctx, ast.Load) and x.id not in ("len", "set", "list", "sorted", "any", "all", "sum", "bool", "frozenset"):
                    okname = "fail" in x.id
                    for o in pr.origins(x, dh):
                        if any(is_call(s2, "builtin:sorted") or (s2[0] == "op" and s2[1].startswith("collect")) for s2 in subterms(o)):
                            okname = True
                    r5.check(okname, dh, t.ast, f"the exit-12 decision additionally depends on `{x.id}`, which is neither the failure bookkeeping nor the list of verified formats: detected failures can be swallowed", construct=f"exit-12 guard uses {x.id}")
        # "all formats failed" is a statement about counts / sets: a comparison of the failure map as a SEQUENCE depends on the order in which failures were
        # discovered (dict insertion order), which differs from any fixed order as soon as the first failing record is of another format
        for t in tests:
            for cmp_ in [x for x in ast.walk(t.ast) if isinstance(x, ast.Compare) and all(isinstance(o_, (ast.Eq, ast.NotEq)) for o_ in x.ops)]:
                sides = [cmp_.left] + list(cmp_.comparators)
                if not any("fail" in x.id for s_ in sides for x in ast.walk(s_) if isinstance(x, ast.Name)):
                    continue
                def _unordered(s_, others):
                    if isinstance(s_, ast.Constant):
                        return True
                    if isinstance(s_, ast.Call) and norm(s_.func) in ("len", "set", "frozenset", "sorted", "sum", "bool"):
                        return True
                    if isinstance(s_, ast.Call) and isinstance(s_.func, ast.Attribute) and s_.func.attr == "keys" and all((isinstance(o_, ast.Call) and (norm(o_.func) in ("set", "frozenset") or (isinstance(o_.func, ast.Attribute) and o_.func.attr == "keys"))) for o_ in others):
                        return True
                    return False
                bad_sides = [norm(s_) for i_, s_ in enumerate(sides) if not _unordered(s_, sides[:i_] + sides[i_ + 1:])]
                r5.check(not bad_sides, dh, cmp_, f"the exit-12 decision compares the failure bookkeeping as a sequence ({bad_sides}): the result depends on the order in which the failures were found, not on which formats failed", construct=f"exit-12 guard compares a sequence: {norm(cmp_)[:80]}")
        st = g.by_ast.get(id(_stmt(c)))
        var = _stmt(c).targets[0].id if isinstance(_stmt(c), ast.Assign) and isinstance(_stmt(c).targets[0], ast.Name) else None
        reaches = any(isinstance(r.ast.exc, ast.Name) and r.ast.exc.id == var for r in raises) if var else isinstance(_stmt(c), ast.Raise)
        r5.check(reaches, dh, c, "the exit-12 exception is constructed but never raised")
    for n in g.nodes:
        if n.kind == "loop" and isinstance(n.ast, ast.For):
            for o in pr.origins(n.ast.iter, dh):
                if is_call(o, "find_directory_hash_entries_for_path") or (o[0] == "attr" and o[2] == "hash_entries" and any(s[0] == "attr" and s[2] == "root_media_hash" for s in subterms(o))) or (o[0] == "attr" and o[2] == "hash_lists"):
                    r5.instance(dh, n.ast, f"for {norm(n.ast.target)} in {norm(n.ast.iter)}")
                    r5.check(is_plain_iter(p, n.ast.iter), dh, n.ast.iter, "recorded entries are compared over a slice / filtered view only", construct=n.ast.iter)
                    brk = [x for s in n.ast.body for x in ast.walk(s) if isinstance(x, ast.Break)]
                    r5.check(not [b for b in brk if _loop_of(b) is n.ast], dh, n.ast, "comparison loop over recorded entries can be left early (break)", construct=f"break in for {norm(n.ast.target)}")
                    break
    # every consumed verdict of the comparison helper reaches the failure map
    helpers = {t for c, tg in p.calls[dh.qual] for t in tg if t in p.funcs and p.funcs[t].outer is None and any("structure_hash_string" in norm(x) and isinstance(x, ast.Compare) for x in walk_no_nested(p.funcs[t].node))}
    n_verdicts = 0
    for call, tg in p.calls[dh.qual]:
        if any(t in helpers for t in tg):
            st = _stmt(call)
            if not (isinstance(st, ast.Assign) and len(st.targets) == 1 and isinstance(st.targets[0], ast.Name)):
                continue
            var = st.targets[0].id
            n_verdicts += 1
            r5.instance(dh, call, f"verdict {var} = {norm(call)[:60]}")
            cn = g.node_for(call)
            ok = False
            from sa.flow import defs_of

            dd = defs_of(dh)
            for t in g.nodes:
                if t.kind == "test" and any(isinstance(x, ast.Name) and x.id == var for x in ast.walk(t.ast)) and any(d[1] == cn.id for d in dd.reaching(var, t)):
                    for m, l in t.succ:
                        stops = {h.id for h in g.nodes if h.kind == "loop"} | {g.exit.id}
                        if m.id in map_signal_nodes or g.find_path(m, stops, avoid=map_signal_nodes) is None and m.id not in stops:
                            ok = True
            r5.check(ok, dh, call, f"the verdict `{var}` of the comparison is computed but no branch on it records a failure in the per-format failure map that decides exit 12", construct=f"verdict {var} does not reach the failure map")
            # the failure is booked under the format of the entry that was compared
            entry_arg = call.args[1] if len(call.args) > 1 else None
            if entry_arg is not None:
                esig = {sig(o, 3) for o in pr.origins(entry_arg, dh)}
                for t in g.nodes:
                    if t.kind == "test" and any(isinstance(x, ast.Name) and x.id == var for x in ast.walk(t.ast)) and any(d[1] == cn.id for d in dd.reaching(var, t)):
                        for sid in map_signal_nodes:
                            sn = g.nodes[sid]
                            if any(tt is t for tt, _ in g.control_deps(sn, transitive=False)):
                                karg = _signal_key(p, dh, sn.ast)
                                if karg is None:
                                    continue
                                good = all(o[0] == "attr" and o[2] == "hash_format" and sig(o[1], 3) in esig for o in pr.origins(karg, dh))
                                r5.check(good, dh, sn.ast, f"the failure of this comparison is booked under `{norm(karg)}`, which is not the format of the entry that was compared: with several recorded formats the per-format count never reaches the exit condition", construct="failure booked under a format other than the compared entry's", witness="; ".join(show(o)[:120] for o in pr.origins(karg, dh)))
    if n_verdicts == 0:
        raise AnalysisError("no consumed verdict of the directory comparison helper found")

    # ------------------------------------------------------------------ R9.6
    r6 = report.rule(
        "R9.6",
        "decision table of the comparison helper: evaluated over the two facts (recorded content digest == recomputed, recorded structure digest == recomputed), every value it can "
        "return when at least one differs is booked as a failure by every caller, and no value returned when both agree is; content is compared with content, structure with structure",
        2,
    )
    from sa.absint import UNKNOWN, Evaluator, returns_of
    from sa.flow import defs_of as _defs_of

    dd = _defs_of(dh)
    for hq in sorted(helpers):
        h = p.funcs[hq]
        # -- atoms: Eq / NotEq between a recorded digest field of the entry parameter and a recomputed-digest parameter
        atoms = {}

        def side_role(x):
            if isinstance(x, ast.Attribute) and isinstance(x.value, ast.Name) and x.value.id in h.params and x.attr in ("hash_string", "structure_hash_string"):
                return ("rec", x.attr)
            if isinstance(x, ast.Name) and x.id in h.params:
                return ("par", x.id)
            return None

        for n in walk_no_nested(h.node):
            if isinstance(n, ast.Compare) and len(n.ops) == 1 and isinstance(n.ops[0], (ast.Eq, ast.NotEq)):
                a, b = side_role(n.left), side_role(n.comparators[0])
                if a and b and {a[0], b[0]} == {"rec", "par"}:
                    rec, par = (a, b) if a[0] == "rec" else (b, a)
                    atoms.setdefault(rec[1], set()).add(par[1])
        if set(atoms) != {"hash_string", "structure_hash_string"} or any(len(v) != 1 for v in atoms.values()):
            raise AnalysisError(f"{hq}: comparison helper does not compare exactly (hash_string, structure_hash_string) with one parameter each: {atoms}")
        cpar, spar = next(iter(atoms["hash_string"])), next(iter(atoms["structure_hash_string"]))
        r6.instance(h, h.node, f"{h.name}: hash_string ~ {cpar}, structure_hash_string ~ {spar}")
        r6.check(cpar != spar, h, h.node, "recorded content and structure digests are compared with the same recomputed value", construct="both digests against one parameter")

        def mk_atom(ceq, seq):
            def atom(e, env):
                if isinstance(e, ast.Compare) and len(e.ops) == 1 and isinstance(e.ops[0], (ast.Eq, ast.NotEq)):
                    a, b = side_role(e.left), side_role(e.comparators[0])
                    if a and b and {a[0], b[0]} == {"rec", "par"}:
                        rec = a if a[0] == "rec" else b
                        eq = ceq if rec[1] == "hash_string" else seq
                        return eq if isinstance(e.ops[0], ast.Eq) else (not eq)
                return None

            return atom

        table = {}
        for ceq in (True, False):
            for seq in (True, False):
                vals = returns_of(h.node, mk_atom(ceq, seq), where=hq)
                if any(v is UNKNOWN for v in vals):
                    raise AnalysisError(f"{hq}: with content {'equal' if ceq else 'different'} / structure {'equal' if seq else 'different'} the helper returns a value that is not a constant of the two comparisons")
                table[(ceq, seq)] = sorted(set(vals), key=repr)
        report.extra.setdefault("comparison_decision_table", {})[hq] = {f"content_equal={c},structure_equal={s_}": v for (c, s_), v in table.items()}
        # -- callers: which returned values are booked as failure
        for call, tg in p.calls[dh.qual]:
            if hq not in tg:
                continue
            st = _stmt(call)
            if not (isinstance(st, ast.Assign) and len(st.targets) == 1 and isinstance(st.targets[0], ast.Name)):
                continue
            var = st.targets[0].id
            cn = g.node_for(call)
            r6.instance(dh, call, f"caller books {var}")
            b = p.bind_args(h, call)
            for par, want in ((cpar, "final_content_hash_str"), (spar, "final_structure_hash_str")):
                arg = b.get(par)
                os_ = [o for o in pr.origins(arg, dh) if not (o[0] == "const" and o[1] is None)] if arg is not None else []
                good = bool(os_) and all(any(s2[0] == "call" and s2[1].endswith(want) for s2 in subterms(o)) for o in os_)
                r6.check(good, dh, call, f"the value compared with the recorded {'content' if 'content' in want else 'structure'} digest (`{norm(arg) if arg is not None else '?'}`) is not the recomputed {'content' if 'content' in want else 'structure'} hash of the folder", construct=f"argument {par} is not {want}()")
            tests = [t for t in g.nodes if t.kind == "test" and any(isinstance(x, ast.Name) and x.id == var for x in ast.walk(t.ast)) and any(d[1] == cn.id for d in dd.reaching(var, t))]
            stops = {x.id for x in g.nodes if x.kind == "loop"} | {g.exit.id}

            def booked(val):
                ev = Evaluator()
                for t in tests:
                    names = {x.id for x in ast.walk(t.ast) if isinstance(x, ast.Name)}
                    if names - {var}:
                        continue
                    tv = ev.eval(t.ast, {var: val})
                    if tv is UNKNOWN:
                        continue
                    for m, l in t.succ:
                        if l == ("T" if tv else "F") and (m.id in map_signal_nodes or (m.id not in stops and g.find_path(m, stops, avoid=map_signal_nodes) is None)):
                            return True
                return False

            for (ceq, seq), vals in table.items():
                for v in vals:
                    bk = booked(v)
                    what = f"content {'equal' if ceq else 'DIFFERENT'}, structure {'equal' if seq else 'DIFFERENT'}"
                    if ceq and seq:
                        r6.check(not bk, dh, call, f"with both digests equal the helper returns {v!r}, which this caller books as a failure: exit 12 on an unchanged tree", construct=f"{what} -> {v!r} booked as failure")
                    else:
                        r6.check(bk, h, h.node, f"with {what} the helper returns {v!r}, which the caller at {dh.loc(call)} does not book as a failure: a folder whose {'content' if not ceq else 'structure'} hash changed verifies", construct=f"{what} -> {v!r} not booked as failure")
    fde = p.funcs.get("ascmhl.history.MHLHistory.find_directory_hash_entries_for_path")
    if fde is None:
        raise AnalysisError("find_directory_hash_entries_for_path not found")
    for n in walk_no_nested(fde.node):
        if isinstance(n, ast.For) and "hash_lists" in norm(n.iter):
            r5.instance(fde, n, f"for {norm(n.target)} in {norm(n.iter)}")
            r5.check(is_plain_iter(p, n.iter), fde, n.iter, "directory entries are collected from a slice of the generations only")
            r5.check(not [x for s in n.body for x in ast.walk(s) if isinstance(x, (ast.Break, ast.Return)) and _loop_of(x) is n], fde, n, "collection of recorded directory entries stops before the last generation", construct=f"early exit in for {norm(n.target)} in {norm(n.iter)}")

    # ------------------------------------------------------------------ R9.7
    r7 = report.rule(
        "R9.7",
        "the list of formats that all have to fail for exit 12 holds only formats for which directory hashes can be compared: the formats of recorded root-hash entries, "
        "or the -h option; the constant default is added only when that list is still empty after all generations were inspected (a format without any recorded "
        "directory hash can never fail, so its presence makes exit 12 unreachable)",
        2,
    )
    from .common import atomic_deps as _atomic

    fmt_lists = set()
    for n in walk_no_nested(dh.node):
        if isinstance(n, ast.Call) and norm(n.func) == "sorted" and n.args and isinstance(n.args[0], ast.Name):
            st = _stmt(n)
            if isinstance(st, ast.Assign) and "format" in norm(st.targets[0]):
                fmt_lists.add(n.args[0].id)
    if not fmt_lists:
        raise AnalysisError("verify -dh: the list of formats to verify (sorted into the format list) not found")
    for call, tg in p.calls[dh.qual]:
        if isinstance(call.func, ast.Attribute) and call.func.attr in ("append", "extend", "insert") and isinstance(call.func.value, ast.Name) and call.func.value.id in fmt_lists and call.args:
            r7.instance(dh, call, norm(call)[:80])
            arg = call.args[-1]
            in_gen_loop = any(isinstance(a, ast.For) and any(o[0] == "attr" and o[2] == "hash_lists" for o in pr.origins(a.iter, dh)) for a in _anc(call))
            at = set()
            for t, l in g.control_deps(g.node_for(call)):
                if t.kind == "test":
                    at |= set(_atomic(t.ast, l))
            for o in pr.origins(arg, dh):
                flat = []

                def _flatten(a, d=0):
                    if d > 8:
                        flat.append(a)
                    elif a[0] == "elem":
                        _flatten(a[1], d + 1)
                    elif a[0] == "alt":
                        for x in a[1]:
                            _flatten(x, d + 1)
                    elif a[0] == "op" and a[1] == "comp" and a[2]:
                        _flatten(a[2][-1], d + 1)  # the element expression of a comprehension
                    elif a[0] == "op" and a[1] in ("tuple", "list", "set", "collect-list", "collect-set", "elemof", "allof", "Add"):
                        for x in a[2]:
                            _flatten(x, d + 1)
                    elif a[0] == "call" and a[1] in ("builtin:sorted", "builtin:list", "builtin:set", "builtin:tuple", "builtin:reversed") and a[2]:
                        _flatten(a[2][0], d + 1)
                    else:
                        flat.append(a)

                _flatten(pr.inline(o, depth=2))
                for a in flat:
                    leaves = [a]
                    for lf in leaves:
                        if lf[0] == "attr" and lf[2] == "hash_format":
                            continue
                        if lf[0] == "param" and "format" in lf[2]:
                            if lf[1] != dh.qual:
                                # a helper's default value: resolve it
                                dflt = p.funcs[lf[1]].param_defaults().get(lf[2]) if lf[1] in p.funcs else None
                                if isinstance(dflt, ast.Constant) and isinstance(dflt.value, str):
                                    lf = ("const", dflt.value)
                                else:
                                    continue
                            else:
                                continue
                        if lf[0] == "const" and isinstance(lf[1], str):
                            guarded = any(a_ in ((call.func.value.id, "F"), (f"len({call.func.value.id}) == 0", "T")) for a_ in at)
                            r7.check(guarded and not in_gen_loop, dh, call, f"the constant format {lf[1]!r} is put on the list of formats to verify {'for a single generation' if in_gen_loop else 'unconditionally'}: when no directory hash of that format is recorded it can never fail, and `every format failed` - the exit-12 condition - can never hold", construct=f"constant format {lf[1]!r} added to the verify list")
                        elif lf[0] == "const":
                            continue
                        else:
                            raise AnalysisError(f"verify -dh: line {call.lineno}: a format put on the list of formats to verify has a provenance that is not understood ({sig(lf)})")
    # ... and the list is never empty when the verification starts: every path to its use passes an append, or leaves an emptiness test on the non-empty side
    for ln in sorted(fmt_lists):
        inits = [n for n in walk_no_nested(dh.node) if isinstance(n, ast.Assign) and any(isinstance(t, ast.Name) and t.id == ln for t in n.targets)]
        if not (inits and all(isinstance(i_.value, ast.List) and not i_.value.elts for i_ in inits)):
            raise AnalysisError(f"verify -dh: the list of formats to verify `{ln}` is not built in this function from an empty list (built by a helper?)")
        adds = {g.node_for(c).id for c, tg in p.calls[dh.qual] if isinstance(c.func, ast.Attribute) and c.func.attr in ("append", "extend", "insert") and isinstance(c.func.value, ast.Name) and c.func.value.id == ln and not any(isinstance(a, (ast.For, ast.While)) for a in _anc(c))}
        uses = [g.node_for(n) for n in walk_no_nested(dh.node) if isinstance(n, ast.Call) and norm(n.func) == "sorted" and n.args and isinstance(n.args[0], ast.Name) and n.args[0].id == ln]

        def follow(a, b, lab, ln=ln):
            if a.kind == "test" and lab in ("T", "F"):
                if (ln, lab) in _atomic(a.ast, lab) and lab == "T":
                    return False  # `if L:` taken on the true side: non-empty
                if (ln, "T") in _atomic(a.ast, lab) or (f"len({ln}) == 0", "F") in _atomic(a.ast, lab) or (f"len({ln}) > 0", "T") in _atomic(a.ast, lab):
                    return False
            return True

        reach = g.reachable_from([g.node_for(i_) for i_ in inits], avoid=adds, follow=follow)  # from every (re-)initialisation to the use
        for u in uses:
            r7.instance(dh, u.ast, f"verification starts from sorted({ln})")
            r7.check(u.id not in reach, dh, u.ast, f"the list of formats to verify can be empty when the verification starts (a path reaches `sorted({ln})` without any append): nothing is compared and verify -dh exits 0 whatever the tree looks like", construct=f"verify-format list {ln} can be empty")
    r7.check(True, dh, dh.node, "")

    # ------------------------------------------------------------------ R9.10
    r10 = report.rule(
        "R9.10",
        "a class that declares `__slots__` lists every attribute the package ever stores on its instances (including the ones other modules attach later, e.g. the temporary "
        "generation / root-folder marks that verify -dh puts on hash entries): a store to an unlisted name raises AttributeError in the middle of the command",
        3,
    )
    self_fields = {}  # class -> names stored through self in its own methods
    for cq, c in p.classes.items():
        names = set()
        for m in c.methods.values():
            for n in walk_no_nested(m.node):
                if isinstance(n, ast.Attribute) and isinstance(n.ctx, ast.Store) and isinstance(n.value, ast.Name) and n.value.id == "self":
                    names.add(n.attr)
        self_fields[cq] = names
    for cq, c in sorted(p.classes.items()):
        r10.instance(None, c.node, f"{cq}: {'__slots__' if any(isinstance(st, ast.Assign) and any(isinstance(t, ast.Name) and t.id == '__slots__' for t in st.targets) for st in c.node.body) else 'no __slots__'}")
        slots = None
        for st in c.node.body:
            if isinstance(st, ast.Assign) and any(isinstance(t, ast.Name) and t.id == "__slots__" for t in st.targets):
                v = p.fold(st.value, None, c.module)
                slots = set([v] if isinstance(v, str) else v) if isinstance(v, (str, list, tuple)) else None
                if slots is None:
                    raise AnalysisError(f"{cq}: __slots__ is not a constant")
        if slots is None or "__dict__" in slots:
            continue
        if any(b not in p.classes for b in p.mro(cq)[1:]) and p.ext_bases(cq) not in ([], ["object"], ["builtins.object"]):
            continue  # a base outside the package may provide a __dict__
        if any("__slots__" not in norm(p.classes[b].node) for b in p.mro(cq)[1:] if b in p.classes):
            continue  # a package base without __slots__ gives every instance a __dict__
        for nm in sorted(self_fields[cq] - slots):
            r10.check(False, None, c.node, f"{cq.split('.')[-1]} declares __slots__ without `{nm}`, which its own methods assign", construct=f"{cq.split('.')[-1]}: slot {nm} missing")
        others = set().union(*[v for k, v in self_fields.items() if k != cq]) if len(self_fields) > 1 else set()
        for fq, f in sorted(p.funcs.items()):
            if f.cls == cq:
                continue
            for n in walk_no_nested(f.node):
                if isinstance(n, ast.Attribute) and isinstance(n.ctx, ast.Store) and n.attr not in slots:
                    try:
                        t = p.etype(n.value, f)
                    except Exception:
                        t = None
                    typed = bool(t) and t[0] == "C" and t[1] in [cq] + list(p.subclasses(cq))
                    untyped_guess = not t and n.attr not in others and not (isinstance(n.value, ast.Name) and n.value.id == "self")
                    # an attribute that no class of the package has as a field and that is attached to a value whose class is one of the slotted ones by provenance
                    if typed or (untyped_guess and any(any(st_[0] == "attr" and st_[2] in ("hash_entries",) for st_ in subterms(o)) for o in pr.origins(n.value, f)) and cq.endswith("MHLHashEntry")):
                        r10.check(False, f, n, f"`{norm(n)} = …` stores an attribute that {cq.split('.')[-1]}.__slots__ does not list: AttributeError as soon as this statement runs (verify -dh on a tree with a nested history that has a root hash)", construct=f"{cq.split('.')[-1]}: store of unlisted attribute {n.attr}")
    r10.check(True, None, None, "")

    # ------------------------------------------------------------------ R9.9
    r9 = report.rule(
        "R9.9",
        "the directory entries a folder is compared with are those of the history that was asked: find_directory_hash_entries_for_path collects entries from the generations of `self` only "
        "(no loop over child histories): the root hashes of a grandchild history describe the grandchild's folder, not this one - comparing them makes an untouched tree exit 12",
        1,
    )
    fde = p.funcs.get("ascmhl.history.MHLHistory.find_directory_hash_entries_for_path")
    if fde is None:
        raise AnalysisError("MHLHistory.find_directory_hash_entries_for_path not found")
    n_loops = 0
    for lp in [n for n in walk_no_nested(fde.node) if isinstance(n, ast.For)]:
        txt = norm(lp.iter)
        collects = any(isinstance(x, (ast.Assign, ast.AugAssign)) and "entries" in norm(x.targets[0] if isinstance(x, ast.Assign) else x.target) or (isinstance(x, ast.Call) and isinstance(x.func, ast.Attribute) and x.func.attr in ("append", "extend") and "entries" in norm(x.func.value)) for st in lp.body for x in ast.walk(st))
        if not collects:
            continue
        n_loops += 1
        r9.instance(fde, lp, f"for {norm(lp.target)} in {txt[:50]}")
        other = any(k in txt for k in ("child_histor", "walk_child", "parent_history", "referenced_hash_lists"))
        for o in pr.origins(lp.iter, fde):
            if any(st_[0] == "call" and st_[1].endswith(("walk_child_histories",)) or (st_[0] == "attr" and st_[2] in ("child_histories", "child_history_mappings")) for st_ in subterms(o)):
                other = True
        r9.check(not other, fde, lp.iter, f"directory entries are collected while iterating `{txt[:60]}` - histories other than the one that was asked: a folder is then compared with the root hashes of histories nested below it, which describe other folders", construct="directory entries collected from other histories")
    if n_loops == 0:
        raise AnalysisError("find_directory_hash_entries_for_path: the loops that collect the entries were not found")

    # ------------------------------------------------------------------ R9.8
    r8 = report.rule(
        "R9.8",
        "exit 12 needs a failure booked for EVERY format on the verify list, and the root comparison is where each format gets its verdict: the loops that collect the formats and "
        "that compare the root hashes go through every generation and every recorded root entry (no slice, filter or truncation; order does not matter)",
        3,
    )

    def _strip_order(it):
        while True:
            if isinstance(it, ast.Call) and norm(it.func) in ("reversed", "sorted", "list", "tuple") and len(it.args) == 1:
                it = it.args[0]
            elif isinstance(it, ast.Subscript) and isinstance(it.slice, ast.Slice) and it.slice.lower is None and it.slice.upper is None:
                it = it.value
            else:
                return it

    n_root_loops = 0
    for lp in [n for n in walk_no_nested(dh.node) if isinstance(n, ast.For)]:
        base = _strip_order(lp.iter)
        kinds = set()
        for o in pr.origins(base, dh):
            for a in alts(o):
                if a[0] == "attr" and a[2] == "hash_lists":
                    kinds.add("generations")
                if a[0] == "attr" and a[2] == "hash_entries" and any(x[0] == "attr" and x[2] == "root_media_hash" for x in subterms(a)):
                    kinds.add("root entries")
        # a sliced / filtered view keeps the provenance of its base: look at the base expression too
        txt = norm(lp.iter)
        if not kinds and ("hash_lists" in txt):
            kinds.add("generations")
        if not kinds and ("root_media_hash.hash_entries" in txt or "root_hash_entries" in txt):
            kinds.add("root entries")
        if not kinds:
            continue
        n_root_loops += 1
        r8.instance(dh, lp, f"for {norm(lp.target)} in {txt[:50]} ({', '.join(sorted(kinds))})")
        r8.check(is_plain_iter(p, base), dh, lp.iter, f"`for {norm(lp.target)} in {txt[:50]}` does not go through all {' / '.join(sorted(kinds))}: a format whose root entry is passed over never gets a failure booked, so `every format failed` cannot hold and a changed tree exits 0", construct=f"partial loop over {' / '.join(sorted(kinds))}: {txt[:40]}")
    if n_root_loops < 3:
        raise AnalysisError(f"verify -dh: the loops over generations / root entries (format collection and root comparison) were not found ({n_root_loops})")

    # ---- rules shared with other properties (same mechanism, same rule, reported under every property it can break)
    # ------------------------------------------------------------------ R9.12
    r12 = report.rule(
        "R9.12",
        "every generation's directory hashes were computed under THAT generation's ignore patterns: a verification that compares the hashes computed in this run with the "
        "entries of every generation (find_directory_hash_entries_for_path goes through all of them) must compute them per generation's patterns, or compare only "
        "generations whose patterns equal the effective ones - computed once under the latest patterns, an untouched tree fails against every generation written "
        "before a pattern was added",
        1,
    )
    vdh = next((f for f in p.funcs.values() if f.name == "verify_directory_hash_subcommand"), None)
    if vdh is None:
        raise AnalysisError("verify_directory_hash_subcommand not found")
    reach12 = set(p.reachable([vdh.qual]))
    all_gens = any(q.endswith("find_directory_hash_entries_for_path") for q in reach12)
    r12.instance(vdh, vdh.node, "verify -dh: reference entries vs. ignore patterns")
    if all_gens:
        # does anything on the verify -dh side read the patterns of an individual generation (hash_list.process_info.ignore_spec) to restrict or recompute?
        per_gen = False
        for q in reach12:
            f12 = p.funcs[q]
            if not f12.module.name.endswith(("commands", "history")) or f12.name in ("latest_ignore_patterns", "commit", "write_new_generation"):
                continue
            for n in walk_no_nested(f12.node):
                if isinstance(n, ast.Attribute) and n.attr == "ignore_spec" and isinstance(n.ctx, ast.Load) and isinstance(n.value, ast.Attribute) and n.value.attr == "process_info":
                    per_gen = True
        r12.check(per_gen, vdh, vdh.node, "verify -dh computes the directory hashes once, under the patterns of the LATEST generation (plus -i / -ii), and compares them with the recorded entries of EVERY generation: after `create ROOT` (x.tmp present) and `create ROOT -i '*.tmp'`, `verify -dh ROOT` on the untouched tree reports a content and structure mismatch against generation 1 and exits 12", construct="all generations compared under the latest patterns")
    else:
        r12.check(True, vdh, vdh.node, "")

    include_rules(report, p, 'c03', ['R3.19'], 'verify -dh must reach its exit decision on every tree: a summary that divides by the number of compared records raises on a flat unchanged folder')
    include_rules(report, p, 'c03', ['R3.16'], 'verify -dh decides its exit code after the traversal: a TypeError from sorting collected records ends the command with exit 1 instead of 12')
    include_rules(report, p, 'c06', ['R6.3'], 'the loader recognises every manifest name the tool generates, for every folder name: a generation that is silently passed over makes the history look shorter or empty' + ' - verify -dh then exits 0 on any change')
    include_rules(report, p, 'c03', ['R3.11'], 'verify -dh reports every mismatch through the logger before it decides its exit code')
    include_rules(report, p, 'c07', ['R7.1', 'R7.2', 'R7.3', 'R7.4'], 'verify -dh recomputes directory hashes with the same context wiring')
    include_rules(report, p, 'c03', ['R3.9'], 'verify dispatches -dh to its worker on every path')
    include_rules(report, p, 'c01', ['R1.1'], 'file digests feeding the directory hashes must cover the whole file')
    include_rules(report, p, 'c02', ['R2.1'], 'verify -dh walks the tree with the same traversal: the folder paths it yields are join(<start as given>, names), which the root-folder test compares with the start path')
    report.not_decided += ["that every change alters a directory hash (C07, collision resistance)", "verdicts for concrete trees"]


def _anc(n):
    x = parent(n)
    while x is not None:
        yield x
        x = parent(x)


def _signal_key(p, dh, st):
    """the expression naming the format under which a failure-map update books the failure"""
    if isinstance(st, ast.Assign):
        for t in st.targets:
            if isinstance(t, ast.Subscript):
                return t.slice
        return None
    if isinstance(st, ast.Expr) and isinstance(st.value, ast.Call):
        c = st.value
        if isinstance(c.func, ast.Attribute) and c.func.attr in ("setdefault", "update") and c.args:
            return c.args[0]
        for t in [t for c2, ts in p.calls[dh.qual] if c2 is c for t in ts]:
            hf = p.funcs.get(t)
            if hf is None:
                continue
            if hf.outer is dh:
                return c.args[0] if c.args else None
            b = p.bind_args(hf, c)
            # the parameter the helper uses as subscript key of the mapping parameter
            for x in walk_no_nested(hf.node):
                if isinstance(x, ast.Assign):
                    for tt in x.targets:
                        if isinstance(tt, ast.Subscript) and isinstance(tt.value, ast.Name) and isinstance(b.get(tt.value.id), ast.Name) and "fail" in b[tt.value.id].id and isinstance(tt.slice, ast.Name) and tt.slice.id in b:
                            return b[tt.slice.id]
        return c.args[0] if c.args else None
    return None


def _recorded_key_subscripts(p, pr, dh):
    out = []
    for n in walk_no_nested(dh.node):
        if isinstance(n, ast.Subscript) and isinstance(n.ctx, ast.Load):
            korig = pr.origins(n.slice, dh)
            recorded = any(any((is_call(s, "find_directory_hash_entries_for_path")) or (s[0] == "attr" and s[2] == "root_media_hash") for s in subterms(o)) for o in korig)
            if not recorded:
                continue
            dorig = pr.origins(n.value, dh)
            if any(any(s[0] == "op" and s[1].startswith("collect-dict") for s in subterms(o)) for o in dorig):
                out.append(n)
    return out


def _vars_fed_by_unguarded_recorded_keys(p, pr, dh, g):
    out = set()
    for n in _recorded_key_subscripts(p, pr, dh):
        st = _stmt(n)
        if isinstance(st, ast.Assign) and len(st.targets) == 1 and isinstance(st.targets[0], ast.Name) and st.value is n:
            out.add(st.targets[0].id)
    return out


def _depends_on_flagged(g, dh, cn, flagged_vars):
    """the log node is control dependent on a flag that is only set where a flagged variable is truthy"""
    if not flagged_vars:
        return False
    for t in g.nodes:
        if t.kind != "test" or not g.dominates(t, cn):
            continue
        names = {x.id for x in ast.walk(t.ast) if isinstance(x, ast.Name)}
        if names & flagged_vars:
            return True
        for fname in names:
            sets = [n for n in g.nodes if n.kind == "stmt" and isinstance(n.ast, ast.Assign) and any(isinstance(x, ast.Name) and x.id == fname for x in n.ast.targets) and isinstance(n.ast.value, ast.Constant) and n.ast.value.value is True]
            for sn in sets:
                for t2 in g.nodes:
                    if t2.kind == "test" and g.dominates(t2, sn) and ({x.id for x in ast.walk(t2.ast) if isinstance(x, ast.Name)} & flagged_vars):
                        return True
    return False


def _stmt(n):
    x = n
    while x is not None and not isinstance(x, ast.stmt):
        x = parent(x)
    return x


def _loop_of(n):
    x = parent(n)
    while x is not None and not isinstance(x, (ast.For, ast.While)):
        if isinstance(x, (ast.FunctionDef,)):
            return None
        x = parent(x)
    return x


def _same_test_guard(n, inner):
    """`x.f is not None and len(x.f.g) > 0`: the None test is an earlier operand of the same `and`"""
    x = parent(n)
    prev = n
    while x is not None and not isinstance(x, ast.stmt):
        if isinstance(x, ast.BoolOp) and isinstance(x.op, ast.And):
            idx = next((i for i, v in enumerate(x.values) if any(y is prev for y in ast.walk(v))), None)
            if idx is not None:
                for v in x.values[:idx]:
                    if norm(v) in (f"{norm(inner)} is not None", f"{norm(inner)} != None", norm(inner)):
                        return True
        prev, x = x, parent(x)
    return False


def _literal_prefix(e):
    if isinstance(e, ast.Constant) and isinstance(e.value, str):
        return e.value
    if isinstance(e, ast.JoinedStr) and e.values and isinstance(e.values[0], ast.Constant):
        return str(e.values[0].value)
    return ""


def finish(report):
    return report.finish(
        level="other",
        explanation="Engler-style consistency rules on verify -dh: a result checked at one site and ignored at another, error logs without a failure signal, "
        "dereference of a field the writer may omit, recorded keys into a computed dictionary; plus def-use of the failure map to the exit-12 raise.",
    )
