"""C07 - directory hashes follow the compositional definition (structural clauses: argument wiring, order, coverage)."""
from __future__ import annotations

import ast

from sa.cfg import cfg_of
from sa.emit import Elem, Rep, walk_elems
from sa.flow import show, sig, subterms
from sa.model import AnalysisError, norm, parent, walk_no_nested

from .common import include_rules, alts, callers_of, commands, is_call, is_plain_iter, prov, unshipped_modules
from .xmlcommon import documents

CTX = "ascmhl.hasher.DirectoryHashContext"


def run(report, p):
    pr = prov(p)
    cmds = commands(p)
    if CTX not in p.classes:
        raise AnalysisError("DirectoryHashContext not found")
    ctx = p.classes[CTX]
    report.assume("digests of the children are correct (C01) and the traversal yields exactly the non-ignored entries (C02/C12)")

    # ------------------------------------------------------------------ R7.1
    r1 = report.rule(
        "R7.1",
        "context wiring: a file child adds its content digest to the content list and H(name bytes + decoded content digest) to the structure list; a directory child adds its CONTENT hash to the content list "
        "and H(name bytes + decoded STRUCTURE hash) to the structure list; name = basename(normpath(path)) in UTF-8; both final hashes are the list hash of the respective list",
        4,
    )
    fm = ctx.methods.get("append_file_hash")
    dm = ctx.methods.get("append_directory_hashes")
    if fm is None or dm is None:
        raise AnalysisError("DirectoryHashContext.append_file_hash / append_directory_hashes not found")
    from sa.flow import substitute

    def collect_appends(m, depth=0):
        """(list attribute, value term in terms of m's parameters, node, func) for every self.<list>.append(...) in m and in
        same-class helpers it calls (parameters of helpers bound to the actual arguments)"""
        out = []
        for n in walk_no_nested(m.node):
            if isinstance(n, ast.Call) and isinstance(n.func, ast.Attribute) and n.func.attr == "append" and isinstance(n.func.value, ast.Attribute) and norm(n.func.value.value) == m.params[0] and n.args:
                for o in pr.origins(n.args[0], m):
                    out.append((n.func.value.attr, o, n, m))
        if depth < 2:
            for c, tg in p.calls[m.qual]:
                for t in tg:
                    if t in p.funcs and p.funcs[t].cls == m.cls and t != m.qual and isinstance(c.func, ast.Attribute) and norm(c.func.value) == m.params[0]:
                        h = p.funcs[t]
                        b = p.bind_args(h, c)
                        binding = {}
                        for pn, a in b.items():
                            if a is not None:
                                os_ = pr.origins(a, m) if any(x is a for x in ast.walk(c)) else []
                                if len(os_) == 1:
                                    binding[(h.qual, pn)] = os_[0]
                        for (la, term, node, fn) in collect_appends(h, depth + 1):
                            out.append((la, substitute(term, binding), node, fn))
        return out

    for m, kind in ((fm, "file"), (dm, "dir")):
        r1.instance(m, m.node, f"{kind} child method")
        evs = collect_appends(m)
        capp = [e for e in evs if "content" in e[0]]
        sapp = [e for e in evs if "structure" in e[0]]
        if not evs:
            raise AnalysisError(f"{m.qual}: no append to the content / structure lists found (neither here nor in a helper method)")
        r1.check(len(capp) == 1 and len(sapp) == 1 and len(evs) == 2, m, m.node, f"the method adds {len(capp)} value(s) to the content list and {len(sapp)} to the structure list; the definition needs exactly one each", construct=f"{kind}: appends")
        for (la, o, node, fn) in capp:
            r1.check(o[0] == "param" and o[1] == m.qual and o[2] == m.params[2], fn, node, f"the content list receives `{show(o)[:60]}` instead of the child's content digest", construct=f"{kind}: content list source", witness=show(o)[:120])
        want_param = m.params[2] if kind == "file" else m.params[3]
        for (la, o, node, fn) in sapp:
            ok, why = True, ""
            if not (is_call(o, "hash_data") and len(o[2]) == 1):
                ok, why = False, "structure entry is not hash_data(<bytes>)"
            elif not (o[5] is not None and o[5][0] == "attr" and o[5][2] == "hasher"):
                ok, why = False, "structure entry is not hashed with the context's own hasher"
            else:
                a = o[2][0]
                if not (a[0] == "op" and a[1] == "Add" and len(a[2]) == 2):
                    ok, why = False, "hashed bytes are not <name bytes> + <digest bytes>"
                else:
                    name_t, dig_t = a[2]
                    name_ok = name_t[0] == "call" and name_t[1].endswith(".encode") and name_t[5] is not None and is_call(name_t[5], "os.path.basename") and is_call(name_t[5][2][0], "os.path.normpath") and name_t[5][2][0][2][0][0] == "param" and name_t[5][2][0][2][0][1] == m.qual and name_t[5][2][0][2][0][2] == m.params[1] and name_t[2] and name_t[2][0][0] == "const" and str(name_t[2][0][1]).lower().replace("-", "") == "utf8"
                    if not name_ok:
                        ok, why = False, f"the bound name is not basename(normpath(path)).encode('utf8'): {show(name_t)[:100]}"
                    else:
                        dig_ok = is_call(dig_t, "bytes_from_string_digest") and dig_t[2] and dig_t[2][0][0] == "param" and dig_t[2][0][1] == m.qual and dig_t[2][0][2] == want_param and dig_t[5] is not None and dig_t[5][0] == "attr" and dig_t[5][2] == "hasher"
                        if not dig_ok:
                            bound = dig_t[2][0][2] if is_call(dig_t, "bytes_from_string_digest") and dig_t[2] and dig_t[2][0][0] == "param" else show(dig_t)[:60]
                            ok, why = False, f"the name is bound to `{bound}`; the definition binds it to the child's {'content digest' if kind == 'file' else 'STRUCTURE hash'} (`{want_param}`), decoded to bytes with the context's hasher"
            r1.check(ok, fn, node, f"{kind} child: {why}", construct=f"{kind}: structure entry wiring", witness=show(o)[:200])
    for name, lst in (("final_content_hash_str", "content"), ("final_structure_hash_str", "structure")):
        m = ctx.methods.get(name)
        if m is None:
            raise AnalysisError(f"DirectoryHashContext.{name} not found")
        r1.instance(m, m.node, name)
        rets = [n for n in walk_no_nested(m.node) if isinstance(n, ast.Return)]
        ok = len(rets) == 1 and all(is_call(o, "hash_of_hash_list") and o[2] and o[2][0][0] == "attr" and lst in o[2][0][2] and o[5] is not None and o[5][0] == "attr" and o[5][2] == "hasher" for o in pr.origins(rets[0].value, m))
        r1.check(ok, m, rets[0] if rets else m.node, f"{name} is not the list hash of the {lst} list computed with the context's hasher", construct=name)
    init = ctx.methods.get("__init__")
    it = norm(init.node)
    r1.check("new_hasher_for_hash_type(hash_format)" in it.replace(init.params[1], "hash_format") and it.count("= []") == 2, init, init.node, "a context does not start with a hasher of its own format and two empty lists", construct="context init")

    # ------------------------------------------------------------------ R7.2
    r2 = report.rule("R7.2", "list hash: sort, then for EVERY element decode with the class's own decoder and update; the empty list hashes as the empty input; the digest comes from the hasher that was fed; no hasher class overrides it with something that drops or merges elements", 1)
    hl = p.funcs.get("ascmhl.hasher.Hasher.hash_of_hash_list")
    if hl is None:
        raise AnalysisError("Hasher.hash_of_hash_list not found")
    # sibling implementations: an override in a subclass must hand the very list (at most re-ordered) to the base implementation
    for cq in p.subclasses("ascmhl.hasher.Hasher"):
        ov = p.classes[cq].methods.get("hash_of_hash_list") if cq in p.classes else None
        if ov is None or ov is hl:
            continue
        r2.instance(ov, ov.node, f"override in {cq.split('.')[-1]}")
        lstp = [x for x in ov.params if x not in ("self", "cls")]
        supers = [n for n in walk_no_nested(ov.node) if isinstance(n, ast.Call) and isinstance(n.func, ast.Attribute) and n.func.attr == "hash_of_hash_list" and "super()" in norm(n.func.value)]
        if len(supers) != 1 or len(lstp) != 1 or not supers[0].args:
            raise AnalysisError(f"{ov.qual}: an override of the list hash that does not delegate to the base implementation is not modelled")
        a = supers[0].args[0]
        while isinstance(a, ast.Call) and norm(a.func) in ("sorted", "list", "tuple") and len(a.args) == 1 and not a.keywords:
            a = a.args[0]
        r2.check(isinstance(a, ast.Name) and a.id == lstp[0], ov, supers[0], f"{cq.split('.')[-1]} hashes `{norm(supers[0].args[0])[:50]}` instead of the list of child digests it was given: elements are dropped or merged (a `set` removes equal digests - two children with the same content count once, and {{X,X,Y}} hashes like {{X,Y,Y}})", construct=f"{cq.split('.')[-1]}.hash_of_hash_list alters the list")
    g = cfg_of(hl)
    r2.instance(hl, hl.node, "hash_of_hash_list")
    lst = hl.params[1]
    loops = [n for n in walk_no_nested(hl.node) if isinstance(n, ast.For)]
    sorts = [n for n in walk_no_nested(hl.node) if isinstance(n, ast.Call) and ((isinstance(n.func, ast.Attribute) and n.func.attr == "sort" and norm(n.func.value) == lst) or (norm(n.func) == "sorted" and n.args and norm(n.args[0]) == lst))]
    ok = len(loops) == 1 and len(sorts) == 1 and not sorts[0].keywords
    if ok:
        srt = sorts[0]
        if norm(srt.func) == "sorted":
            ok = parent(srt) is loops[0] or (isinstance(parent(srt), ast.Assign) and norm(loops[0].iter) == norm(parent(srt).targets[0]))
        else:
            ok = g.dominates(g.node_for(srt), g.by_ast[id(loops[0])]) and norm(loops[0].iter) == lst
    r2.check(ok, hl, sorts[0] if sorts else hl.node, "the digests are not put into sorted order (plain sort, no key) before they are hashed: the directory hash would depend on enumeration / insertion order", construct="sort before hashing")
    if loops:
        lp = loops[0]
        r2.check(is_plain_iter(p, lp.iter) or norm(lp.iter).startswith("sorted("), hl, lp.iter, "the list hash covers only a slice of the digests", construct=lp.iter)
        body_ok = len(lp.body) == 1 and isinstance(lp.body[0], ast.Expr) and isinstance(lp.body[0].value, ast.Call) and norm(lp.body[0].value.func).endswith(".update") and len(lp.body[0].value.args) == 1 and norm(lp.body[0].value.args[0]) == f"cls.bytes_from_string_digest({norm(lp.target)})"
        r2.check(body_ok, hl, lp, "each digest is not decoded with the class's own decoder and fed to the hasher (e.g. the text of the digest is hashed instead of its bytes, or an element is skipped)", construct="list hash loop body")
        upd_recv = norm(lp.body[0].value.func.value) if body_ok else None
        rets = [n for n in walk_no_nested(hl.node) if isinstance(n, ast.Return)]
        r2.check(all(isinstance(r.value, ast.Call) and norm(r.value.func) == f"{upd_recv}.string_digest" for r in rets) and len(rets) >= 1, hl, rets[0] if rets else hl.node, "the list hash is not the digest of the hasher that was fed", construct="list hash result")
        news = [n for n in walk_no_nested(hl.node) if isinstance(n, ast.Assign) and norm(n.targets[0]) == upd_recv]
        r2.check(len(news) == 1 and norm(news[0].value) == "cls()", hl, news[0] if news else hl.node, "the list hasher is not a fresh hasher of the same class", construct="list hasher creation")
        early = [r for r in rets if not g.dominates(g.by_ast[id(lp)], g.node_for(r))]
        for r in early:
            deps = [(norm(t.ast).replace(" ", ""), l) for t, l in g.control_deps(g.node_for(r)) if t.kind == "test"]
            r2.check(deps in ([(f"len({lst})==0", "T")], [(f"not{lst}", "T")]), hl, r, f"early return under {deps}: only the empty list may bypass the loop", construct=f"early return {deps}")

    # ------------------------------------------------------------------ R7.3 / R7.4 / R7.5  (two siblings)
    r3 = report.rule("R7.3", "call-site wiring in create and verify -dh: a directory child hands (path, content lookup[fmt], structure lookup[fmt]) of the child folder to the context of the SAME format; "
                     "the lookups were stored from final_content_hash_str()/final_structure_hash_str() under the folder path; a file's digest goes to the context of its own format", 4)
    r4 = report.rule("R7.4", "coverage: every traversed child contributes exactly once - the context calls depend only on the child kind (and on directory hashes being enabled), never on the value being added", 4)
    sites_dir = callers_of(p, dm.qual)
    sites_file = callers_of(p, fm.qual)
    funcs = sorted({cf.qual for cf, _ in sites_dir + sites_file})
    for fq in funcs:
        f = p.funcs[fq]
        g = cfg_of(f)
        # classify the per-folder mappings by what is stored into them
        roles = {}
        for n in walk_no_nested(f.node):
            if isinstance(n, ast.Assign) and isinstance(n.targets[0], ast.Subscript):
                tgt = n.targets[0]
                base = tgt.value
                while isinstance(base, (ast.Subscript, ast.Call)):
                    if isinstance(base, ast.Call):
                        if isinstance(base.func, ast.Attribute) and base.func.attr in ("setdefault", "get"):
                            base = base.func.value
                        else:
                            break
                    else:
                        base = base.value
                vals = [n.value] if not isinstance(n.value, ast.Dict) else list(n.value.values)
                for v in vals:
                    for o in pr.origins(v, f):
                        for s in subterms(o):
                            if is_call(s, "final_content_hash_str"):
                                roles.setdefault(norm(base), set()).add("content")
                            if is_call(s, "final_structure_hash_str"):
                                roles.setdefault(norm(base), set()).add("structure")
        for cf, call in sites_dir:
            if cf is not f:
                continue
            r3.instance(f, call, norm(call)[:110])
            lp = next((a for a in _anc(call) if isinstance(a, ast.For)), None)
            key = ctxvar = None
            if lp is not None and isinstance(lp.target, ast.Tuple) and len(lp.target.elts) == 2 and norm(lp.iter).endswith(".items()"):
                key, ctxvar = norm(lp.target.elts[0]), norm(lp.target.elts[1])
            okr = key is not None and norm(call.func.value) == ctxvar
            r3.check(okr, f, call, "the directory child is not added inside a loop over the per-format contexts with the loop's own context as receiver", construct="dir child: receiver")
            if okr and len(call.args) == 3:
                for idx, want in ((1, "content"), (2, "structure")):
                    a = call.args[idx]
                    a = _resolve(f, a, call)
                    okk = isinstance(a, ast.Subscript) and norm(a.slice) == key
                    src_role = None
                    if isinstance(a, ast.Subscript):
                        for o in pr.origins(a.value, f):
                            for s in subterms(o):
                                if s[0] == "call" and s[1].endswith(".pop") and s[5] is not None:
                                    for nm, rl in roles.items():
                                        if nm in show(s[5]) or any(x[0] == "op" and x[1].startswith("collect") for x in subterms(s[5])):
                                            pass
                        # name-based resolution of the popped mapping
                        popped = _popped_mapping(f, a.value)
                        src_role = roles.get(popped)
                    r3.check(okk, f, call, f"argument {idx + 1} is `{norm(call.args[idx])}`: the child's {want} hash must be looked up with the same format key as the receiving context (`{key}`)", construct=f"dir child arg {idx + 1} key")
                    r3.check(src_role == {want}, f, call, f"argument {idx + 1} of the directory child comes from the mapping that stores {sorted(src_role) if src_role else 'nothing recognisable'}; the definition needs the child's {want} hash there", construct=f"dir child arg {idx + 1} source role")
                    popkey = _popped_key(f, a.value) if isinstance(a, ast.Subscript) else None
                    r3.check(popkey is not None and popkey == norm(call.args[0]), f, call, f"the {want} lookup is not the entry stored for this child folder (popped with `{popkey}`, child path `{norm(call.args[0])}`)", construct=f"dir child arg {idx + 1} folder key")
            cn = g.node_for(call)
            deps = [(norm(t.ast), l) for t, l in g.control_deps(cn) if t.kind == "test"]
            extra = [(d, l) for d, l in deps if not ((d == "is_dir" and l == "T") or (d in ("no_directory_hashes",) and l == "F") or (d == "dir_hash_context_lookup" and l == "T"))]
            r4.instance(f, call, f"dir child under {deps}")
            r4.check(not extra, f, call, f"a sub-directory contributes to its parent's hash only under {extra}", construct=f"dir child conditional on {extra}")
        for cf, call in sites_file:
            if cf is not f:
                continue
            r3.instance(f, call, norm(call)[:110])
            okf = _file_site_key_consistent(p, pr, f, call)
            r3.check(okf[0], f, call, "a file digest is added to a context of a different format: " + okf[1], construct="file child: format key")
            cn = g.node_for(call)
            deps = [(norm(t.ast), l) for t, l in g.control_deps(cn) if t.kind == "test"]
            extra = [(d, l) for d, l in deps if not ((d == "is_dir" and l == "F") or (d == "no_directory_hashes" and l == "F") or (d in ("dir_hash_context is not None", "dir_hash_context") and l == "T"))]
            r4.instance(f, call, f"file child under {deps}")
            r4.check(not extra, f, call, f"a file contributes to its folder's hash only under {extra}: files for which the condition fails silently drop out of the directory and root hashes", construct=f"file child conditional on {extra}")
            # path argument = the traversed child path
            a0 = pr.origins(call.args[0], f)
            r3.check(all(is_call(o, "os.path.join") and len(o[2]) == 2 and all(x[0] == "elem" for x in o[2]) for o in a0), f, call, "the name bound into the structure hash is not the traversed child's path", witness="; ".join(show(o)[:100] for o in a0), construct="file child: path")
        # children first: stored under folder_path, popped under child path (R7.5)
    r5 = report.rule("R7.5", "children before parents: each folder's final hashes are stored under the folder path after its children were processed and popped by the parent under the child's path", 2)
    for fq in funcs:
        f = p.funcs[fq]
        pops = [n for n in walk_no_nested(f.node) if isinstance(n, ast.Call) and isinstance(n.func, ast.Attribute) and n.func.attr == "pop" and "mapping" in norm(n.func.value)]
        for n in pops:
            r5.instance(f, n, norm(n))
            r5.check(len(n.args) == 1, f, n, "pop with a default hides a missing child hash")
    trav = next((f for f in p.funcs.values() if f.is_generator() and any(t == "ext:os.listdir" for _, tg in p.calls[f.qual] for t in tg)), None)
    if trav is not None:
        r5.instance(trav, trav.node, "post-order traversal")
        rec = [n for n in walk_no_nested(trav.node) if isinstance(n, ast.Call) and trav.qual in p.resolve_call(n, trav)]
        last = trav.node.body[-1]
        gt = cfg_of(trav)
        r5.check(bool(rec) and all(gt.node_for(last).id in gt.reachable_from([gt.node_for(r)]) and gt.node_for(r).id not in gt.reachable_from([gt.node_for(last)]) for r in rec), trav, last, "the traversal yields a folder before its sub-folders", construct="post order")

    # ------------------------------------------------------------------ R7.6
    r6 = report.rule("R7.6", "recording: the session stores the content hash as the entry's digest and the structure hash as its structure digest; the writer puts them under <content> / <structure>; the reader assigns them back symmetrically", 3)
    ad = p.funcs.get("ascmhl.generator.MHLGenerationCreationSession.append_multiple_format_directory_hashes")
    if ad is None:
        raise AnalysisError("append_multiple_format_directory_hashes not found")
    for hf, lp, cname, sname, recv in directory_recording_loops(p, ad):
        r6.instance(hf, lp, f"for {norm(lp.target)} in {norm(lp.iter)}")
        r6.check(recording_loop_ok(p, pr, hf, lp, cname, sname), hf, lp, "content / structure hashes are not recorded as (digest, structure digest) of the entry of their own format (swapped or crossed formats)", construct="session directory entry")
    em, mdoc, cdoc, raw = documents(p)
    for el in walk_elems(mdoc):
        if el.tag in ("content", "structure"):
            for it in el.children:
                if isinstance(it, Rep) and len(it.items) == 1 and isinstance(it.items[0], Elem) and it.items[0].text is not None:
                    r6.instance(el.func, el.node, f"<{el.tag}> text {norm(it.items[0].text[0])}")
                    want = "hash_string" if el.tag == "content" else "structure_hash_string"
                    r6.check(norm(it.items[0].text[0]).endswith("." + want) and not (want == "hash_string" and norm(it.items[0].text[0]).endswith("structure_hash_string")), el.func, it.items[0].node, f"<{el.tag}> is written from `{norm(it.items[0].text[0])}`", construct=f"<{el.tag}> source")
    rd = p.funcs.get("ascmhl.hashlist_xml_parser.parse")
    st = [n for n in walk_no_nested(rd.node) if isinstance(n, ast.Assign) and isinstance(n.targets[0], ast.Attribute) and n.targets[0].attr == "structure_hash_string"]
    if not st:
        # the assignment is not in `parse` itself: made in a helper that receives the parser state (a reader structure this rule does not read); a store that sits
        # elsewhere in the package is no evidence of a defect
        elsewhere = [f_ for f_ in p.funcs.values() if f_.module is rd.module and f_ is not rd and any(isinstance(n, ast.Assign) and isinstance(n.targets[0], ast.Attribute) and n.targets[0].attr == "structure_hash_string" for n in walk_no_nested(f_.node))]
        if elsewhere:
            raise AnalysisError(f"manifest reader: the structure digest is assigned in {elsewhere[0].qual}, not in the reader's event loop; reader structure not modelled")
    r6.instance(rd, st[0] if st else rd.node, "reader structure assignment")
    okr = len(st) == 1 and norm(st[0].value) == "element.text"
    if okr:
        deps = [(norm(t.ast), l) for t, l in cfg_of(rd).control_deps(cfg_of(rd).node_for(st[0]), transitive=False) if t.kind == "test"]
        okr = deps == [("is_directory_structure == False", "F")] or deps == [("is_directory_structure", "T")] or deps == [("not is_directory_structure", "F")]
        if not okr:
            from .common import atomic_deps as _ad

            ats = [a for t, l in cfg_of(rd).control_deps(cfg_of(rd).node_for(st[0]), transitive=False) if t.kind == "test" for a in _ad(t.ast, l)]
            flagish = [(a, l) for a, l in ats if "structure" in a]
            if not any((a.split(".")[-1] in ("is_directory_structure", "is_directory_structure == True") and l == "F") or (a.endswith("is_directory_structure == False") and l == "T") for a, l in flagish) and (flagish or not ats):
                # the guard is spelled in a way this rule does not know (state object, helper): not evidence of a defect
                if not any(a.split(".")[-1] == "is_directory_structure" and l == "T" for a, l in flagish):
                    raise AnalysisError(f"{rd.loc(st[0])}: the condition under which the reader stores the structure digest ({ats}) is not in a form this rule reads")
                okr = True
    r6.check(okr, rd, st[0] if st else rd.node, "the reader does not assign the text under <structure> to the structure digest of the matching entry", construct="reader structure")

    # ---- rules shared with other properties (same mechanism, same rule, reported under every property it can break)
    include_rules(report, p, 'c13', ['R13.2'], 'the directory hashes are evaluated over exactly the non-ignored entries: the ignore match must be made on the path relative to the pattern root at every depth')
    include_rules(report, p, 'c02', ['R2.1'], 'directory hashes are evaluated over exactly the traversed (non-ignored) entries')
    include_rules(report, p, 'c01', ['R1.3', 'R1.4'], "digests are decoded to bytes by the format's own codec")
    include_rules(report, p, 'c12', ['R12.1'], 'the hashes `verify -dh -co` prints (and create records) are evaluated over exactly the non-ignored entries: the walk uses the effective patterns (latest generation + -i + -ii), not a spec built without them')
    report.not_decided += ["numeric equality with an independent evaluation of the definition on concrete trees", "rename / content-edit relations at run time"]


def directory_recording_loops(p, ad, cpar=None, spar=None):
    """loops that build one MHLHashEntry per format for a directory record, in `ad` itself or in a helper it calls:
    [(function, loop, name of the content mapping there, name of the structure mapping there, record receiving the entries in `ad`)]
    cpar / spar: names of the content / structure mapping in `ad` (default: its 4th and 5th parameter)"""
    out = []
    cpar = cpar or ad.params[3]
    spar = spar or ad.params[4]

    def loops_in(f):
        return [n for n in walk_no_nested(f.node) if isinstance(n, ast.For) and any(isinstance(x, ast.Call) and norm(x.func).endswith("MHLHashEntry") for x in ast.walk(n))]

    def recv_of(lp):
        for x in ast.walk(lp):
            if isinstance(x, ast.Call) and isinstance(x.func, ast.Attribute) and x.func.attr == "append_hash_entry":
                return norm(x.func.value)
        return None

    for lp in loops_in(ad):
        out.append((ad, lp, cpar, spar, recv_of(lp)))
    for call, tg in p.calls[ad.qual]:
        for t in tg:
            h = p.funcs.get(t)
            if h is None or h is ad or not loops_in(h):
                continue
            b = {k: norm(v) for k, v in p.bind_args(h, call).items() if v is not None}
            cname = next((k for k, v in b.items() if v == cpar), None)
            sname = next((k for k, v in b.items() if v == spar), None)
            for lp in loops_in(h):
                r = recv_of(lp)
                out.append((h, lp, cname, sname, b.get(r, None)))
    return out


def recording_loop_ok(p, pr, hf, lp, cname, sname) -> bool:
    if cname is None or sname is None or not (isinstance(lp.target, ast.Tuple) and len(lp.target.elts) == 2):
        return False
    fmt, content = [norm(e) for e in lp.target.elts]
    ok = norm(lp.iter) == f"{cname}.items()"
    ent = [n for n in ast.walk(lp) if isinstance(n, ast.Assign) and isinstance(n.value, ast.Call) and norm(n.value.func).endswith("MHLHashEntry")]
    st = [n for n in ast.walk(lp) if isinstance(n, ast.Assign) and isinstance(n.targets[0], ast.Attribute) and n.targets[0].attr == "structure_hash_string"]
    ok = ok and len(ent) == 1 and [norm(a) for a in ent[0].value.args[:2]] == [fmt, content] and len(st) == 1
    if ok:
        so = pr.origins(st[0].value, hf)
        ok = all(o[0] == "elem" and o[1][0] == "param" and o[1][2] == sname and o[2] is not None and o[2][0] == "elem" for o in so) and norm(_resolve(hf, st[0].value, st[0])) == f"{sname}[{fmt}]"
    if ok:
        ok = not [x for st_ in lp.body for x in ast.walk(st_) if isinstance(x, (ast.Break, ast.Continue, ast.Return))]
    return bool(ok)


def _anc(n):
    x = parent(n)
    while x is not None:
        yield x
        x = parent(x)


def _resolve(f, e, near=None):
    """follow a local single assignment inside the same enclosing loop body"""
    if isinstance(e, ast.Name):
        scope = next((a for a in _anc(near) if isinstance(a, ast.For)), f.node) if near is not None else f.node
        binds = [n for n in ast.walk(scope) if isinstance(n, ast.Assign) and len(n.targets) == 1 and isinstance(n.targets[0], ast.Name) and n.targets[0].id == e.id and not (isinstance(n.value, ast.Constant) and n.value.value is None)]
        if len(binds) == 1:
            return binds[0].value
    return e


def _popped_mapping(f, e):
    """name of the mapping a lookup variable was popped from:  x = M.pop(k)"""
    if isinstance(e, ast.Name):
        for n in walk_no_nested(f.node):
            if isinstance(n, ast.Assign) and len(n.targets) == 1 and norm(n.targets[0]) == e.id and isinstance(n.value, ast.Call) and isinstance(n.value.func, ast.Attribute) and n.value.func.attr == "pop":
                return norm(n.value.func.value)
    return None


def _popped_key(f, e):
    if isinstance(e, ast.Name):
        for n in walk_no_nested(f.node):
            if isinstance(n, ast.Assign) and len(n.targets) == 1 and norm(n.targets[0]) == e.id and isinstance(n.value, ast.Call) and isinstance(n.value.func, ast.Attribute) and n.value.func.attr == "pop" and n.value.args:
                return norm(n.value.args[0])
    return None


def _file_site_key_consistent(p, pr, f, call):
    """receiver context and digest value belong to the same format key"""
    recv = call.func.value
    val = call.args[1] if len(call.args) > 1 else None
    lp = next((a for a in _anc(call) if isinstance(a, ast.For) and isinstance(a.target, ast.Tuple) and len(a.target.elts) == 2 and norm(a.iter).endswith(".items()")), None)
    if lp is None or val is None:
        return False, "not inside a loop over (format, digest) pairs"
    key, v = norm(lp.target.elts[0]), norm(lp.target.elts[1])
    # receiver: lookup[key] directly or a variable assigned from lookup[key] in the loop body
    r = recv
    if isinstance(r, ast.Name):
        def _sub(v_):
            # lookup[key], or `None if <no directory hashes> else lookup[key]` (the call then sits under a test that the variable is not None)
            if isinstance(v_, ast.IfExp):
                alts_ = [b_ for b_ in (v_.body, v_.orelse) if not (isinstance(b_, ast.Constant) and b_.value is None)]
                if len(alts_) == 1:
                    return _sub(alts_[0])
            return v_ if isinstance(v_, ast.Subscript) else None

        all_binds = [n for n in ast.walk(lp) if isinstance(n, (ast.Assign, ast.AugAssign, ast.AnnAssign)) and any(isinstance(t_, ast.Name) and t_.id == r.id for t_ in (n.targets if isinstance(n, ast.Assign) else [n.target]))]
        binds = [n for n in all_binds if isinstance(n, ast.Assign) and len(n.targets) == 1 and _sub(n.value) is not None]
        others_ = [n for n in all_binds if n not in binds and not (isinstance(n, ast.Assign) and isinstance(n.value, ast.Constant) and n.value.value is None)]
        if len(binds) != 1 or others_:
            return False, f"receiver `{r.id}` is not bound to lookup[{key}] exactly once in the loop"
        r = _sub(binds[0].value)
    if not (isinstance(r, ast.Subscript) and norm(r.slice) == key):
        return False, f"receiver is `{norm(recv)}`, not the context stored under `{key}`"
    # value: v itself, an attribute of v, or a variable assigned from that
    x = val
    if isinstance(x, ast.Name) and x.id != v:
        binds = [n for n in ast.walk(lp) if isinstance(n, ast.Assign) and len(n.targets) == 1 and norm(n.targets[0]) == x.id]
        if len(binds) != 1:
            return False, f"value `{x.id}` is not bound exactly once in the loop"
        x = binds[0].value
    base = x
    while isinstance(base, ast.Attribute):
        base = base.value
    if not (isinstance(base, ast.Name) and base.id == v):
        return False, f"value `{norm(val)}` does not come from the loop's own item `{v}`"
    return True, ""


def finish(report):
    return report.finish(
        level="other",
        explanation="provenance of every value appended to the content/structure lists, shape of the list hash (sort, decode, feed all), key consistency of the per-format wiring at both call sites, "
        "control dependence of the context calls (coverage), recording symmetry in session/writer/reader. Hash values are not computed.",
    )
