"""C02 - a sealed generation records exactly the tree that is on disk (structural clauses)."""
from __future__ import annotations

import ast

from sa.cfg import cfg_of
from sa.emit import Elem, walk_elems
from sa.flow import show, sig, subterms
from sa.model import AnalysisError, norm, parent, walk_no_nested

from .common import neg_zero_slice_rule, lazy_reuse_rule, atomic_deps, include_rules, alts, callers_of, commands, is_call, is_plain_iter, loop_iteration_paths, need, prov, unshipped_modules
from .c12 import traversal_funcs
from .xmlcommon import documents


def run(report, p):
    pr = prov(p)
    cmds = commands(p)
    travs = traversal_funcs(p)
    report.assume("digests are correct per C01 and actions per C04; ignore semantics per C12")

    # ------------------------------------------------------------------ R2.1
    r1 = report.rule(
        "R2.1",
        "traversal completeness: every listed name that is not ignored is appended (with the same name) to the children that are yielded; every directory child that is not a link is recursed into "
        "with join(top, name) and every item of the recursion is re-yielded; the function ends, on every path, by yielding (top, full children list)",
        1,
    )
    for t in travs:
        g = cfg_of(t)
        r1.instance(t, t.node, t.qual)
        lists = [c for c, tg in p.calls[t.qual] if any(x in ("ext:os.listdir", "ext:os.scandir") for x in tg)]
        if len(lists) != 1:
            raise AnalysisError(f"{t.qual}: expected one directory listing call")
        top = t.params[0]
        r1.check(norm(lists[0].args[0]) == top, t, lists[0], "the traversal lists a directory other than the one it was given")
        fors = [n for n in t.node.body if isinstance(n, ast.For)]
        if len(fors) != 2:
            raise AnalysisError(f"{t.qual}: expected a listing loop and a recursion loop at top level, found {len(fors)} loops")
        l1, l2 = fors
        # listing loop: append((name, isdir(join(top,name))))
        def _is_listing(o):
            while o[0] == "call" and o[1] in ("builtin:sorted", "builtin:list") and o[2]:
                o = o[2][0]
            return o[0] == "call" and o[1].endswith(("os.listdir", "os.scandir"))

        l1base = l1.iter
        while isinstance(l1base, ast.Call) and norm(l1base.func) in ("sorted", "list") and len(l1base.args) == 1 and not any(k.arg == "key" or k.arg == "reverse" for k in l1base.keywords):
            l1base = l1base.args[0]  # sorting / copying the listing drops nothing
        ok_it = is_plain_iter(p, l1base) and all(_is_listing(o) for o in pr.origins(l1.iter, t))
        r1.check(ok_it, t, l1.iter, "the listing loop iterates a slice / filtered view of the directory listing", construct=l1.iter)
        apps = [x for s in l1.body for x in ast.walk(s) if isinstance(x, ast.Call) and isinstance(x.func, ast.Attribute) and x.func.attr == "append"]
        ok_app = len(apps) == 1 and isinstance(apps[0].args[0], ast.Tuple) and len(apps[0].args[0].elts) == 2 and norm(apps[0].args[0].elts[0]) == norm(l1.target)
        if ok_app:
            isd = apps[0].args[0].elts[1]
            ok_app = any(is_call(o, "isdir") and o[2] and is_call(o[2][0], "join") and len(o[2][0][2]) == 2 and o[2][0][2][0][0] == "param" and o[2][0][2][0][2] == top for o in pr.origins(isd, t))
        r1.check(ok_app, t, apps[0] if apps else l1, "a listed name is not recorded as (name, is-directory of join(top, name))", construct="children.append")
        children = norm(apps[0].func.value) if apps else None
        # skip paths are decided by R12.7 (shared); here: no other exit from the listing loop
        brk = [x for s in l1.body for x in ast.walk(s) if isinstance(x, (ast.Break, ast.Return))]
        r1.check(not brk, t, brk[0] if brk else l1, "the listing loop can be left early: later names are never visited")
        conts = [x for s in l1.body for x in ast.walk(s) if isinstance(x, ast.Continue)]
        from .common import resolved_path_conditions

        l1node = g.by_ast[id(l1)]
        for c in conts:
            cid = g.node_for(c).id
            deps = [a for tt, l in g.control_deps(g.node_for(c)) if tt.kind == "test" for a in atomic_deps(tt.ast, l)]
            ok = any("match_file" in d and l == "T" for d, l in deps) and all(("match_file" in d or d == t.params[1]) and l == "T" for d, l in deps)
            if not ok:
                # the decision may sit behind a name bound on the way (result of an inlined helper): judge every feasible path to this `continue`
                ok = True
                n_feasible = 0
                for kind, conds, trail in loop_iteration_paths(g, l1node):
                    if not any(x.id == cid for x in trail):
                        continue
                    rc, feasible = resolved_path_conditions(g, trail)
                    if not feasible:
                        continue
                    n_feasible += 1
                    if not any("match_file" in norm(tc) and l == "T" and not isinstance(tc, (ast.For, ast.While)) for tc, l in rc):
                        ok = False
                ok = ok and n_feasible > 0
            r1.check(ok, t, c, f"a listed name is skipped under {deps}: only names matching the ignore patterns may be dropped", construct=f"skip under {deps}")
        # recursion loop
        # the list may be handed on under another name (children = <the list built above>)
        aliases = {children}
        for n_ in walk_no_nested(t.node):
            if isinstance(n_, ast.Assign) and len(n_.targets) == 1 and isinstance(n_.targets[0], ast.Name) and isinstance(n_.value, ast.Name) and n_.value.id in aliases:
                aliases.add(n_.targets[0].id)
        ok2 = is_plain_iter(p, l2.iter) and norm(l2.iter) in aliases
        r1.check(ok2, t, l2.iter, "the recursion loop does not iterate the full children list", construct=l2.iter)
        recs = [c for c, tg in p.calls[t.qual] if t.qual in tg]
        r1.check(len(recs) == 1, t, l2, "expected exactly one recursive call")
        for rc in recs:
            gn = g.node_for(rc)
            deps = [a for tt, l in g.control_deps(gn, transitive=True, through_loops=False) if tt.kind == "test" for a in atomic_deps(tt.ast, l)]
            okd = all((d == "is_dir" and l == "T") or ("islink" in d and l == "F") for d, l in deps) and any(d == "is_dir" for d, l in deps)
            r1.check(okd, t, rc, f"sub-directories are descended into only under {deps}: a directory that is not a link must always be traversed", construct=f"recursion under {deps}")
            a0 = pr.origins(rc.args[0], t)
            oka = all(is_call(o, "join") and len(o[2]) == 2 and o[2][0][0] == "param" and o[2][0][2] == top and o[2][1][0] == "elem" for o in a0)
            r1.check(oka, t, rc, "the recursion does not descend into join(top, child name)", witness="; ".join(show(o)[:100] for o in a0))
            par = parent(rc)
            if isinstance(par, ast.For) and par.iter is rc:
                body_ok = len(par.body) == 1 and isinstance(par.body[0], ast.Expr) and isinstance(par.body[0].value, ast.Yield) and norm(par.body[0].value.value) == norm(par.target)
                r1.check(body_ok, t, par, "not every item produced by the recursion is re-yielded")
            elif isinstance(par, ast.YieldFrom):
                r1.check(True, t, par, "")
            else:
                r1.check(False, t, rc, "the recursion's result is not re-yielded (unrecognised idiom)")
        last = t.node.body[-1]
        okl = isinstance(last, ast.Expr) and isinstance(last.value, ast.Yield) and isinstance(last.value.value, ast.Tuple) and len(last.value.value.elts) == 2 and norm(last.value.value.elts[0]) == top and norm(last.value.value.elts[1]) in aliases
        r1.check(okl, t, last, "the traversal does not end by yielding (top, the full children list)", construct=f"final yield {norm(last)[:60]}")

    neg_zero_slice_rule(report, p, pr, 'R2.10', [need(cmds, 'create').qual], 'create')

    # ------------------------------------------------------------------ R2.9
    r9 = report.rule(
        "R2.9",
        "traversal and consumers agree on what a directory is: the consumers take the hashes of every child that the traversal reports with is_dir=True out of a mapping that is "
        "filled once per YIELDED folder (`mapping.pop(child path)`), so the traversal must descend into - and yield - every child it reports as a directory. A recursion that is "
        "conditioned on more than is_dir (`not os.path.islink(path)`) reports a symbolic link to a directory as a directory without ever yielding it: the pop raises KeyError and "
        "`create` (and verify -dh) die with an internal error on any tree that contains such a link",
        1,
    )
    for t in travs:
        g = cfg_of(t)
        for rc in [c for c, tg in p.calls[t.qual] if t.qual in tg]:
            r9.instance(t, rc, f"{t.name}: recursion {norm(rc)[:50]}")
            deps = [a for tt, l in g.control_deps(g.node_for(rc), transitive=True, through_loops=False) if tt.kind == "test" for a in atomic_deps(tt.ast, l)]
            extra = [(d, l) for d, l in deps if not (d == "is_dir" and l == "T")]
            # the flag the children carry: isdir(join(top, name)) follows links
            apps_ = [x for x in walk_no_nested(t.node) if isinstance(x, ast.Call) and isinstance(x.func, ast.Attribute) and x.func.attr == "append" and x.args and isinstance(x.args[0], ast.Tuple) and len(x.args[0].elts) == 2]
            flag_follows_links = any(any(is_call(o, "isdir") for o in pr.origins(a.args[0].elts[1], t)) for a in apps_)
            pops = [(cf_.qual, c) for cf_ in p.funcs.values() if cf_.module.name.endswith("commands") for c, tg in p.calls[cf_.qual] if isinstance(c.func, ast.Attribute) and c.func.attr == "pop" and len(c.args) == 1 and "mapping" in norm(c.func.value)]
            if extra and flag_follows_links and pops:
                r9.check(False, t, rc, f"a child is reported as a directory by `isdir(join(top, name))` (which follows links) but descended into only when additionally {extra}: a symbolic link to a directory is listed with is_dir=True and never yielded, and {pops[0][0].split('.')[-1]} (and {len(pops) - 1} more site(s)) pop its hashes from the per-folder mapping -> KeyError, exit 1, nothing recorded", construct="directory child reported but not yielded (symbolic link to a directory)")
            else:
                r9.check(True, t, rc, "")

    # ------------------------------------------------------------------ R2.2
    r2 = report.rule(
        "R2.2",
        "consumer completeness (create, folder mode): for every traversed child that is not a directory the seal call with join(folder, name) lies on every path; "
        "after the child loop the folder itself is recorded on every path (also with -n)",
        1,
    )
    cf = p.funcs.get("ascmhl.commands.create_for_folder_subcommand")
    seal = p.funcs.get("ascmhl.commands.seal_file_path")
    if cf is None or seal is None:
        raise AnalysisError("create_for_folder_subcommand / seal_file_path not found")
    g = cfg_of(cf)
    outer = next((n for n in walk_no_nested(cf.node) if isinstance(n, ast.For) and isinstance(n.iter, ast.Call) and any(x in [t.qual for t in travs] for x in p.resolve_call(n.iter, cf))), None)
    if outer is None:
        raise AnalysisError("create: traversal loop not found")
    inner = next((m for m in outer.body if isinstance(m, ast.For) and isinstance(outer.target, ast.Tuple) and norm(m.iter) == norm(outer.target.elts[1])), None)
    if inner is None:
        raise AnalysisError("create: child loop not found")
    r2.instance(cf, inner, f"for {norm(inner.target)} in {norm(inner.iter)}")
    r2.check(is_plain_iter(p, inner.iter), cf, inner.iter, "the child loop iterates a slice / filtered view of the traversed children")
    iloop = g.by_ast[id(inner)]
    seals = [c for c, tg in p.calls[cf.qual] if seal.qual in tg and _inside(c, inner)]
    seal_ids = {g.node_for(c).id for c in seals}
    isdir_name = inner.target.elts[1].id if isinstance(inner.target, ast.Tuple) else None
    n_paths = 0
    for kind, conds, trail in loop_iteration_paths(g, iloop):
        is_dir_true = any(isinstance(c, ast.Name) and c.id == isdir_name and l == "T" for c, l in conds)
        sealed = any(x.id in seal_ids for x in trail)
        if kind == "back" and not is_dir_true:
            n_paths += 1
            r2.check(sealed, cf, trail[-2].ast if len(trail) > 1 else inner, "a traversed file can pass through the child loop without being sealed (hashed and recorded)", witness=g.fmt_path(trail)[:400], construct=f"file path without seal: {[(norm(c)[:40], l) for c, l in conds if not isinstance(c, (ast.For, ast.While))][:6]}")
        elif kind in ("exit", "out"):
            r2.check(False, cf, trail[-2].ast if len(trail) > 1 else inner, f"the child loop can be left early ({kind})", witness=g.fmt_path(trail)[:300])
    for c in seals:
        a = c.args[1] if len(c.args) > 1 else None
        ok = a is not None and all(is_call(o, "join") and len(o[2]) == 2 and all(x[0] == "elem" for x in o[2]) for o in pr.origins(a, cf))
        r2.check(ok, cf, c, "the sealed path is not join(folder path, child name) of the traversed child", witness="; ".join(show(o)[:100] for o in pr.origins(a, cf)) if a is not None else None)
    oloop = g.by_ast[id(outer)]
    drec = {g.node_for(c).id for c, tg in p.calls[cf.qual] if any(t.endswith("append_multiple_format_directory_hashes") or t.endswith("append_directory_hashes") for t in tg) and _inside(c, outer)}
    r2.check(bool(drec), cf, outer, "the traversed folder itself is never recorded")
    starts = [(m, l) for m, l in oloop.succ if l == "iter"]
    path = g.find_path(oloop, {oloop.id, g.exit.id}, avoid=drec, first_edges=starts)
    r2.check(path is None, cf, outer, "a traversed folder can be left without a directory record (e.g. only when directory hashes are on)", witness=g.fmt_path(path)[:400] if path else None, construct="folder without record")
    for c, tg in p.calls[cf.qual]:
        if any(t.endswith("append_multiple_format_directory_hashes") for t in tg) and _inside(c, outer):
            ok = norm(c.args[0]) == norm(outer.target.elts[0])
            r2.check(ok, cf, c, "the directory record is not keyed by the traversed folder path")

    # ------------------------------------------------------------------ R2.3
    r3 = report.rule("R2.3", "record key: the path of every record written by a session is the history-relative path produced by routing (relpath to the history root), and the writer converts every path text to POSIX", 4)
    for fq, f in p.funcs.items():
        if not f.module.name.endswith(".generator"):
            continue
        for c, tg in p.calls[fq]:
            if any(t.endswith("find_or_create_media_hash_for_path") for t in tg):
                r3.instance(f, c, norm(c)[:90])
                ok = True
                for o in pr.origins(c.args[0], f):
                    if o[0] == "param":
                        continue  # guarded fallback for collections, decided by C13 R13.3
                    routed = o[0] == "elem" and is_call(o[1], "find_history_for_path") and o[2] == ("const", 1)
                    rel = is_call(o, "get_relative_file_path")
                    ok = ok and (routed or rel)
                r3.check(ok, f, c, "a record is keyed by something other than the routed history-relative path", witness="; ".join(show(o)[:120] for o in pr.origins(c.args[0], f)))
    em, mdoc, cdoc, raw = documents(p)
    for el in list(walk_elems(mdoc)) + list(walk_elems(cdoc)):
        if el.tag in ("path", "previousPath") and el.text is not None:
            r3.instance(el.func, el.node, f"<{el.tag}> text {norm(el.text[0])[:60]}")
            v = el.text[0]
            ok = isinstance(v, ast.Call) and any(t.endswith("utils.convert_local_path_to_posix") for t in p.resolve_call(v, el.text[1]))
            r3.check(ok, el.func, el.node, f"<{el.tag}> text is written without conversion to POSIX separators")

    # ------------------------------------------------------------------ R2.4
    r4 = report.rule("R2.4", "-sf scope: in single-file mode every sealed path is a named path (made absolute) or a file below a traversal rooted at a named folder; no traversal of the root; no directory records", 1)
    sf = p.funcs.get("ascmhl.commands.create_for_single_files_subcommand")
    if sf is None:
        raise AnalysisError("create_for_single_files_subcommand not found")
    sfp = next((x for x in sf.params if "single" in x), None)
    for c, tg in p.calls[sf.qual]:
        if seal.qual in tg:
            r4.instance(sf, c, norm(c)[:80])
            ok = True
            for o in pr.origins(c.args[1], sf):
                o = pr.inline(o, depth=2)
                tcalls = [s for s in subterms(o) if s[0] == "call" and s[1] in [x.qual for x in travs]]
                if tcalls:
                    for tc in tcalls:
                        top = tc[2][0] if tc[2] else None
                        ok = ok and top is not None and any(s[0] == "param" and s[2] == sfp for s in subterms(top)) and not any(s[0] == "param" and s[2] == sf.params[0] for s in subterms(top))
                else:
                    ok = ok and any(s[0] == "param" and s[2] == sfp for s in subterms(o)) and not any(s[0] == "param" and s[2] == sf.params[0] for s in subterms(o))
            r4.check(ok, sf, c, "a path that was not named with -sf (or is not below a named folder) is sealed", witness="; ".join(show(o)[:140] for o in pr.origins(c.args[1], sf)))
        if any(t in [x.qual for x in travs] for t in tg):
            r4.instance(sf, c, norm(c)[:80])
            ok = all(any(s[0] == "param" and s[2] == sfp for s in subterms(o)) and not (o[0] == "param" and o[2] == sf.params[0]) for o in pr.origins(c.args[0], sf))
            r4.check(ok, sf, c, "single-file mode traverses something other than a named folder")
        if any("directory_hashes" in t for t in tg if t in p.funcs):
            r4.check(False, sf, c, "single-file mode records directory entries")

    # ------------------------------------------------------------------ R2.11
    r11 = report.rule(
        "R2.11",
        "-sf completeness: every named file, and every file below a named folder, reaches the seal call on every path of its loop iteration (the only iterations that pass "
        "without it are those of a traversed child that is a directory): no filter - by identity of the file (device / inode), by an earlier occurrence, by size or type - decides "
        "that a named path gets no record. Generators that hand the paths to the sealing loop are judged the same way (a path must be yielded on every path of its iteration)",
        2,
    )
    # the -sf command and the package generators it consumes (the paths may be produced by a generator and sealed by the loop that consumes it)
    S11 = [sf]
    for q in sorted(p.reachable([sf.qual])):
        f_ = p.funcs[q]
        if f_ is not sf and f_.is_generator() and f_.module is sf.module and f_ not in travs:
            S11.append(f_)
    gen_quals = {f_.qual for f_ in S11 if f_ is not sf}
    n_loops11 = 0
    for fn in S11:
        gfn = cfg_of(fn)
        deliver = set()
        for c, tg in p.calls[fn.qual]:
            if seal.qual in tg:
                deliver.add(gfn.node_for(c).id)
        for n in walk_no_nested(fn.node):
            if isinstance(n, (ast.Yield, ast.YieldFrom)):
                deliver.add(gfn.node_for(n).id)
        if not deliver:
            continue
        loops11 = [n for n in walk_no_nested(fn.node) if isinstance(n, ast.For) and any(_inside(gfn.nodes[i].ast, n) for i in deliver)]
        seal_args = {norm(c.args[1]) for c, tg in p.calls[fn.qual] if seal.qual in tg and len(c.args) > 1} | {norm(n.value) for n in walk_no_nested(fn.node) if isinstance(n, ast.Yield) and n.value is not None}
        for lp_ in loops11:
            n_loops11 += 1
            r11.instance(fn, lp_, f"{fn.name}: for {norm(lp_.target)} in {norm(lp_.iter)[:40]}")
            ln_ = gfn.by_ast[id(lp_)]
            inner_loops = [x for x in ast.walk(lp_) if isinstance(x, ast.For) and x is not lp_ and x in loops11]
            isdir_nm = lp_.target.elts[1].id if isinstance(lp_.target, ast.Tuple) and len(lp_.target.elts) == 2 and isinstance(lp_.target.elts[1], ast.Name) and not inner_loops else None
            inner_heads = {gfn.by_ast[id(x)].id for x in inner_loops}
            bad11 = None
            for kind, conds, trail in loop_iteration_paths(gfn, ln_):
                if kind != "back" or any(x.id in deliver for x in trail):
                    continue
                if isdir_nm is not None and any(isinstance(c, ast.Name) and c.id == isdir_nm and l == "T" for c, l in conds):
                    continue  # a directory below a named folder: no record in -sf mode
                if any(x.id in inner_heads for x in trail):
                    continue  # a named folder / a traversed folder: judged through the loop over its children
                # leaving out a path that was delivered before under the very same name is no loss: membership of the path ITSELF in a collection
                same_name = False
                for c, l in conds:
                    for a_, l_ in (atomic_deps(c, l) if l in ("T", "F") and not isinstance(c, (ast.For, ast.While)) else []):
                        if " in " in a_ and l_ == "T" and a_.split(" in ")[0] in seal_args:
                            same_name = True
                if same_name:
                    continue
                bad11 = (conds, trail)
                break
            if bad11 is None:
                r11.check(True, fn, lp_, "")
                continue
            conds, trail = bad11
            why = [(norm(c)[:50], l) for c, l in conds if not isinstance(c, (ast.For, ast.While)) and l in ("T", "F")]
            r11.check(False, fn, trail[-2].ast if len(trail) > 1 else lp_, f"a file named with -sf (or lying below a named folder) can pass its loop iteration without being sealed when {'; '.join('`' + t + '` is ' + ('true' if l == 'T' else 'false') for t, l in why[-4:]) or 'nothing at all is tested'}: the new generation holds no record for it although the command exits 0 (two hard links of one file, a path that came up before under another name)", witness=gfn.fmt_path(trail)[:400], construct="-sf file path without seal")
    if not any(seal.qual in tg for c, tg in p.calls[sf.qual]):
        raise AnalysisError("create -sf: no seal call in the command itself (sealing moved into a helper that was not inlined)")

    # ------------------------------------------------------------------ R2.5
    r5 = report.rule("R2.5", "containment: a record key derived from a user-named path (not from a traversal of the history root) is guarded by a containment test against the root before it is made relative", 1)
    for c, tg in p.calls[sf.qual]:
        if seal.qual in tg:
            a = c.args[1]
            named_directly = any(not any(is_call(s, travs[0].qual) for s in subterms(o)) for o in pr.origins(a, sf))
            if not named_directly:
                continue
            r5.instance(sf, c, norm(c)[:80])
            gsf = cfg_of(sf)
            cn = gsf.node_for(c)
            guards = [t for t, l in gsf.control_deps(cn) if t.kind == "test" and any(k in norm(t.ast) for k in ("commonpath", "startswith", "relpath", "is_relative_to", "..")) ]
            r5.check(bool(guards), sf, c, "a path named with -sf is sealed without checking that it lies inside the history root: `create ROOT -sf ../other/z.txt` records <path>../other/z.txt</path> (a path escaping the root)", construct="-sf path sealed without containment test")

    # ------------------------------------------------------------------ R2.6
    r6 = report.rule(
        "R2.6",
        "file vs directory records: outside the readers a record's `is_directory` is only ever set to the constant True, by the code that records a folder; it is never computed "
        "from another value (e.g. from a missing / zero size): a 0-byte file must not become a <directoryhash> record",
        2,
    )
    _unshipped = unshipped_modules(p)
    for fq, f in sorted(p.funcs.items()):
        if f.module.name in _unshipped or f.module.name.endswith("_xml_parser"):
            continue
        for n in walk_no_nested(f.node):
            if isinstance(n, ast.Assign) and any(isinstance(t, ast.Attribute) and t.attr == "is_directory" for t in n.targets):
                r6.instance(f, n, norm(n)[:70])
                v = n.value
                r6.check(isinstance(v, ast.Constant) and v.value in (True, False), f, n, f"`{norm(n)[:70]}`: whether a record is a directory is derived from `{norm(v)[:40]}` instead of being stated by the code path that records a folder: files for which that value is falsy (size 0) are recorded as directories", construct="is_directory computed from a value")
                if isinstance(v, ast.Constant) and v.value is True and f.cls and f.cls.endswith("MHLHashList"):
                    r6.check(False, f, n, "the hash list marks records as directories itself", construct="is_directory set in the model")

    # ------------------------------------------------------------------ R2.7
    r7 = report.rule(
        "R2.7",
        "a record is keyed by the name under which the file was reached from the root: no path that went through symbolic-link resolution (os.path.realpath, Path.resolve, "
        "os.readlink) reaches a record key, a history lookup or a traversal root - a link on the named path would otherwise be recorded under its target's name or with a path "
        "that leaves the root",
        4,
    )
    RESOLVERS = ("os.path.realpath", "realpath", "os.readlink", "readlink")
    SINKS = ("get_relative_file_path", "find_history_for_path", "find_or_create_media_hash_for_path", "post_order_lexicographic", "set_of_file_paths")

    def _resolved(term):
        for st in subterms(term):
            if st[0] == "call" and (st[1].replace("ext:", "").replace("unk:", "") in RESOLVERS or st[1].endswith((".resolve", ":resolve"))):
                return st
        return None

    reached = {}  # resolver call node -> [(sink name, func, call)]
    for fq, f in sorted(p.funcs.items()):
        if f.module.name in _unshipped:
            continue
        for call, tg in p.calls[fq]:
            hit = next((t for t in tg if t.split(".")[-1] in SINKS), None)
            if hit is None:
                continue
            r7.instance(f, call, norm(call)[:80])
            for a in list(call.args) + [k.value for k in call.keywords]:
                for o in pr.origins(a, f):
                    try:
                        full = pr.expand_params(o, depth=3)
                    except AnalysisError:
                        full = o
                    bad = _resolved(full)
                    if bad is not None:
                        node = bad[4] if len(bad) > 4 and isinstance(bad[4], ast.AST) else None
                        reached.setdefault(id(node) if node is not None else show(bad), (bad, node, []))[2].append((hit.split(".")[-1], f, call))
    for bad, node, sinks in reached.values():
        # reported once, at the resolving call
        owner = next((g for g in p.funcs.values() if node is not None and any(x is node for x in ast.walk(g.node))), sinks[0][1])
        names = sorted({s_ for s_, _, _ in sinks})
        r7.check(False, owner, node if node is not None else sinks[0][2], f"a path that went through `{show(bad)[:80]}` reaches {', '.join(names)}: with a symbolic link on the way the file is recorded under the link target's location (or outside the root), not under the name it has in the tree", construct=f"symlink-resolved path reaches {names[0]}")
    r7.check(True, None, None, "")

    lazy_reuse_rule(report, p, 'R2.8', [need(cmds, 'create').qual], 'create')

    # ---- rules shared with other properties (same mechanism, same rule, reported under every property it can break)
    include_rules(report, p, 'c12', ['R12.1'], 'exactly the files the effective patterns do not exclude are recorded: the traversal must match against the same patterns, relative to the same root, at every depth')
    include_rules(report, p, 'c12', ['R12.12'], 'exactly the files the effective patterns do not exclude are recorded: the one pathspec of the run must not change while the tree is traversed')
    include_rules(report, p, 'c03', ['R3.11'], 'create logs every file it records; a logger that raises aborts the run before the generation is written')
    include_rules(report, p, 'c08', ['R8.1', 'R8.2'], 'records must land in the deepest history with a path relative to its root (routing)')
    include_rules(report, p, 'c01', ['R1.1'], 'a record carries a correct digest only if the whole file is hashed')
    include_rules(report, p, 'c13', ['R13.3'], 'record keys must never carry an absolute location')
    include_rules(report, p, 'c08', ['R8.7'], 'with a nested history the folder of the nested root must get its directory record in the parent manifest, with or without directory hashes')
    include_rules(report, p, 'c12', ['R12.6'], 'the stored pattern list must come back in the order given (negated patterns): otherwise the next generation silently misses a record')
    include_rules(report, p, 'c03', ['R3.9'], 'create dispatches to the folder / single-file worker on every path')
    include_rules(report, p, 'c10', ['R10.3'], 'the path written into a record is the name on disk: the local-to-POSIX conversion only converts separators (no normalisation, folding or trimming)')
    report.not_decided += ["that the record set equals the tree for concrete trees (needs C01/C04/C08/C12 and run time)", "names with unusual characters at run time (see C10 for escaping)"]


def _inside(n, container):
    x = n
    while x is not None:
        if x is container:
            return True
        x = parent(x)
    return False


def finish(report):
    return report.finish(
        level="other",
        explanation="loop coverage of the traversal and of its consumer in create (nothing but ignored names dropped, every file sealed, every folder recorded), provenance of record keys and of "
        "-sf paths, POSIX conversion in the emission grammar. The record set of concrete trees is not executed.",
    )
