"""C11 - every file the tool writes is valid against the published schemas: the language of element sequences the
writers can emit is included in the XSD content models (static re-derivation; libxml2 is not run)."""
from __future__ import annotations

import ast
import os

from sa.cfg import cfg_of
from sa.emit import Alt, Elem, Opt, Rep, walk_elems
from sa.flow import subterms
from sa.model import AnalysisError, norm, parent, walk_no_nested
from sa.xsd import CType, Schema, included, show_re, symbols

from .common import neg_zero_slice_rule, atomic_deps, callers_of, commands, include_rules, lazy_iterable, prov, reach_from
from .xmlcommon import documents, dyn_tag_attr, format_domain, ordered_expr, resolve_local, sorted_by_attr, sorted_source, writers


class Ctx:
    def __init__(self, p, report, domain):
        self.p, self.report, self.domain = p, report, domain
        self.dyn_notes = []
        self.path = []


def nonempty_guard(guards, it, p=None, f=None, note=None) -> bool:
    t = norm(it).replace('"', "'")
    for g in guards:
        atoms = atomic_deps(g.test, "T" if g.polarity else "F")
        if any(a in ((f"len({t}) > 0", "T"), (f"len({t}) == 0", "F"), (f"len({t}) >= 1", "T"), (f"0 < len({t})", "T"), (f"len({t}) < 1", "F"), (f"len({t}) <= 0", "F"), (f"0 == len({t})", "F")) for a in atoms):
            return True
        s = norm(g.test)
        if any(a in ((t, "T"), (f"bool({t})", "T")) for a in atoms):
            # a truth test establishes non-emptiness for sized containers only
            lazy = lazy_iterable(p, f, it) if p is not None and f is not None else None
            if lazy is None:
                return True
            if note is not None:
                note(f"the truth test `{s}` at {f.loc(g.test)} does not establish that `{t}` yields anything: it can be a lazy iterator ({lazy}), which is always true")
    return False


def dyn_rep_class(cx: Ctx, rep: Rep):
    """for a loop whose body emits exactly one element with a dynamic tag <var>.<attr> where var is the loop variable:
    ('sorted'|'ordered'|'unordered', why)"""
    body = rep.items
    if len(body) != 1 or not isinstance(body[0], Elem) or not isinstance(body[0].tag, tuple):
        return None
    va = dyn_tag_attr(body[0])
    if va is None or not isinstance(rep.loop.target, ast.Name) or va[0] != rep.loop.target.id:
        return ("unordered", "dynamic tag is not an attribute of the loop variable")
    var, attr = va
    f = rep.func
    if sorted_by_attr(f, rep.loop.iter, var, attr):
        return ("sorted", f"sorted(..., key=.{attr}) in {f.qual}")
    if cx.path and cx.path[-1] not in ("content", "structure"):
        return ("unordered", f"entries of a file record are appended in verification order (existing formats first) and <{cx.path[-1]}> does not sort them by .{attr}")
    ok, why = entries_ordered_upstream(cx, f, rep.loop.iter, attr)
    if ok:
        return ("ordered", why)
    return ("unordered", why)


def entries_ordered_upstream(cx: Ctx, f, it, attr):
    """`for e in <record>.hash_entries` without a local sort: every site that appends an entry to a *directory* record does
    so inside a loop over an ordered per-format dict with the entry's format = the loop key (DESIGN 3.7 d)"""
    p = cx.p
    it = resolve_local(f, it)
    if not (isinstance(it, ast.Attribute) and it.attr == "hash_entries"):
        return False, f"iterable `{norm(it)}` is not a record's entry list"
    cmds = commands(p)
    reach = set()
    for c in cmds.values():
        reach |= set(p.reachable([c.qual]))
    sites = 0
    for fq in sorted(reach):
        g = p.funcs[fq]
        if g.module.name.endswith("hashlist_xml_parser"):
            continue  # the reader appends in document order: ordered by induction on files this writer produced
        for call, tg in p.calls[fq]:
            if not any(t.endswith("MHLMediaHash.append_hash_entry") for t in tg):
                continue
            recv = call.func.value if isinstance(call.func, ast.Attribute) else None
            if recv is None or not _is_directory_record(g, recv, p):
                continue
            sites += 1
            # the appended entry: MHLHashEntry(<fmt>, ...) with fmt the key of an enclosing loop over an ordered dict
            lp = None
            x = parent(call)
            while x is not None and x is not g.node:
                if isinstance(x, ast.For):
                    lp = x
                    break
                x = parent(x)
            ent = call.args[0] if call.args else None
            if isinstance(ent, ast.Name) and lp is not None:
                binds = [n for st in lp.body for n in ast.walk(st) if isinstance(n, ast.Assign) and len(n.targets) == 1 and isinstance(n.targets[0], ast.Name) and n.targets[0].id == ent.id]
                ent = binds[0].value if len(binds) == 1 else None
            fmt = ent.args[0] if isinstance(ent, ast.Call) and ent.args else None
            if lp is None or not isinstance(fmt, ast.Name):
                return False, f"{g.loc(call)}: directory entry appended outside a per-format loop"
            key = lp.target.elts[0].id if isinstance(lp.target, ast.Tuple) and isinstance(lp.target.elts[0], ast.Name) else (lp.target.id if isinstance(lp.target, ast.Name) else None)
            if key != fmt.id:
                return False, f"{g.loc(call)}: entry format `{fmt.id}` is not the key of the enclosing loop"
            ok, why = ordered_expr(p, g, lp.iter)
            if not ok:
                return False, f"{g.loc(call)}: formats are appended in the order of `{norm(lp.iter)}` which is not provably ascending: {why}"
    if sites == 0:
        return False, "no append site for directory records found"
    return True, f"{sites} append site(s) for directory records iterate an ascending per-format dict (4-hop orderedness judgment)"


def _is_directory_record(g, recv, p=None, depth=0) -> bool:
    """the receiver is a record marked `is_directory = True` in this function; for a helper's parameter: at every call site"""
    if not isinstance(recv, ast.Name):
        return False
    for n in walk_no_nested(g.node):
        if isinstance(n, ast.Assign) and len(n.targets) == 1 and isinstance(n.targets[0], ast.Attribute) and n.targets[0].attr == "is_directory" and norm(n.targets[0].value) == recv.id and isinstance(n.value, ast.Constant) and n.value.value is True:
            return True
    if p is not None and depth < 3 and recv.id in g.params + g.kwonly:
        sites = [(p.funcs[c], call) for c, call in p.callers.get(g.qual, [])]
        if not sites:
            return False
        for cf, call in sites:
            arg = p.bind_args(g, call).get(recv.id)
            if arg is None or not _is_directory_record(cf, arg, p, depth + 1):
                return False
        return True
    return False


def to_regex(cx: Ctx, items, guards, distinct_ok):
    out = []
    for it in items:
        if isinstance(it, Elem):
            if isinstance(it.tag, tuple):
                out.append(("alt", [("sym", d) for d in cx.domain]))
            else:
                out.append(("sym", it.tag))
        elif isinstance(it, Opt):
            out.append(("opt", to_regex(cx, it.items, guards + [it.guard], distinct_ok)))
        elif isinstance(it, Alt):
            out.append(("alt", [to_regex(cx, b, guards, distinct_ok) for b in it.branches]))
        elif isinstance(it, Rep):
            cls = dyn_rep_class(cx, it)
            if cls is not None:
                kind, why = cls
                cx.dyn_notes.append((it, kind, why))
                dom = sorted(cx.domain)
                if kind in ("sorted", "ordered"):
                    if distinct_ok(it):
                        out.append(("seq", [("opt", ("sym", d)) for d in dom]))
                    else:
                        out.append(("seq", [("star", ("sym", d)) for d in dom]))
                else:
                    out.append(("star", ("alt", [("sym", d) for d in dom])))
            else:
                inner = to_regex(cx, it.items, guards, distinct_ok)
                out.append(("plus", inner) if nonempty_guard(guards, it.loop.iter, cx.p, it.func, cx.report.note if hasattr(cx.report, "note") else None) or getattr(it, "nonempty", False) else ("star", inner))
        else:
            raise AnalysisError(f"unexpected item in element template: {it!r}")
    return ("seq", out)


def child_elems(items, guards):
    """(Elem, guards, in_rep) for the direct child elements of an item list"""
    for it in items:
        if isinstance(it, Elem):
            yield it, guards
        elif isinstance(it, Opt):
            yield from child_elems(it.items, guards + [it.guard])
        elif isinstance(it, Rep):
            yield from child_elems(it.items, guards)
        elif isinstance(it, Alt):
            for b in it.branches:
                yield from child_elems(b, guards)


def run(report, p):
    # well-formedness comes first: a value written around the escaping builder makes the document invalid before any content model is looked at
    # (shared rule, evaluated before the templates are extracted so that its verdict stands even if the template of such a writer cannot be built)
    _positional_inserts(report, p)
    _none_text_rule(report, p)
    neg_zero_slice_rule(report, p, prov(p), 'R11.9', [c_.qual for c_ in commands(p).values()], 'any command')
    include_rules(report, p, 'c10', ['R10.2'], 'every variable value is escaped by the XML builder: a chain or manifest with a raw `&` or `<` from a file or folder name is not well-formed, let alone valid')
    em, mdoc, cdoc, raw = documents(p)
    domain = format_domain(p)
    xsd_dir = os.path.join(p.repo, "xsd")
    sm = Schema(os.path.join(xsd_dir, "ASCMHL.xsd"))
    sd = Schema(os.path.join(xsd_dir, "ASCMHLDirectory.xsd"))
    for k, v in sm.ctypes.items():
        sd.ctypes.setdefault(k, v)
    for k, v in sm.stypes.items():
        sd.stypes.setdefault(k, v)
    cx = Ctx(p, report, domain)
    pr = prov(p)
    report.assume("libxml2's validator is the reference; this is an independent static re-derivation of the content models")
    report.assume("each folder is yielded once by the traversal, hence each directory record receives its per-format entries once (dict keys are distinct)")

    # ------------------------------------------------------------------ R11.0 tag domain
    r0 = report.rule("R11.0", "the dynamic tag domain (supported hash formats) equals the XSD's format elements and XSD order equals Python's string order; every -h option is a Choice over that list", 3)
    for tname in ("HashType", "DirectoryHashFormatContainerType"):
        ct = sm.ctypes.get(tname)
        if ct is None:
            raise AnalysisError(f"XSD type {tname} missing")
        fm = [s for s in symbols(ct.model) if s not in ("path", "previousPath", "metadata")]
        r0.instance(None, None, f"{tname}: {fm}")
        r0.check(set(fm) == set(domain), None, None, f"formats the tool can emit {sorted(domain)} differ from the XSD's {tname} format elements {fm}", construct=f"{tname} formats")
        r0.check(fm == sorted(fm), None, None, f"XSD order of format elements in {tname} is not Python string order", construct=f"{tname} order")
    for c in commands(p).values():
        for pn, o in p.click_options(c).items():
            if "hash_format" in pn:
                d = norm(o["node"])
                r0.instance(c, o["node"], f"{c.name} --{pn}")
                r0.check("click.Choice(ascmhl_supported_hashformats)" in d, c, o["node"], f"{c.name}: option {pn} is not restricted to the supported formats", construct=f"{c.name} {pn} choice")

    # ------------------------------------------------------------------ R11.m distinct entries per record
    rm = report.rule(
        "R11.m",
        "a file record never receives two entries of one format in a session: every append of an entry to a record obtained through "
        "find_or_create is guarded by the absence of that format (the same path can be named twice with -sf), directory records get one entry per dict key",
        2,
    )
    distinct_sites_ok = True
    shipped_reach = set()
    for c in commands(p).values():
        shipped_reach |= set(p.reachable([c.qual]))
    for fq, f in p.funcs.items():
        if not f.module.name.endswith(".generator") or fq not in shipped_reach:
            continue
        g = cfg_of(f)
        for call, tg in p.calls[fq]:
            if any(t.endswith("MHLMediaHash.append_hash_entry") for t in tg) and isinstance(call.func, ast.Attribute):
                recv = call.func.value
                rm.instance(f, call, norm(call))
                if _is_directory_record(f, recv, p):
                    rm.check(True, f, call, "")
                    continue
                # must be dominated by a True-branch of `<recv>.find_hash_entry_for_format(<fmt>) is None`
                cn = g.node_for(call)
                ok = False
                for t in g.nodes:
                    if t.kind == "test" and g.dominates(t, cn):
                        s = norm(t.ast)
                        if "find_hash_entry_for_format" in s and norm(recv) in s and ("is None" in s or "== None" in s):
                            if any(m is cn or g.dominates(m, cn) for m, l in t.succ if l == "T"):
                                ok = True
                        if "find_hash_entry_for_format" in s and norm(recv) in s and ("is not None" in s or "!= None" in s):
                            if any(m is cn or g.dominates(m, cn) for m, l in t.succ if l == "F"):
                                ok = True
                distinct_sites_ok = distinct_sites_ok and ok
                rm.check(ok, f, call, "an entry is appended to a possibly existing file record without checking that the format is not recorded yet: naming a path twice (-sf a -sf a, -sf dir -sf dir/a) emits the format element twice")

    def distinct_ok(rep):
        # file records (<hash>): R11.m ; directory records (<content>/<structure>): one entry per key of a per-call dict
        return distinct_sites_ok if sorted_source(rep.func, rep.loop.iter) is not None else True

    # ------------------------------------------------------------------ R11.5 <ignore> has >= 1 pattern
    r5 = report.rule("R11.5", "<ignore> always has at least one <pattern>: the spec's pattern list is reset and then receives the previous patterns or the non-empty defaults; the class defines no __bool__/__len__", 1)
    spec = p.classes.get("ascmhl.ignore.MHLIgnoreSpec")
    if spec is None:
        raise AnalysisError("MHLIgnoreSpec not found")
    sp = spec.methods.get("set_patterns")
    r5.instance(sp, sp.node if sp else None, "set_patterns lemma")
    ok = sp is not None and "__bool__" not in spec.methods and "__len__" not in spec.methods
    if sp is not None:
        g = cfg_of(sp)
        # every path to exit passes an append of a list that cannot be empty: the defaults, `<existing> or <defaults>`, or the
        # existing patterns under a truthiness test of that parameter
        from .common import canon_dep

        adders = set()
        all_guaranteed = True
        for call, tg in p.calls[sp.qual]:
            if any(".MHLIgnoreSpec._append" in t for t in tg) and call.args:
                a = call.args[0]
                a0 = norm(a)
                is_default = "default_ignore_list" in a0 and not isinstance(a, ast.BoolOp)
                or_default = isinstance(a, ast.BoolOp) and isinstance(a.op, ast.Or) and "default_ignore_list" in norm(a.values[-1]) and norm(a.values[0]) == sp.params[1]
                bare = a0 == sp.params[1]
                if not (is_default or or_default or bare):
                    continue
                adders.add(g.node_for(call).id)
                if bare:
                    deps = {canon_dep(t.ast, l) for t, l in g.control_deps(g.node_for(call)) if t.kind == "test"}
                    if (sp.params[1], "T") not in deps:  # truthiness: a non-empty list (an `is not None` test would admit [])
                        all_guaranteed = False
        if not any(any(".MHLIgnoreSpec._append" in t for t in tg) for call, tg in p.calls[sp.qual]):
            raise AnalysisError("MHLIgnoreSpec.set_patterns: no call of an append helper of the spec found (helpers renamed or inlined?); the non-empty lemma cannot be evaluated on this shape")
        path = g.find_path(g.entry, {g.exit.id}, avoid=adders)
        ok = ok and path is None and len(adders) >= 1 and all_guaranteed
        dfl = p.funcs.get("ascmhl.ignore.default_ignore_list")
        dv = None
        if dfl is not None:
            rets = [n for n in walk_no_nested(dfl.node) if isinstance(n, ast.Return)]
            dv = p.fold(rets[0].value, dfl) if len(rets) == 1 else None
        ok = ok and isinstance(dv, list) and len(dv) >= 1
        # `if existing:` guards the existing branch: existing truthy => non-empty list
    lemma_ignore = bool(ok)
    r5.check(ok, sp, sp.node if sp else None, "the pattern list written into <ignore> can be empty (IgnoreType requires at least one <pattern>)", construct="set_patterns non-empty lemma")

    refine_templates(p, report, pr, mdoc, lemma_ignore)

    # ------------------------------------------------------------------ R11.1 content models + R11.2 attributes
    r1 = report.rule("R11.1", "for every element the writers can emit: the language of its child sequences is included in the XSD content model of its type (subset construction; counter-example word reported)", 12)
    r2 = report.rule("R11.2", "attributes emitted are declared for the element's type; required/fixed attributes are present unconditionally with the fixed value; integer/dateTime typed values come from str(<int field>) / the ISO formatter", 8)
    alphabet = sorted(set(domain) | {s for ct in list(sm.ctypes.values()) + list(sd.ctypes.values()) for s in symbols(ct.model)} | {"__other__"})

    def check_elem(schema: Schema, el: Elem, ctype, guards, path):
        tagname = el.tagname()
        where = "/".join(path + [tagname])
        if isinstance(ctype, CType):
            if ctype.any:
                return
            cx.path = path + [tagname]
            rx = to_regex(cx, el.children, guards, distinct_ok)
            alpha = sorted(set(alphabet) | set(symbols(rx)))
            ok, cex = included(rx, ctype.model, alpha)
            r1.instance(el.func, el.node, f"<{where}> children {show_re(rx)[:120]}  ⊆  {ctype.name}: {show_re(ctype.model)[:120]}")
            r1.check(ok, el.func, el.node, f"<{where}> can be written with the child sequence {cex if cex else '(empty)'} which the schema type {ctype.name} does not allow", construct=f"<{where}> children => {' '.join(cex) if cex else 'ε'}")
            if ctype.text_type is None and el.text is not None and ctype.model != ("eps",):
                r1.check(False, el.func, el.node, f"<{where}> has text but its type {ctype.name} has element-only content", construct=f"<{where}> text")
            # attributes
            names = {a.name for a in el.attrs} | set(el.raw_attrs)
            for a in el.attrs:
                r2.instance(a.func, a.node, f"<{where}> @{a.name}")
                decl = ctype.attrs.get(a.name)
                r2.check(decl is not None, a.func, a.node, f"attribute {a.name} is not declared for <{where}> (type {ctype.name})", construct=f"<{where}> @{a.name}")
                if decl is not None:
                    check_typed(schema, a.value, a.func, decl.get("type"), f"<{where}> @{a.name}", a.node)
            for an, decl in ctype.attrs.items():
                if decl["use"] == "required":
                    present = an in el.raw_attrs or any(a.name == an and not a.optional for a in el.attrs)
                    r2.instance(el.func, el.node, f"<{where}> required @{an}")
                    r2.check(present, el.func, el.node, f"required attribute {an} of <{where}> is not written unconditionally", construct=f"<{where}> required @{an}")
                    if decl.get("fixed") is not None and an in el.raw_attrs:
                        r2.check(el.raw_attrs[an] == decl["fixed"], el.func, el.node, f"attribute {an} of <{where}> must be {decl['fixed']!r}", construct=f"<{where}> fixed @{an}")
            for an in el.raw_attrs:
                if an.startswith("xmlns"):
                    r2.check(el.raw_attrs[an] == schema.target_ns, el.func, el.node, f"namespace {el.raw_attrs[an]!r} differs from the schema's target namespace {schema.target_ns!r}", construct=f"<{where}> xmlns")
                elif an not in ctype.attrs:
                    r2.check(False, el.func, el.node, f"attribute {an} is not declared for <{where}>", construct=f"<{where}> @{an}")
            if ctype.text_type is not None and el.text is not None:
                check_typed(schema, el.text[0], el.text[1], ctype.text_type, f"<{where}> text", el.node)
            for ch, g2 in child_elems(el.children, guards):
                tags = cx.domain if isinstance(ch.tag, tuple) else [ch.tag]
                types = []
                for tg in tags:
                    t = schema.type_of(ctype, tg)
                    if t is None:
                        r1.check(False, ch.func, ch.node, f"element <{tg}> is not declared as a child of <{where}> (type {ctype.name})", construct=f"<{where}>/<{tg}> undeclared")
                    else:
                        types.append(t)
                if types:
                    check_elem(schema, ch, types[0], g2, path + [tagname])
        else:
            # simple type: no children, no attributes
            r1.instance(el.func, el.node, f"<{where}> simple type {ctype}")
            r1.check(not el.children and not el.attrs, el.func, el.node, f"<{where}> has simple type {ctype} but is written with children/attributes", construct=f"<{where}> simple")
            if el.text is not None:
                check_typed(schema, el.text[0], el.text[1], ctype, f"<{where}> text", el.node)

    def check_typed(schema, value, f, tname, what, node):
        if tname is None:
            return
        if isinstance(value, ast.Name) and f is not None:
            value = _resolve_in_scope(f, value)  # a local holding the formatted value
        info = schema.simple_info(tname)
        base = info["base"] if tname in schema.stypes else tname
        if info["enum"]:
            consts, unknown = constant_set(p, pr, value, f)
            r2.instance(f, node, f"{what}: enumerated {tname} <- {sorted(consts)}")
            extra = set(consts) - set(info["enum"]) - allowed_transient(p, tname)
            r2.check(not extra and not unknown, f, node, f"{what} can carry {sorted(extra) or unknown} which is outside the enumeration {info['enum']} of {tname}", construct=f"{what} enum")
        if info["pattern"]:
            # values the writer itself supplies (fall-backs such as `x or ""`, conditional expressions, constructor defaults) must satisfy the pattern;
            # what the user typed is not decided
            lits = _literal_alternatives(p, pr, value, f)
            r2.instance(f, node, f"{what}: pattern {info['pattern'][0]} <- literals {sorted(lits)}")
            import re as _re

            for lit in sorted(lits):
                okp = any(_xsd_pattern_matches(pat, lit) for pat in info["pattern"])
                r2.check(okp, f, node, f"{what} can carry the literal {lit!r} supplied by the writer itself (`{norm(value)[:50]}`), which does not match the pattern {info['pattern'][0]!r} of {tname}: every manifest written when the value is not given fails schema validation", construct=f"{what} literal {lit!r} vs pattern")
        if base == "integer":
            ok = isinstance(value, ast.Call) and norm(value.func) == "str" and len(value.args) == 1 and int_typed(p, value.args[0], f)
            r2.check(ok, f, node, f"{what} has type integer but is not str(<int field>): {norm(value)[:60]}", construct=f"{what} integer")
        if base == "dateTime":
            ok = iso_formatted(p, pr, value, f)
            r2.check(ok, f, node, f"{what} has type dateTime but does not come from the ISO formatter: {norm(value)[:60]}", construct=f"{what} dateTime")

    t_root = sm.type_of(None, mdoc.tag)
    if t_root is None:
        raise AnalysisError(f"manifest root <{mdoc.tag}> is not a global element of ASCMHL.xsd")
    check_elem(sm, mdoc, t_root, [], [])
    t_root = sd.type_of(None, cdoc.tag)
    if t_root is None:
        raise AnalysisError(f"chain root <{cdoc.tag}> is not a global element of ASCMHLDirectory.xsd")
    # 3.11 #7: the chain-entry builder's non-c4 alternative is dead for files written by this tool
    author_wiring(report, p, pr)
    dead = prune_dead_chain_alt(p, report, cdoc)
    check_elem(sd, cdoc, t_root, [], [])
    for it, kind, why in cx.dyn_notes:
        r1.note(f"dynamic-tag loop at {it.func.loc(it.loop)}: {kind} ({why})")

    # ------------------------------------------------------------------ R11.6 promotion of 'new'
    r6 = report.rule("R11.6", "the transient action 'new' never reaches the writer: the validator either promotes it to 'verified' or raises, and runs before the manifest writer", 1)
    mw, cw = writers(p)
    val = [f for f in p.funcs.values() if f.cls and any(isinstance(n, ast.Compare) and "'new'" in norm(n) and ".action" in norm(n) for n in walk_no_nested(f.node)) and f.module.name.endswith("history")]
    if not val:
        raise AnalysisError("validator of new hash lists (test `.action == 'new'`) not found")
    for v in val:
        g = cfg_of(v)
        r6.instance(v, v.node, "validator")
        for t in g.nodes:
            if t.kind == "test" and "'new'" in norm(t.ast) and ".action" in norm(t.ast):
                # every path from the T edge back to a loop head / exit passes an assignment .action = 'verified' or raises
                fixers = {n.id for n in g.nodes if n.kind == "stmt" and isinstance(n.ast, ast.Assign) and any(isinstance(x, ast.Attribute) and x.attr == "action" for x in n.ast.targets) and p.fold(n.ast.value, v) == "verified"}
                loops = {n.id for n in g.nodes if n.kind == "loop"} | {g.exit.id}
                from .common import branch_where

                starts = [(m, l) for m, l in t.succ if l == branch_where(t.ast, True)]  # the branch on which the action IS 'new'
                path = g.find_path(t, loops, avoid=fixers, first_edges=starts)
                r6.check(path is None, v, t.ast, "an entry marked 'new' can leave the validator without being promoted to 'verified' or aborting", witness=g.fmt_path(path) if path else None)
        for cf, call in callers_of(p, mw.qual):
            gg = cfg_of(cf)
            vcalls = [gg.node_for(c) for c, tg in p.calls[cf.qual] if v.qual in tg]
            r6.check(any(gg.dominates(vn, gg.node_for(call)) for vn in vcalls), cf, call, "the manifest writer is called without the validator having run")

    pass  # include_rules imported at module level

    include_rules(report, p, 'c06', ['R6.2'], "sequencenr of a chain / collection entry is xs:integer: `str(hash_list.generation_number)` is an integer literal only if every hash list is numbered before it is written (R11.2's lemma for that field)")
    include_rules(report, p, 'c15', ['R15.1'], 'a file that is published half-written (also when the run ends with an error) is not even well-formed')
    report.not_decided += ["the author e-mail pattern (user input)", "lexical validity of dates for all clock values", "identity constraints / substitution groups (none are used by these XSDs; checked at load)"]
    report.extra["manifest_template"] = mdoc.show()[:4000]
    report.extra["chain_template"] = cdoc.show()[:1500]


def refine_templates(p, report, pr, mdoc, lemma_ignore):
    """DESIGN 3.11 #4, #6, #8: places where the builder syntax admits something the data never does. Each refinement is
    applied only when its side rule holds (and the side rule is an obligation of its own)."""
    rs = report.rule(
        "R11.s",
        "side rules that justify template refinements: (#6) an MHLIgnoreSpec is always truthy and non-empty; (#4) previous_path is only ever assigned inside rename "
        "detection on records that are not a root hash; (#8) every record marked is_directory is created with size None",
        3,
    )
    # ---- #8 directory records carry no size
    sites, ok8 = 0, True
    for fq, f in p.funcs.items():
        if f.module.name.endswith("_xml_parser"):
            continue
        for n in walk_no_nested(f.node):
            if isinstance(n, ast.Assign) and len(n.targets) == 1 and isinstance(n.targets[0], ast.Attribute) and n.targets[0].attr == "is_directory" and isinstance(n.value, ast.Constant) and n.value.value is True:
                recv = n.targets[0].value
                src = resolve_local(f, recv)
                sites += 1

                def created_without_size(v):
                    return isinstance(v, ast.Call) and isinstance(v.func, ast.Attribute) and v.func.attr == "find_or_create_media_hash_for_path" and len(v.args) >= 2 and isinstance(v.args[1], ast.Constant) and v.args[1].value is None

                good = created_without_size(src)
                if not good and isinstance(recv, ast.Name):
                    # several bindings (e.g. `x = None` on the path where nothing is recorded): every non-None one creates the record without size
                    binds = [b.value for b in walk_no_nested(f.node) if isinstance(b, ast.Assign) and len(b.targets) == 1 and isinstance(b.targets[0], ast.Name) and b.targets[0].id == recv.id]
                    real = [b for b in binds if not (isinstance(b, ast.Constant) and b.value is None)]
                    good = bool(real) and all(created_without_size(b) for b in real)
                    if good:
                        src = real[0]
                rs.instance(f, n, f"directory record created: {norm(src)[:80]}")
                rs.check(good, f, n, "a record marked is_directory is not created with the literal size None: <directoryhash>/<path> could get a size attribute the schema does not declare", construct=f"is_directory record: {norm(src)[:80]}")
                ok8 = ok8 and good
    if sites == 0:
        raise AnalysisError("no site marking a record as directory found")
    # ---- #4 previous_path never lands on a root hash
    stores = [(f, v) for f, v in pr.field_stores("ascmhl.hashlist.MHLMediaHash", "previous_path") if not f.module.name.endswith("_xml_parser") and not (isinstance(v, ast.Constant) and v.value is None)]
    ok4 = True
    for f, v in stores:
        rs.instance(f, v, f"previous_path = {norm(v)[:60]} in {f.name}")
        good = "detect_renaming" in f.params
        rs.check(good, f, v, "previous_path is assigned outside rename detection: a <roothash> could receive a <previousPath> child the schema does not allow", construct=f"previous_path store in {f.qual}")
        ok4 = ok4 and good
    rs.check(len(stores) <= 3, None, None, f"{len(stores)} assignment sites of previous_path (3 were reviewed: none can target a root hash); review the new site", construct="previous_path store count")
    ok4 = ok4 and len(stores) <= 3
    for el in walk_elems(mdoc):
        if el.tag == "ignore" and lemma_ignore:
            new = []
            for c in el.children:
                if isinstance(c, Opt) and _is_ignore_spec(p, c.guard):
                    for it in c.items:
                        if isinstance(it, Rep) and norm(_strip_length_preserving(_resolve_iter(it.func, it.loop.iter))).endswith(".get_pattern_list()"):
                            it.nonempty = True
                        new.append(it)
                elif isinstance(c, Rep) and norm(_strip_length_preserving(_resolve_iter(c.func, c.loop.iter))).endswith(".get_pattern_list()"):
                    # `for p in (spec.get_pattern_list() if spec else [])`: the same loop with the presence test folded into the iterable
                    c.nonempty = True
                    new.append(c)
                else:
                    new.append(c)
            el.children = new
        if el.tag == "roothash" and ok4:
            el.children = [c for c in el.children if not (isinstance(c, Opt) and "previous_path" in norm(c.guard.test))]
        if el.tag == "directoryhash" and ok8:
            for c in el.children:
                if isinstance(c, Elem) and c.tag == "path":
                    c.attrs = [a for a in c.attrs if a.name != "size"]


def _resolve_in_scope(f, name_node):
    """the single assignment of a local name that is visible at the use: same block or an enclosing block of the use"""
    cands = [n for n in walk_no_nested(f.node) if isinstance(n, ast.Assign) and len(n.targets) == 1 and isinstance(n.targets[0], ast.Name) and n.targets[0].id == name_node.id]
    if len(cands) == 1:
        return cands[0].value
    # several bindings of the name (e.g. once per loop): the closest one preceding the use in an enclosing block
    anc = []
    x = parent(name_node)
    while x is not None:
        anc.append(x)
        x = parent(x)
    best = None
    for c in cands:
        if parent(c) in anc and c.lineno <= getattr(name_node, "lineno", 10 ** 9):
            if best is None or c.lineno > best.lineno:
                best = c
    return best.value if best is not None else name_node


def author_wiring(report, p, pr):
    """R11.8: the typed author attributes (email must match the XSD's e-mail pattern) are filled from the command option of the same name"""
    r8 = report.rule(
        "R11.8",
        "option-to-attribute wiring of <author>: at every construction of MHLAuthor outside the reader, the value bound to the parameter that initialises field X "
        "(name / email / phone / role) comes from the command option --author_X; a crossed binding puts e.g. a phone number into the pattern-typed email attribute",
        2,
    )
    aq = "ascmhl.hashlist.MHLAuthor"
    init = p.find_method(aq, "__init__")
    if init is None:
        raise AnalysisError("MHLAuthor.__init__ not found")
    fi = p.funcs[init]
    field_of_param = {}
    for st in walk_no_nested(fi.node):
        if isinstance(st, ast.Assign) and len(st.targets) == 1 and isinstance(st.targets[0], ast.Attribute) and norm(st.targets[0].value) == fi.params[0] and isinstance(st.value, ast.Name) and st.value.id in fi.params:
            field_of_param[st.value.id] = st.targets[0].attr
    optnames = set()
    for c in commands(p).values():
        for pn in p.click_options(c):
            if pn.startswith("author_"):
                optnames.add(pn)
    for fq, f in sorted(p.funcs.items()):
        if f.module.name.endswith("_xml_parser"):
            continue
        for call, tg in p.calls[fq]:
            if init not in tg:
                continue
            r8.instance(f, call, norm(call)[:90])
            b = p.bind_args(fi, call)
            for pn, arg in b.items():
                if arg is None or pn not in field_of_param or not any(arg is x for x in list(call.args) + [k.value for k in call.keywords]):
                    continue
                fld = field_of_param[pn]
                srcs = set()
                for o in pr.origins(arg, f):
                    full = pr.expand_params(o, depth=4)
                    for t in [o] + list(subterms(full)):
                        if t[0] == "param" and t[2] in optnames:
                            srcs.add(t[2])
                if not srcs:
                    continue  # constants etc.
                want = "author_" + fld
                if len(srcs) > 1:
                    # the value travels inside an object that bundles several options (a record / tuple the rule cannot take apart): no verdict
                    raise AnalysisError(f"{f.loc(call)}: the value bound to MHLAuthor.{fld} depends on several command options {sorted(srcs)} (bundled in one object); the option-to-attribute wiring cannot be judged on this shape")
                r8.check(srcs == {want}, f, call, f"MHLAuthor.{fld} (written as the {fld} {'text' if fld == 'name' else 'attribute'} of <author>) is filled from {sorted(srcs)} instead of --{want}", construct=f"author {fld} <- {sorted(srcs)}")


def _strip_length_preserving(e):
    """sorted(X) / list(X) / tuple(X) / reversed(X) have as many elements as X (emptiness is what matters here)"""
    while isinstance(e, ast.Call) and norm(e.func) in ("sorted", "list", "tuple", "reversed") and len(e.args) == 1:
        e = e.args[0]
    return e


def _is_ignore_spec(p, guard):
    t = p.etype(guard.test, guard.func)
    return guard.polarity and t is not None and t[0] == "C" and t[1].endswith("MHLIgnoreSpec")


def allowed_transient(p, tname):
    # 'new' is rewritten to 'verified' before serialisation (R11.6)
    return {"new"} if tname == "ActionAttributeType" else set()


_OPTIONAL_FIELDS = {
    # fields that are None when the corresponding option was not given / the value is not known (confirmed by reading the constructors and the commands)
    "MHLAuthor": {"name", "role", "email", "phone"},
    "MHLCreatorInfo": {"location", "comment"},
    "MHLMediaHash": {"previous_path", "file_size", "last_modification_date"},
    "MHLHashEntry": {"hash_date"},
    # read from an attribute the schema declares optional (`attrib.get("sequencenr")`): None for chain entries written without it
    "MHLChainGeneration": {"generation_number"},
}


def _none_text_rule(report, p):
    """R11.12: no None reaches the element builder as text"""
    r = report.rule(
        "R11.12",
        "no None as text: a value handed to the element builder as text (`E.tag(value)`; `element.text = None` is harmless) that can be a model field which is None when "
        "the option was not given (author name / role / email / phone, location, comment, previous path ...) is handed over only under a test that it is not "
        "None - lxml raises TypeError for None, in the middle of write_hash_list: the run ends with a traceback, a stray .mhl.tmp and (for a first generation) an "
        "ascmhl folder without chain file",
        2,
    )
    from .common import atomic_deps as _ad

    def alternatives(e):
        if isinstance(e, ast.IfExp):
            return [(x, g + [(e.test, "T")]) for x, g in alternatives(e.body)] + [(x, g + [(e.test, "F")]) for x, g in alternatives(e.orelse)]
        if isinstance(e, ast.BoolOp) and isinstance(e.op, ast.Or):
            out = []
            for i, v in enumerate(e.values):
                last = i == len(e.values) - 1
                for x, g in alternatives(v):
                    out.append((x, g + ([] if last else [(v, "T")])))  # a non-last operand of `or` is the value only when it is true (so not None)
            return out
        return [(e, [])]

    n = 0
    for fq, f in sorted(p.funcs.items()):
        if not f.module.name.endswith("_xml_parser"):
            continue
        g = None
        sites = []
        for c in walk_no_nested(f.node):
            if isinstance(c, ast.Call):
                fn = c.func
                is_E = (isinstance(fn, ast.Attribute) and isinstance(fn.value, ast.Name) and fn.value.id == "E") or (isinstance(fn, ast.Name) and fn.id == "E")
                if is_E:
                    args = c.args[1:] if isinstance(fn, ast.Name) else c.args
                    for a in args:
                        if not isinstance(a, (ast.Starred, ast.Dict)):
                            sites.append((c, a))
                # conversions that raise on None (`int(None)`, `len(None)`, `None.strip()`) - the same traceback at the same point of the writer
                if isinstance(fn, ast.Name) and fn.id in ("int", "float", "len", "abs", "round") and len(c.args) == 1 and isinstance(c.args[0], ast.Attribute):
                    sites.append((c, c.args[0]))
                if isinstance(fn, ast.Attribute) and isinstance(fn.value, ast.Attribute) and not isinstance(parent(c), ast.Expr):
                    sites.append((c, fn.value))
        for holder, val in sites:
            for alt_e, local_guards in alternatives(val):
                if not isinstance(alt_e, ast.Attribute):
                    continue
                try:
                    t = p.etype(alt_e.value, f)
                except Exception:
                    t = None
                cls = t[1].split(".")[-1] if t and t[0] == "C" else None
                if cls is None and isinstance(alt_e.value, ast.Name):
                    cls = {"author": "MHLAuthor", "creator_info": "MHLCreatorInfo", "media_hash": "MHLMediaHash", "hash_entry": "MHLHashEntry", "generation": "MHLChainGeneration"}.get(alt_e.value.id)
                if cls not in _OPTIONAL_FIELDS or alt_e.attr not in _OPTIONAL_FIELDS[cls]:
                    continue
                n += 1
                r.instance(f, holder, f"{f.name}: {norm(alt_e)} as text")
                me = norm(alt_e)
                if g is None:
                    g = cfg_of(f)
                atoms = [a for t_, l_ in g.necessary_branches(g.node_for(holder)) for a in _ad(t_.ast, l_)]
                for tst, lab in local_guards:
                    atoms += _ad(tst, lab)
                ok = any((a_ == me and l_ == "T") or (a_ in (f"{me} is None", f"{me} == None") and l_ == "F") for a_, l_ in atoms)
                r.check(ok, f, holder, f"`{norm(val)[:60]}` can hand `{me}` to the element builder (or to a conversion that raises on None) when it is None (the option / attribute was not given): TypeError while the manifest is being written - exit 1, the temporary file stays behind, and a first generation leaves an ascmhl folder without chain file on which every later command aborts", construct=f"{f.name}: {me} may be None as text")
    if n == 0:
        raise AnalysisError("no optional model field is written as element text in the XML writers (anchor vanished)")
    r.check(True, None, None, "")


def _resolve_iter(f, e):
    from .common import resolve_local_iterable

    return resolve_local_iterable(f, e)


def _positional_inserts(report, p):
    """R11.11: children placed by position (`element.insert(i, child)`) land where the schema's sequence wants them"""
    r = report.rule(
        "R11.11",
        "a child that is put into an element BY POSITION (`element.insert(index, child)`) lands at the place the schema's sequence gives its tag: the index of the "
        "first inserted child equals the number of children the element already has in front of that place (all of them unconditional), later ones follow one by one - an "
        "index that is off (or counts from 1) puts e.g. an <author> behind <location>, and every manifest written with both options is invalid",
        0,
    )
    xsd_dir = os.path.join(p.repo, "xsd")
    schemas = [Schema(os.path.join(xsd_dir, "ASCMHL.xsd")), Schema(os.path.join(xsd_dir, "ASCMHLDirectory.xsd"))]

    def tag_of(e, f, depth=0):
        if isinstance(e, ast.Call):
            fn = e.func
            if isinstance(fn, ast.Attribute) and isinstance(fn.value, ast.Name) and fn.value.id == "E":
                return fn.attr
            if isinstance(fn, ast.Name) and fn.id == "E" and e.args and isinstance(e.args[0], ast.Constant):
                return e.args[0].value
            if depth < 2:
                for t in p.resolve_call(e, f):
                    if t in p.funcs:
                        hf = p.funcs[t]
                        for rt in [n for n in walk_no_nested(hf.node) if isinstance(n, ast.Return) and n.value is not None]:
                            v = rt.value
                            if isinstance(v, ast.Name):
                                b = [a for a in walk_no_nested(hf.node) if isinstance(a, ast.Assign) and any(isinstance(t2, ast.Name) and t2.id == v.id for t2 in a.targets)]
                                if len(b) >= 1:
                                    v = b[0].value
                            tg = tag_of(v, hf, depth + 1)
                            if tg:
                                return tg
        return None

    n = 0
    for fq, f in sorted(p.funcs.items()):
        if not f.module.name.endswith("_xml_parser"):
            continue
        for call in [c for c in walk_no_nested(f.node) if isinstance(c, ast.Call) and isinstance(c.func, ast.Attribute) and c.func.attr == "insert" and len(c.args) == 2 and isinstance(c.func.value, ast.Name)]:
            owner = c_owner = call.func.value.id
            binds = [a for a in walk_no_nested(f.node) if isinstance(a, ast.Assign) and any(isinstance(t, ast.Name) and t.id == owner for t in a.targets)]
            if len(binds) != 1 or tag_of(binds[0].value, f) is None:
                continue  # not an element built here (a plain list)
            n += 1
            r.instance(f, call, norm(call)[:70])
            ctor = binds[0].value
            parent_tag = tag_of(ctor, f)
            kids = list(ctor.args[1:] if isinstance(ctor.func, ast.Name) else ctor.args)
            lead = []
            for a in kids:
                if isinstance(a, ast.Starred):
                    break
                tg = tag_of(a, f)
                if tg is None:
                    if isinstance(a, ast.Constant) or not isinstance(a, ast.Call):
                        continue  # text
                    raise AnalysisError(f"{f.loc(call)}: a child of <{parent_tag}> in front of a positional insert could not be identified")
                lead.append(tg)
            child_tag = tag_of(call.args[1], f)
            if child_tag is None:
                raise AnalysisError(f"{f.loc(call)}: the element inserted by position could not be identified")
            order = None
            for sc in schemas:
                for ct in sc.ctypes.values():
                    if child_tag in ct.children and all(t in ct.children for t in lead):
                        order = list(ct.children.keys())
            if order is None:
                raise AnalysisError(f"{f.loc(call)}: no schema type lists <{child_tag}> next to {lead}")
            before = [t for t in lead if order.index(t) < order.index(child_tag)]
            if before != lead:
                raise AnalysisError(f"{f.loc(call)}: unconditional children {lead} do not all precede <{child_tag}> in the schema's order")
            # other appends / inserts of children into the same element in front of this call make positions depend on run-time state
            idx = call.args[0]
            lp = next((a for a in _anc_nodes(call) if isinstance(a, ast.For)), None)
            first = step = None
            if isinstance(idx, ast.Constant) and isinstance(idx.value, int):
                first, step = idx.value, 0
            elif lp is not None and isinstance(lp.iter, ast.Call) and norm(lp.iter.func) == "enumerate" and isinstance(lp.target, ast.Tuple) and isinstance(lp.target.elts[0], ast.Name):
                pos = lp.target.elts[0].id
                start = 0
                for k in lp.iter.keywords:
                    if k.arg == "start":
                        start = p.fold(k.value, f)
                if len(lp.iter.args) > 1:
                    start = p.fold(lp.iter.args[1], f)
                if isinstance(start, int):
                    from sa.absint import Evaluator as _Ev

                    v0 = _Ev(lambda e, env: None, fq).eval(idx, {pos: start})
                    v1 = _Ev(lambda e, env: None, fq).eval(idx, {pos: start + 1})
                    if isinstance(v0, int) and isinstance(v1, int):
                        first, step = v0, v1 - v0
            if first is None:
                raise AnalysisError(f"{f.loc(call)}: the insertion index `{norm(idx)}` could not be evaluated")
            want = len(lead)
            ok = first == want and step in (0, 1) and (step == 1 or lp is None)
            r.check(ok, f, call, f"`{norm(call)[:70]}` puts the {'first ' if step else ''}<{child_tag}> at index {first} of <{parent_tag}>, which has {want} children in front of that place ({', '.join(lead)}): in the schema <{child_tag}> comes directly after them and before {[t for t in order if order.index(t) > order.index(child_tag)]}, so whenever one of those optional elements is present the <{child_tag}> lands behind it and the manifest does not validate", construct=f"{f.name}: <{child_tag}> inserted at index {first}, schema position {want}")
    r.instance(None, None, f"{n} positional insert(s) into elements in the XML writers")
    r.check(True, None, None, "")


def _anc_nodes(n):
    from sa.model import parent as _parent

    x = _parent(n)
    while x is not None:
        yield x
        x = _parent(x)


def _xsd_pattern_matches(pat: str, text: str) -> bool:
    """XSD patterns are implicitly anchored; the subset used by these schemas (classes, negated classes, escapes, + * ? .) is Python-compatible"""
    import re

    try:
        return re.fullmatch(pat, text, re.DOTALL) is not None
    except re.error as e:  # pragma: no cover
        raise AnalysisError(f"XSD pattern {pat!r} cannot be evaluated: {e}")


def _literal_alternatives(p, pr, value, f, depth=0):
    """string literals an expression can evaluate to by itself: operands of `or`, arms of a conditional expression, a local bound to one of these,
    literal stores into the field it reads (constructor defaults)"""
    out = set()
    if depth > 4 or value is None:
        return out
    if isinstance(value, ast.Constant):
        if isinstance(value.value, str):
            out.add(value.value)
    elif isinstance(value, ast.BoolOp):
        for v in value.values:
            out |= _literal_alternatives(p, pr, v, f, depth + 1)
    elif isinstance(value, ast.IfExp):
        out |= _literal_alternatives(p, pr, value.body, f, depth + 1) | _literal_alternatives(p, pr, value.orelse, f, depth + 1)
    elif isinstance(value, ast.Name) and f is not None:
        for a in walk_no_nested(f.node):
            if isinstance(a, ast.Assign) and any(isinstance(t, ast.Name) and t.id == value.id for t in a.targets):
                out |= _literal_alternatives(p, pr, a.value, f, depth + 1)
    elif isinstance(value, ast.Attribute) and f is not None:
        try:
            consts, _ = constant_set(p, pr, value, f)
        except Exception:
            consts = set()
        out |= {c for c in consts if isinstance(c, str)}
    elif isinstance(value, ast.Call) and isinstance(value.func, ast.Attribute) and value.func.attr == "get" and len(value.args) == 2:
        out |= _literal_alternatives(p, pr, value.args[1], f, depth + 1)
    elif isinstance(value, ast.Call) and norm(value.func) == "str" and len(value.args) == 1:
        if isinstance(value.args[0], ast.Constant) and value.args[0].value is None:
            out.add("None")
    return out


def constant_set(p, pr, value, f):
    """string constants that can reach `value` (through object fields and constructor arguments); unknown sources that are
    not the tool's own reader are reported"""
    consts, unknown = set(), []
    if isinstance(value, ast.Attribute):
        # field-based: all stores into that field
        bt = p.etype(value.value, f)
        cq = bt[1] if bt and bt[0] == "C" else None
        fields = [(cq, value.attr)] if cq else []
        seen = set()
        while fields:
            cq, attr = fields.pop()
            if (cq, attr) in seen:
                continue
            seen.add((cq, attr))
            for sf, v in pr.field_stores(cq, attr):
                if sf.module.name.endswith("_xml_parser"):
                    continue  # the reader: values written by this writer (induction)
                if sf.qual not in _writer_side(p) and sf.name != "__init__":
                    continue
                for o in pr.origins(v, sf):
                    full = pr.expand_params(o, depth=3, within=_writer_side(p))
                    for leaf in _alt_leaves(full):
                        if leaf[0] == "const":
                            if leaf[1] is not None:
                                consts.add(leaf[1])
                        elif leaf[0] == "attr" and len(leaf) > 3 and leaf[3]:
                            fields.append((leaf[3], leaf[2]))
                        elif leaf[0] == "attr":
                            # attribute of a loop variable etc.: follow by field name on any class
                            fields.append((cq, leaf[2])) if leaf[2] == attr else unknown.append(leaf[2])
                        elif leaf[0] == "call" and leaf[1].startswith("extm:") and ".attrib" in norm(leaf[4]):
                            continue
                        else:
                            unknown.append(str(leaf[0]) + ":" + (leaf[1] if isinstance(leaf[1], str) else ""))
    else:
        v = p.fold(value, f)
        if isinstance(v, str):
            consts.add(v)
        else:
            unknown.append(norm(value))
    return consts, sorted(set(unknown))


def _writer_side(p):
    """functions reachable from shipped commands, minus the XML readers (values they deliver were written by this writer)"""
    if not hasattr(p, "_writer_side"):
        reach = set()
        for c in commands(p).values():
            reach |= set(p.reachable([c.qual]))
        p._writer_side = {q for q in reach if not p.funcs[q].module.name.endswith("_xml_parser")}
    return p._writer_side


def _alt_leaves(t):
    if t[0] == "alt":
        for a in t[1]:
            yield from _alt_leaves(a)
    else:
        yield t


def int_typed(p, e, f) -> bool:
    t = p.etype(e, f)
    if t == ("Prim", "int"):
        return True
    if isinstance(e, ast.Attribute):
        bt = p.etype(e.value, f)
        if bt and bt[0] == "C":
            ft = p.field_type(bt[1], e.attr)
            return ft == ("Prim", "int")
    return False


def iso_formatted(p, pr, value, f) -> bool:
    if isinstance(value, ast.Call):
        tg = p.resolve_call(value, f)
        return any(t.endswith("utils.datetime_isostring") for t in tg)
    if isinstance(value, ast.Attribute):
        bt = p.etype(value.value, f)
        cq = bt[1] if bt and bt[0] == "C" else None
        stores = [(sf, v) for sf, v in pr.field_stores(cq, value.attr) if not sf.module.name.endswith("_xml_parser")]
        real = [(sf, v) for sf, v in stores if not (isinstance(v, ast.Constant) and v.value is None)]
        if not real:
            return False
        for sf, v in real:
            if not (isinstance(v, ast.Call) and any(t.endswith(("utils.datetime_now_isostring", "utils.datetime_isostring", "utils.datetime_now_isostring_with_microseconds")) for t in p.resolve_call(v, sf))):
                return False
        return True
    return False


def prune_dead_chain_alt(p, report, cdoc):
    """3.11 #7: an empty <hashlist/> is emitted for a chain entry whose format is not c4. For files this tool wrote the
    reader can only have seen the tags the writer emits; side rule: every non-empty hashlist template has exactly the
    children path, c4. The empty alternative is then removed from the template."""
    r = report.rule("R11.7", "chain entries are written with <c4> only, so the reader's format domain for tool-written chains is {c4} and the builder's non-c4 branch (empty <hashlist/>) is dead", 2)
    removed = 0

    def prune(items):
        nonlocal removed
        out = []
        for it in items:
            if isinstance(it, Alt):
                keep = []
                for b in it.branches:
                    if len(b) == 1 and isinstance(b[0], Elem) and b[0].tag == "hashlist" and not b[0].children and not b[0].attrs:
                        removed += 1
                        continue
                    keep.append(prune(b))
                out.append(Alt(keep) if len(keep) > 1 else (keep[0][0] if keep and len(keep[0]) == 1 else Alt(keep)))
            elif isinstance(it, Rep):
                out.append(Rep(it.loop, it.func, prune(it.items)))
            elif isinstance(it, Opt):
                out.append(Opt(it.guard, prune(it.items)))
            else:
                out.append(it)
        return out

    cdoc.children = prune(cdoc.children)
    for el in walk_elems(cdoc):
        if el.tag == "hashlist":
            kids = [c.tag for c in el.children if isinstance(c, Elem)]
            r.instance(el.func, el.node, f"<hashlist> children {kids}")
            r.check(kids == ["path", "c4"] and len(kids) == len(el.children), el.func, el.node, f"a chain entry is written with children {kids}, not [path, c4]: the reader's format domain is no longer {{c4}}", construct=f"chain <hashlist> children {kids}")
    ref = p.module_const(p.modules["ascmhl.__version__"], "ascmhl_reference_hash_format")
    r.check(ref == "c4", None, None, "the reference hash format constant is not c4", construct="ascmhl_reference_hash_format")
    return removed


def finish(report):
    return report.finish(
        level="other",
        explanation="the writers' element templates are extracted by abstract interpretation of the lxml-builder code (nothing is run) and compared with "
        "automata built from the repo's own XSDs by language inclusion; attribute tables, enumerations and typed text are compared likewise. "
        "Validity of concrete files is not executed.",
    )
