"""C05 - any change to a chained manifest is detected before anything else happens."""
from __future__ import annotations

import ast

from sa.cfg import cfg_of
from sa.effects import classify
from sa.flow import show, sig, subterms
from sa.model import AnalysisError, norm, parent, walk_no_nested

from .common import (
    include_rules,
    alts,
    callers_of,
    class_with_code,
    commands,
    exit_code_classes,
    is_call,
    is_plain_iter,
    loop_iteration_paths,
    need,
    prov,
    raised_class,
    reach_from,
    unshipped_modules,
)


def find_loader(p):
    """the function that calls both XML parsers (chain parser and manifest parser)"""
    out = []
    for fq, f in p.funcs.items():
        tg = {t for _, ts in p.calls[fq] for t in ts}
        if any(t.endswith("chain_xml_parser.parse") for t in tg) and any(t.endswith("hashlist_xml_parser.parse") for t in tg):
            out.append(f)
    if len(out) != 1:
        raise AnalysisError(f"loader role (function calling both XML parsers): found {[f.qual for f in out]}")
    return out[0]


def chain_reader_fields(p):
    """role of each MHLChainGeneration field according to the chain reader: path / digest / format / seq"""
    f = p.funcs.get("ascmhl.chain_xml_parser.parse")
    if f is None:
        raise AnalysisError("chain reader ascmhl.chain_xml_parser.parse not found")
    roles = {}
    for n in walk_no_nested(f.node):
        if isinstance(n, ast.Assign) and len(n.targets) == 1 and isinstance(n.targets[0], ast.Attribute):
            fld = n.targets[0].attr
            v = norm(n.value)
            tests = []
            x = parent(n)
            while x is not None and x is not f.node:
                if isinstance(x, ast.If):
                    tests.append(norm(x.test))
                x = parent(x)
            near = tests[0] if tests else ""
            if "element.text" in v and "'path'" in near:
                roles["path"] = fld
            elif "element.text" in v and "supported_hashformats" in near:
                roles["digest"] = fld
            elif v == "tag" and "supported_hashformats" in near:
                roles["format"] = fld
            elif "sequencenr" in v:
                roles["seq"] = fld
    if set(roles) != {"path", "digest", "format", "seq"}:
        raise AnalysisError(f"chain reader field roles not recognised: {roles}")
    return roles


def file_digest_funcs(p):
    """package functions (taking a path) from which a file read loop is reachable"""
    from .readloops import read_functions

    loops = [f.qual for f, _ in read_functions(p)]
    out = set()
    for fq in p.funcs:
        r = p.reachable([fq])
        if any(l in r for l in loops):
            out.add(fq)
    return out, loops


def run(report, p):
    cmds = commands(p)
    pr = prov(p)
    loader = find_loader(p)
    g = cfg_of(loader)
    codes = exit_code_classes(p)
    c_mod, c_nochain, c_missing = class_with_code(p, 31), class_with_code(p, 32), class_with_code(p, 33)
    roles = chain_reader_fields(p)
    digest_funcs, read_loops = file_digest_funcs(p)
    report.assume("a c4 (SHA-512) mismatch occurs for every byte edit (collision resistance)")
    report.assume("chain files considered are those produced by the tool")

    # ------------------------------------------------------------------ R5.6 exit codes
    r6 = report.rule("R5.6", "the refusal classes are ClickException subclasses with exit codes 31 (modified), 32 (chain missing), 33 (manifest missing)", 3)
    for code, cq in ((31, c_mod), (32, c_nochain), (33, c_missing)):
        c = p.classes[cq]
        r6.instance(None, None, f"{cq} exit_code={code}")
        r6.check(codes.get(cq) == code, None, None, f"{cq} must carry exit_code {code}", construct=f"{cq}.exit_code")

    # ------------------------------------------------------------------ R5.1 verification loop
    r1 = report.rule(
        "R5.1",
        "the loader iterates the full generation list of the parsed chain; every path through the loop body either reaches the next iteration "
        "under the condition hash_file(join(ascmhl folder, g.<path>), g.<format>) == g.<digest> (full strings, same g) or raises: "
        "manifest absent => exit 33, digest differs => exit 31; folder present and chain absent => exit 32 before the chain is parsed",
        1,
    )
    chain_calls = [c for c, tg in p.calls[loader.qual] if any(t.endswith("chain_xml_parser.parse") for t in tg)]
    manifest_calls = [c for c, tg in p.calls[loader.qual] if any(t.endswith("hashlist_xml_parser.parse") for t in tg)]
    def _gen_loops(fn):
        out = []
        gg = cfg_of(fn)
        for n in gg.nodes:
            if n.kind == "loop" and isinstance(n.ast, ast.For):
                for o in pr.origins(n.ast.iter, fn):
                    terms = [o] + [x for x in subterms(o)]
                    if any(s2[0] == "attr" and s2[2] == "generations" for s2 in terms):
                        base_ok = any(is_call(s2, "chain_xml_parser.parse") for s2 in terms) or any(s2[0] == "attr" and s2[2] == "generations" and len(s2) > 3 and s2[3] and s2[3].endswith("MHLChain") for s2 in terms)
                        if base_ok:
                            out.append(n)
                            break
        return out

    vf = loader          # the function that contains the verification loop (the loader itself or a helper it calls)
    vcall = None         # the loader's call of that helper
    loops = _gen_loops(loader)
    if not loops:
        for call, tg in p.calls[loader.qual]:
            for t in tg:
                if t in p.funcs and p.funcs[t].module is loader.module and t != loader.qual:
                    cand = _gen_loops(p.funcs[t])
                    if cand:
                        vf, vcall, loops = p.funcs[t], call, cand
    if not loops:
        raise AnalysisError(f"{loader.qual}: no loop over the parsed chain's generations found (neither in the loader nor in a helper it calls)")
    lg = cfg_of(vf)
    if vcall is not None:
        # the helper must be handed the chain that was just parsed
        b = p.bind_args(vf, vcall)
        okarg = False
        for pn, a in b.items():
            if a is None:
                continue
            for o in pr.origins(a, loader):
                if is_call(o, "chain_xml_parser.parse"):
                    okarg = True
        r1.check(okarg, loader, vcall, "the verification helper is not given the chain that was parsed from this history's chain file", construct="verification helper argument")
    for loop in loops:
        r1.instance(vf, loop.ast, f"for {norm(loop.ast.target)} in {norm(loop.ast.iter)}")
        r1.check(is_plain_iter(p, loop.ast.iter) and isinstance(loop.ast.iter, (ast.Attribute, ast.Name)), vf, loop.ast.iter, "the loop does not iterate the full, unmodified generation list", construct=loop.ast.iter)
        gvar = loop.ast.target.id if isinstance(loop.ast.target, ast.Name) else None
        if gvar is None:
            raise AnalysisError("verification loop target is not a simple name")
        n_back = 0
        for kind, conds, trail in loop_iteration_paths(lg, loop):
            wit = lg.fmt_path(trail)
            if kind == "back":
                n_back += 1
                ok, why = _has_digest_equality(p, pr, vf, lg, conds, gvar, roles, digest_funcs)
                last = trail[-2] if len(trail) > 1 else loop
                r1.check(ok, vf, last.ast if last.ast is not None else loop.ast, f"a path through the verification loop reaches the next generation without the digest comparison holding ({why})", construct=f"path to next iteration: {[ (norm(c), l) for c, l in conds ]}", witness=wit)
            elif kind == "raise":
                rs = trail[-2].ast
                cls = raised_class(p, vf, rs) if isinstance(rs, ast.Raise) else None
                # which branch?  exists(...) false => missing ; comparison unequal => modified
                branch = _branch_kind(p, pr, vf, conds, gvar, roles, digest_funcs)
                want = {"missing": c_missing, "modified": c_mod}.get(branch)
                r1.check(want is not None and cls == want, vf, rs, f"raise on the '{branch}' branch of the verification loop must be {want} (exit {codes.get(want)}), found {cls}", witness=wit)
            else:
                last = trail[-2] if len(trail) > 1 else loop
                r1.check(False, vf, last.ast, f"the verification loop can be left by '{kind}' before every generation was checked", construct=f"{kind}: {norm(last.ast)}", witness=wit)
        if n_back == 0:
            r1.check(False, vf, loop.ast, "verification loop has no path to a next iteration", construct="no back edge")
    # chain-missing guard precedes the chain parse
    nochain_raises = [n for n in g.nodes if n.kind == "stmt" and isinstance(n.ast, ast.Raise) and raised_class(p, loader, n.ast) == c_nochain]
    r1.check(len(nochain_raises) >= 1, loader, loader.node, f"no raise of {c_nochain} (exit 32) in the loader", construct="raise NoMHLChain")
    for rn in nochain_raises:
        # conditions: the test nodes dominating the raise
        tests = [n for n in g.nodes if n.kind == "test" and g.dominates(n, rn)]
        texts = [norm(t.ast) for t in tests]
        ok = len(tests) == 2 and all("os.path.exists" in t for t in texts)
        r1.check(ok, loader, rn.ast, f"exit-32 raise must be guarded by 'ascmhl folder exists' and 'chain file does not exist' only; guards found {texts}")
        for cc in chain_calls:
            cn = g.node_for(cc)
            first = min(tests, key=lambda t: t.id) if tests else None
            before = first is not None and g.dominates(first, cn) and rn.id not in g.reachable_from([cn])
            r1.check(before, loader, cc, "the chain-missing test does not precede the chain parse")

    # ------------------------------------------------------------------ R5.2 verify before trust
    r2 = report.rule("R5.2", "no manifest is parsed and no child history discovered unless every chain entry was verified first (or the chain is empty)", 2)
    if vcall is None:
        empties = {n.id for n in g.nodes if n.kind == "test" and norm(n.ast) in {norm(l.ast.iter) for l in loops}}
        guard = {l.id for l in loops} | empties
    else:
        guard = {g.node_for(vcall).id}
        # inside the helper: the normal exit is reached only through the loop or through an emptiness test of the same list
        h_emp = {n.id for n in lg.nodes if n.kind == "test" and norm(n.ast) in {norm(l.ast.iter) for l in loops}}
        bypass = lg.find_path(lg.entry, {lg.exit.id}, avoid={l.id for l in loops} | h_emp)
        r2.instance(vf, vf.node, "verification helper")
        r2.check(bypass is None, vf, vf.node, "the verification helper can return without entering the verification loop", witness=lg.fmt_path(bypass) if bypass else None, construct="helper bypass")
    later = [(c, "manifest parse") for c in manifest_calls]
    later += [(c, "child discovery") for c, tg in p.calls[loader.qual] if any("child" in t and t in p.funcs for t in tg)]
    if len(later) < 2:
        raise AnalysisError("loader: manifest parse / child discovery call sites not found")
    for c, what in later:
        cn = g.node_for(c)
        r2.instance(loader, c, what)
        path = g.find_path(g.entry, {cn.id}, avoid=guard)
        r2.check(path is None, loader, c, f"{what} is reachable without passing the chain verification loop", witness=g.fmt_path(path) if path else None)
        # and the loop's only normal exit is exhaustion
    # ------------------------------------------------------------------ R5.3 same door
    r3 = report.rule("R5.3", "the XML parsers are called only by the history class's loaders (and unshipped dev commands); child histories are created only by calling the loader", 4)
    unshipped = unshipped_modules(p)
    hist_cls = loader.cls
    for parser in ("ascmhl.hashlist_xml_parser.parse", "ascmhl.chain_xml_parser.parse"):
        for cf, call in callers_of(p, parser):
            r3.instance(cf, call, f"{parser.split('.')[-2]}.parse called from {cf.qual}")
            r3.check(cf.cls == hist_cls or cf.module.name in unshipped, cf, call, f"{parser} is called outside the history loaders: manifests/chains read here bypass chain verification")
    # manifest parse callers inside the history class: the loader (verified) or a packing-list loader (no chain by definition)
    for cf, call in callers_of(p, "ascmhl.hashlist_xml_parser.parse"):
        if cf.cls == hist_cls and cf is not loader:
            tg = {t for _, ts in p.calls[cf.qual] for t in ts}
            is_pl = not any("child" in t for t in tg if t in p.funcs)
            r3.check(is_pl and "packing" in cf.name, cf, call, f"{cf.qual} parses a manifest without chain verification and is not the packing-list loader")
    child_adders = [f for f in p.funcs.values() if f.cls == hist_cls and any(isinstance(n, ast.Call) and isinstance(n.func, ast.Attribute) and n.func.attr == "append" and norm(n.func.value).endswith("child_histories") for n in walk_no_nested(f.node))]
    sites = 0
    for adder in child_adders:
        for cf, call in callers_of(p, adder.qual):
            sites += 1
            r3.instance(cf, call, "child history registered")
            ok = False
            for a in call.args[:1]:
                for o in pr.origins(a, cf):
                    ok = ok or is_call(o, loader.qual)
            r3.check(ok, cf, call, "a child history is registered that does not come from the verifying loader")
    stores = [(f, v) for f, v in pr.field_stores(hist_cls, "child_histories")]
    for f, v in stores:
        r3.check(isinstance(v, ast.List) and not v.elts, f, v, "child_histories is assigned something other than an empty list", construct=f"child_histories = {norm(v)}")
    if sites == 0:
        raise AnalysisError("no site registering child histories found")

    # ------------------------------------------------------------------ R5.7 nothing hides a nested history from the loader
    r7 = report.rule(
        "R5.7",
        "discovery: while walking the tree below a history root, every directory (other than the root itself) that contains an ascmhl folder is handed to the verifying loader; "
        "no further condition can exempt a nested ascmhl folder (an emptied or chain-less one must still be refused with 32/33)",
        1,
    )
    disc = [f for f in p.funcs.values() if f.cls == hist_cls and loader.qual in [t for _, tg in p.calls[f.qual] for t in tg] and any(t == "ext:os.walk" for _, tg in p.calls[f.qual] for t in tg)]
    if not disc:
        raise AnalysisError("child-history discovery (method walking the tree and calling the loader) not found")
    for df in disc:
        gd = cfg_of(df)
        for call, tg in p.calls[df.qual]:
            if loader.qual in tg:
                r7.instance(df, call, norm(call)[:80])
                deps = [(tt, l) for tt, l in gd.control_deps(gd.node_for(call), through_loops=False) if tt.kind == "test"]  # conditions of the same walk iteration
                extra = []
                seen_root, seen_in = False, False
                from .common import atomic_deps as _ad

                for tt, l in deps:
                    for ctxt, cl in _ad(tt.ast, l):
                        s2 = ctxt.replace(" ", "")
                        # canonical polarity: `a != b` T  ==  (`a == b`, F);  `x not in y` F == (`x in y`, T)
                        if "==" in s2 and cl == "F" and "root" in s2:
                            seen_root = True
                        elif s2.startswith("ascmhl_folder_namein") and cl == "T":
                            seen_in = True
                        else:
                            extra.append((ctxt, cl))
                # ... membership in the names as listed by the walk, not in a transformed copy of them
                for tt, l in deps:
                    for cmpn in [x for x in ast.walk(tt.ast) if isinstance(x, ast.Compare) and len(x.ops) == 1 and isinstance(x.ops[0], (ast.In, ast.NotIn)) and "ascmhl_folder_name" in norm(x.left)]:
                        for o in pr.origins(cmpn.comparators[0], df):
                            plain = o[0] == "elem" and any(st_[0] == "call" and st_[1].endswith("os.walk") for st_ in subterms(o)) and not any(st_[0] == "op" for st_ in subterms(o))
                            r7.check(plain, df, cmpn, f"the discovery looks for the history folder name in `{norm(cmpn.comparators[0])[:50]}` ({show(o)[:60]}), not in the directory names as listed: a folder whose name merely resembles it (other case, stripped, ...) is taken for a nested history although the loader, which joins the exact name, finds none there - create then writes a stray history into that folder, verify refuses the tree", construct="history folder name matched against transformed directory names")
                r7.check(seen_root and seen_in and not extra, df, call, f"a nested history is loaded (and thereby verified) only under the additional condition {extra}: a nested ascmhl folder that fails it is silently treated as ordinary content", construct=f"child load under extra condition {extra}")
                a0 = call.args[0] if call.args else None
                r7.check(a0 is not None and all(o[0] == "elem" and is_call(o[1], "os.walk") for o in pr.origins(a0, df)) or (a0 is not None and any(o[0] == "elem" for o in pr.origins(a0, df))), df, call, "the nested history is not loaded from the directory that contains the ascmhl folder")

    # ... and the walk is not pruned: os.walk (top-down) descends only into what is left in its dirnames list - the list may be re-ordered, nothing else
    for df in disc:
        for lp in [n for n in walk_no_nested(df.node) if isinstance(n, ast.For) and isinstance(n.iter, ast.Call) and norm(n.iter.func).endswith("os.walk") and isinstance(n.target, ast.Tuple) and len(n.target.elts) == 3 and isinstance(n.target.elts[1], ast.Name)]:
            dn = lp.target.elts[1].id
            r7.instance(df, lp, f"walk over {norm(lp.iter)[:40]}: dirnames `{dn}`")
            if any(k.arg == "topdown" and p.fold(k.value, df) is False for k in lp.iter.keywords):
                continue
            for st in lp.body:
                for n in ast.walk(st):
                    bad = None
                    if isinstance(n, ast.Assign) and any((isinstance(t, ast.Subscript) and isinstance(t.value, ast.Name) and t.value.id == dn) or (isinstance(t, ast.Name) and t.id == dn) for t in n.targets):
                        v = n.value
                        if not (isinstance(v, ast.Call) and norm(v.func) in ("sorted", "list", "reversed") and len(v.args) == 1 and isinstance(v.args[0], ast.Name) and v.args[0].id == dn and not any(k.arg == "key" for k in v.keywords)):
                            bad = n
                    elif isinstance(n, ast.Call) and isinstance(n.func, ast.Attribute) and isinstance(n.func.value, ast.Name) and n.func.value.id == dn and n.func.attr in ("remove", "pop", "clear", "__delitem__"):
                        bad = n
                        if n.func.attr == "clear":
                            # not going deeper below a folder whose history was just handed to the loader (which discovers what is beneath) is the one legitimate pruning
                            blk = parent(parent(n))
                            body = getattr(blk, "body", [])
                            stmt = parent(n)
                            if stmt in body and any(any(isinstance(x, ast.Call) and loader.qual in p.resolve_call(x, df) for x in ast.walk(b4)) for b4 in body[: body.index(stmt)]):
                                bad = None
                    elif isinstance(n, ast.Delete) and any(isinstance(t, ast.Subscript) and isinstance(t.value, ast.Name) and t.value.id == dn for t in n.targets):
                        bad = n
                    if bad is not None:
                        r7.check(False, df, bad, f"the discovery edits the directory list of os.walk (`{norm(bad)[:70]}`): folders taken out of it are never entered, so a nested history below such a folder is not found - it is neither verified nor given a new generation, and its files are attributed to the history above", construct="os.walk dirnames pruned in the child discovery")

    # ... and the loader runs the discovery on every path that returns a history (no option, flag or early return can switch it off:
    # nested chains are only ever verified as a side effect of loading the children)
    gl5 = cfg_of(loader)
    dq = {df.qual for df in disc}
    dnodes = {gl5.node_for(c).id for c, tg in p.calls[loader.qual] if any(t in dq for t in tg)}
    rets = [gl5.node_for(n) for n in walk_no_nested(loader.node) if isinstance(n, ast.Return)]
    r7.instance(loader, loader.node, "loader -> discovery on every returning path")
    if not dnodes and loader.qual in dq:
        # the discovery walk sits in the loader itself (helper inlined): its position is judged through the recursive loader call
        dnodes = {gl5.node_for(c).id for c, tg in p.calls[loader.qual] if loader.qual in tg}
    if not dnodes:
        r7.check(False, loader, loader.node, "the loader does not call the child-history discovery at all: nested histories are never loaded, hence never verified", construct="loader without discovery")
    for rn in rets:
        path = gl5.find_path(gl5.entry, {rn.id}, avoid=dnodes)
        r7.check(path is None, loader, rn.ast, "the loader can return a history without having searched (and thereby verified) its nested histories: " + (f"path {gl5.fmt_path(path)[:200]}" if path else ""), witness=gl5.fmt_path(path) if path else None, construct="loader returns without child discovery")

    # ------------------------------------------------------------------ R5.4 load before act
    r4 = report.rule(
        "R5.4",
        "in every history-reading command, each call that can reach a file-system-mutating site is dominated by a loader call (or its callee itself loads first); the loader reaches no mutating site",
        5,
    )
    mut_funcs = _mutating_closure(p)
    lr = p.reachable([loader.qual])
    bad = [q for q in lr if q in mut_funcs["direct"]]
    r4.instance(loader, loader.node, "loader is write-free")
    r4.check(not bad, loader, loader.node, f"the loader can reach file-system-mutating code: {bad}", construct="loader reaches MUT")
    memo = {}
    for name in ("create", "verify", "diff", "info", "flatten"):
        c = need(cmds, name)
        reach = p.reachable([c.qual])
        if loader.qual not in reach:
            r4.check(False, c, c.node, f"history-reading command {name} never calls the loader", construct=f"{name}: no load")
            continue
        r4.instance(c, c.node, f"command {name}")
        for viol in _loads_first(p, c, loader, mut_funcs, memo):
            f, call = viol
            r4.check(False, f, call, f"in command '{name}': this call can modify the file system and is not preceded by loading (= verifying) the history", witness=" -> ".join(p.witness(reach, f.qual)))
        r4.check(True, c, c.node, "")

    # ------------------------------------------------------------------ R5.5 nothing swallows the refusal
    r5 = report.rule("R5.5", "no try/except encloses a call that can reach the loader (the refusal propagates to click, which exits with the class's code)", 5)
    reaches_loader = {fq for fq in p.funcs if loader.qual in p.reachable([fq])}
    n_sites = 0
    for fq, f in p.funcs.items():
        if f.module.name in unshipped:
            continue
        for call, tg in p.calls[fq]:
            if any(t in reaches_loader for t in p.may_targets(tg)):
                n_sites += 1
                x = parent(call)
                enclosing = []
                while x is not None and x is not f.node:
                    if isinstance(x, ast.Try) and x.handlers and _in_body(call, x):
                        enclosing.append(x)
                    x = parent(x)
                if n_sites <= 12:
                    r5.instance(f, call, "call reaching the loader")
                r5.check(not enclosing, f, call, "a call that can reach the loader sits inside try/except: the refusal (31/32/33) can be swallowed", construct=f"try around {norm(call)[:80]}")
    if n_sites < 5:
        raise AnalysisError("fewer than 5 call sites reaching the loader")

    # ------------------------------------------------------------------ R5.8
    r8 = report.rule(
        "R5.8",
        "no chain entry is lost between the chain file and the verification loop: the chain reader hands every closed <hashlist> element to append_generation under its dispatch "
        "tests only, append_generation appends on every path, and nothing else removes / reorders / replaces the generation list",
        3,
    )
    creader = p.funcs.get("ascmhl.chain_xml_parser.parse")
    appg = p.funcs.get("ascmhl.chain.MHLChain.append_generation")
    if creader is None or appg is None:
        raise AnalysisError("chain reader / MHLChain.append_generation not found")
    ga = cfg_of(appg)
    apps = [ga.node_for(c) for c, tg in p.calls[appg.qual] if isinstance(c.func, ast.Attribute) and c.func.attr == "append" and norm(c.func.value).endswith(".generations") and c.args and norm(c.args[0]) == appg.params[1]]
    r8.instance(appg, appg.node, "append_generation")
    path = ga.find_path(ga.entry, {ga.exit.id}, avoid={a.id for a in apps}) if apps else [ga.entry]
    r8.check(bool(apps) and path is None, appg, appg.node, "append_generation can return without appending the entry: a chain entry that is skipped here is never compared with its manifest (a modified or removed manifest of that generation goes unnoticed)", witness=ga.fmt_path(path) if path and apps else None, construct="append_generation skips entries")
    gr = cfg_of(creader)
    sites = [c for c, tg in p.calls[creader.qual] if appg.qual in tg]
    if not sites:
        raise AnalysisError("chain reader does not call append_generation")
    # the variable(s) holding the open per-entry container: whatever is assigned a new MHLChainGeneration in the reader
    conts = tuple(sorted({norm(n.targets[0]) for n in walk_no_nested(creader.node) if isinstance(n, ast.Assign) and len(n.targets) == 1 and isinstance(n.targets[0], ast.Name) and isinstance(n.value, ast.Call) and p.resolve_name_expr(n.value.func, creader.module) == "ascmhl.chain.MHLChainGeneration"})) or ("current_object",)
    for c in sites:
        r8.instance(creader, c, norm(c)[:70])
        extra = []
        for t, l in gr.control_deps(gr.node_for(c), through_loops=False):
            if t.kind != "test":
                continue
            tt = norm(t.ast).replace('"', "'")
            if _dispatch_only(p, creader, t.ast, conts):
                continue
            extra.append((tt, l))
        r8.check(not extra, creader, c, f"the chain reader keeps a parsed <hashlist> entry only under the additional condition {extra}: dropped entries are never verified", construct=f"chain entry kept under {extra}")
    # a container is opened for every <hashlist> start tag (and only the open-container test may prevent it)
    from .common import atomic_deps

    gens_cls = "ascmhl.chain.MHLChainGeneration"
    opens = [n for n in walk_no_nested(creader.node) if isinstance(n, ast.Assign) and isinstance(n.value, ast.Call) and p.resolve_name_expr(n.value.func, creader.module) == gens_cls]
    if not opens:
        raise AnalysisError("chain reader: creation of the per-entry container not found")
    for o_ in opens:
        r8.instance(creader, o_, norm(o_)[:70])
        atoms = set()
        for t, l in gr.control_deps(gr.node_for(o_), through_loops=False):
            if t.kind == "test":
                atoms |= set(atomic_deps(t.ast, l))
        cv = norm(o_.targets[0])  # the variable that holds the open container
        okc = ("tag == 'hashlist'", "T") in atoms and all(a in (("tag == 'hashlist'", "T"), ("event == 'start'", "T"), (cv, "F"), (f"{cv} is None", "T"), (f"{cv} is not None", "F"), ("event == 'end'", "F")) for a in atoms)
        r8.check(okc, creader, o_, f"the chain reader opens an entry container under {sorted(atoms)} instead of 'start of a <hashlist> element while none is open': entries are merged or skipped and never verified", construct=f"entry container opened under {sorted(atoms)}")
    nmod = 0
    for fq, f in p.funcs.items():
        if f.module.name in unshipped:
            continue
        for n in walk_no_nested(f.node):
            bad = None
            if isinstance(n, ast.Call) and isinstance(n.func, ast.Attribute) and n.func.attr in ("pop", "remove", "clear", "sort", "reverse", "insert") and isinstance(n.func.value, ast.Attribute) and n.func.value.attr == "generations":
                bad = f".{n.func.attr}()"
            elif isinstance(n, (ast.Assign, ast.AugAssign, ast.Delete)):
                for t in (n.targets if isinstance(n, (ast.Assign, ast.Delete)) else [n.target]):
                    b = t.value if isinstance(t, ast.Subscript) else t
                    if isinstance(b, ast.Attribute) and b.attr == "generations" and not (f.name == "__init__" and isinstance(t, ast.Attribute)):
                        bt = p.etype(b.value, f)
                        if bt is None or (bt[0] == "C" and bt[1].endswith("MHLChain")):
                            bad = "assignment / deletion"
            if bad:
                nmod += 1
                r8.instance(f, n, norm(n)[:70])
                r8.check(False, f, n, f"the chain's generation list is modified by {bad} outside append_generation: entries can disappear or change place before they are verified", construct=f"generation list modified: {norm(n)[:60]}")
    r8.instance(None, None, f"{nmod} other modification site(s) of MHLChain.generations")

    # ------------------------------------------------------------------ R5.9
    r9 = report.rule(
        "R5.9",
        "the loader has the first word: where a function loads a history, a refusal that can be reached without passing the load may depend on whether a folder exists, "
        "never on what the ascmhl folder contains (listing / globbing / opening it): with a manifest or the chain removed the verdict is the loader's 33 / 32 / 31, not `no history`",
        5,
    )
    content_readers = {"listdir", "scandir", "walk", "glob", "iglob", "open", "stat", "lstat", "getsize", "iterdir", "rglob", "fnmatch", "filter"}
    n_load_sites = 0
    for fq, f in p.funcs.items():
        if f.module.name in unshipped:
            continue
        loads = [c for c, tg in p.calls[fq] if loader.qual in p.may_targets(tg)]
        if not loads:
            continue
        g = cfg_of(f)
        n_load_sites += len(loads)
        r9.instance(f, loads[0], "function loading a history")
        load_ids = {g.node_for(c).id for c in loads}
        for n in g.nodes:
            if n.kind != "stmt" or not isinstance(n.ast, ast.Raise) or n.id in load_ids:
                continue
            if g.find_path(g.entry, {n.id}, avoid=load_ids) is None:
                continue
            bad = []
            for t, l in g.control_deps(n):
                if t.kind != "test":
                    continue
                seen_calls = [norm(c.func) for c in ast.walk(t.ast) if isinstance(c, ast.Call)]
                for nm_ in [x for x in ast.walk(t.ast) if isinstance(x, ast.Name) and isinstance(x.ctx, ast.Load)]:
                    for o in pr.origins(nm_, f):
                        for s_ in subterms(o):
                            if s_[0] == "call":
                                seen_calls.append(s_[1])
                for c_ in seen_calls:
                    if c_.split(":")[-1].split(".")[-1] in content_readers:
                        bad.append(f"{norm(t.ast)[:70]} <- {c_}")
            r9.check(not bad, f, n.ast, f"a refusal reachable before the history is loaded depends on the contents of a folder ({sorted(set(bad))[:2]}): a history whose manifest or chain file was removed is answered with this verdict instead of the loader's 33 / 32", construct=f"pre-load refusal on folder contents in {f.name}")
    if n_load_sites < 5:
        raise AnalysisError("fewer than 5 call sites of the loader")

    # ---- rules shared with other properties (same mechanism, same rule, reported under every property it can break)
    include_rules(report, p, 'c03', ['R3.17'], 'the refusal codes are raised through the `errors` module on early paths')
    include_rules(report, p, 'c06', ['R6.4'], 'a manifest is checked against the digest taken when it was written: the chain rewrite copies the existing entries verbatim (it never re-hashes an old manifest, which would bless a later modification)')
    include_rules(report, p, 'c03', ['R3.11'], "the loader's and the commands' verdicts are reported through the logger on the way to the exit code")
    include_rules(report, p, 'c01', ['R1.1', 'R1.4'], 'manifest tampering is detected by the c4 digest of the complete manifest file')
    report.not_decided += ["that every byte edit changes the c4 digest (trusted)", "behaviour on chain files not produced by the tool", "concrete exit codes observed at run time"]


def _dispatch_only(p, f, test, containers=("current_object",)) -> bool:
    """the condition inspects only the parser state (event kind, tag name, which container is open) - never the content of the entry"""
    for n in ast.walk(test):
        if isinstance(n, ast.Attribute):
            base = n
            while isinstance(base, ast.Attribute):
                base = base.value
            if isinstance(base, ast.Name) and base.id in ("element",) and n.attr != "tag":
                return False
            if isinstance(base, ast.Name) and base.id in containers:
                return False
        if isinstance(n, ast.Call) and norm(n.func) not in ("type", "isinstance", "len"):
            if not (isinstance(n.func, ast.Attribute) and n.func.attr in ("split", "endswith", "startswith") and "tag" in norm(n.func.value)):
                return False
        if isinstance(n, ast.Name):
            if n.id in ("event", "tag", "element", "type", "isinstance", "len", "None", "True", "False") or n.id in containers:
                continue
            q = p.resolve_name_expr(n, f.module)
            if q in p.classes or (q or "").endswith(("supported_hashformats", "ascmhl_supported_hashformats")):
                continue
            return False
    return True


def _in_body(node, tr: ast.Try):
    for s in tr.body:
        for x in ast.walk(s):
            if x is node:
                return True
    return False


def _mutating_closure(p):
    direct = set()
    for fq, f in p.funcs.items():
        for call, tg in p.calls[fq]:
            for t in tg:
                if classify(p, call, t, f)[0] == "MUT":
                    direct.add(fq)
    reaching = {fq for fq in p.funcs if any(q in direct for q in p.reachable([fq]))}
    return {"direct": direct, "reaching": reaching}


def _loads_first(p, f, loader, mut, memo, depth=0):
    """list of (func, call) sites violating load-before-act in f (transitively)"""
    if f.qual in memo:
        return memo[f.qual]
    memo[f.qual] = []
    g = cfg_of(f)
    loader_nodes = [g.node_for(c) for c, tg in p.calls[f.qual] if loader.qual in tg]
    out = []
    for call, tg in p.calls[f.qual]:
        direct_mut = any(classify(p, call, t, f)[0] == "MUT" for t in tg)
        targets = [t for t in p.may_targets(tg) if t in mut["reaching"]]
        if not direct_mut and not targets:
            continue
        if loader.qual in tg:
            continue
        cn = g.node_for(call)
        if any(ln is not cn and g.dominates(ln, cn) for ln in loader_nodes):
            continue
        if direct_mut:
            out.append((f, call))
            continue
        for t in targets:
            out += _loads_first(p, p.funcs[t], loader, mut, memo, depth + 1) if depth < 12 else [(f, call)]
    memo[f.qual] = out
    return out


def _compare_sides(p, pr, loader, cond):
    if isinstance(cond, ast.Compare) and len(cond.ops) == 1 and isinstance(cond.ops[0], (ast.Eq, ast.NotEq)):
        return cond.left, cond.comparators[0], isinstance(cond.ops[0], ast.Eq)
    return None


def _digest_compare(p, pr, loader, cond, gvar, roles, digest_funcs):
    """is `cond` the comparison hash_file(join(folder, g.path), g.format) ==/!= g.digest ?  returns (is_it, is_eq, why)"""
    cs = _compare_sides(p, pr, loader, cond)
    if not cs:
        return False, None, "not an ==/!= comparison"
    l, r, is_eq = cs
    for a, b in ((l, r), (r, l)):
        ao = pr.origins(a, loader)
        bo = pr.origins(b, loader)
        if len(ao) != 1 or len(bo) != 1:
            continue
        ta, tb = ao[0], bo[0]
        if ta[0] == "call" and ta[1] in digest_funcs:
            # recorded side: attr(elem(generations), digest)
            rec_ok = tb[0] == "attr" and tb[2] == roles["digest"] and tb[1][0] == "elem"
            if not rec_ok:
                return True, is_eq, f"digest is compared with `{norm(b)}` ({show(tb)[:80]}), not with the full recorded digest of the same chain entry"
            args = ta[2]
            if len(args) < 2:
                return True, is_eq, "hash call without path and format"
            path_t, fmt_t = args[0], args[1]
            fmt_ok = fmt_t[0] == "attr" and fmt_t[2] == roles["format"] and sig(fmt_t[1], 3) == sig(tb[1], 3)
            path_ok = is_call(path_t, "os.path.join") and len(path_t[2]) == 2 and path_t[2][1][0] == "attr" and path_t[2][1][2] == roles["path"] and sig(path_t[2][1][1], 3) == sig(tb[1], 3)
            if not fmt_ok:
                return True, is_eq, f"hash format `{show(fmt_t)[:60]}` is not the format recorded for the same chain entry"
            if not path_ok:
                return True, is_eq, f"hashed path `{show(path_t)[:80]}` is not join(<ascmhl folder>, <entry file name>) of the same chain entry"
            return True, is_eq, ""
    return False, None, "no side is a file digest call"


def _has_digest_equality(p, pr, loader, g, conds, gvar, roles, digest_funcs):
    why = "no digest comparison on this path"
    for cond, label in conds:
        if isinstance(cond, (ast.For, ast.While)):
            continue
        is_it, is_eq, w = _digest_compare(p, pr, loader, cond, gvar, roles, digest_funcs)
        if is_it:
            if w:
                return False, w
            if (is_eq and label == "T") or (not is_eq and label == "F"):
                return True, ""
            why = "digest comparison is on this path with the wrong polarity"
    return False, why


def _branch_kind(p, pr, loader, conds, gvar, roles, digest_funcs):
    for cond, label in reversed(conds):
        if isinstance(cond, (ast.For, ast.While)):
            continue
        is_it, is_eq, w = _digest_compare(p, pr, loader, cond, gvar, roles, digest_funcs)
        if is_it and ((is_eq and label == "F") or (not is_eq and label == "T")):
            return "modified"
        if isinstance(cond, ast.Call) and norm(cond.func) == "os.path.exists" and label == "F":
            return "missing"
    return "unknown"


def finish(report):
    return report.finish(
        level="other",
        explanation="structural necessary conditions of C05 decided over all paths of the loader and all call sites that reach it: verification loop "
        "shape and raise classes, verify-before-trust dominance, who-may-call the XML parsers, load-before-write in every command, no enclosing try. "
        "The behaviour (exit code observed for each tampering) is not executed.",
    )
