"""C03 - verification reports every discrepancy and never a false one (structural clauses)."""
from __future__ import annotations

import ast
import itertools

from sa.cfg import cfg_of
from sa.flow import show, sig, subterms
from sa.model import AnalysisError, norm, parent, walk_no_nested

from .common import (
    lazy_reuse_rule,
    atomic_deps,
    include_rules,
    EXIT_CODES_SPEC,
    alts,
    callers_of,
    class_with_code,
    commands,
    exit_code_classes,
    is_call,
    is_plain_iter,
    loop_iteration_paths,
    need,
    prov,
    raised_class,
    rename_rewrite_ok,
    rename_rewrite_sites,
    unshipped_modules,
)

EXPECTED_CODES = {
    "CompletenessCheckFailedException": 10,
    "VerificationFailedException": 11,
    "VerificationDirectoriesFailedException": 12,
    "SingleFileNotFoundException": 20,
    "NewFilesFoundException": 21,
    "NoMHLHistoryException": 30,
    "ModifiedMHLManifestFileException": 31,
    "NoMHLChainException": 32,
    "MissingMHLManifestException": 33,
}


def tfm_func(p):
    out = [f for f in p.funcs.values() if f.module.name.endswith("commands") and any(isinstance(n, ast.Call) and isinstance(n.func, ast.Attribute) and n.func.attr == "match_file" for n in walk_no_nested(f.node)) and "CompletenessCheckFailedException" in norm(f.node)]
    if len(out) != 1:
        raise AnalysisError("missing-file filter not found")
    return out[0]


def pipeline_funcs(p, tfm):
    """functions that compute the expected-path set and hand it to the missing-file filter: create / verify / diff"""
    out = []
    for cf, call in callers_of(p, tfm.qual):
        if cf not in [x for x, _ in out]:
            out.append((cf, call))
    return out


def traversal_loop(p, f):
    """the outer `for folder, children in <traversal>(...)` loop of f and its inner child loop"""
    for n in walk_no_nested(f.node):
        if isinstance(n, ast.For) and isinstance(n.iter, ast.Call) and any(t.endswith("post_order_lexicographic") for t in p.resolve_call(n.iter, f)):
            inner = [m for m in n.body if isinstance(m, ast.For)]
            tgt = n.target
            if isinstance(tgt, ast.Tuple) and len(tgt.elts) == 2:
                inner = [m for m in inner if isinstance(m.iter, ast.Name) and m.iter.id == tgt.elts[1].id]
            if inner:
                return n, inner[0]
    return None, None


# ---------------------------------------------------------------------- exit tail evaluation (R3.6)
class Tail:
    def __init__(self, p, f, stmts, tfm):
        self.p, self.f, self.stmts, self.tfm = p, f, stmts, tfm
        self.atoms = []  # (key, description)

    def atom(self, e):
        k = norm(e)
        if k not in [a for a in self.atoms]:
            self.atoms.append(k)
        return k

    def collect(self):
        for s in self.stmts:
            for n in ast.walk(s):
                if isinstance(n, ast.If):
                    self._atoms_of(n.test)
        return self.atoms

    def _atoms_of(self, t):
        if isinstance(t, ast.BoolOp):
            for v in t.values:
                self._atoms_of(v)
        elif isinstance(t, ast.UnaryOp) and isinstance(t.op, ast.Not):
            self._atoms_of(t.operand)
        elif isinstance(t, ast.Name) and t.id in self.excvars():
            pass
        elif _none_test(t) is not None and _none_test(t)[0] in self.excvars():
            pass  # `exception is None` / `exception is not None`: the value of an exception variable, not an input
        else:
            self.atom(t)

    def excvars(self):
        out = set()
        for s in self.stmts:
            for n in ast.walk(s):
                if isinstance(n, ast.Assign) and len(n.targets) == 1 and isinstance(n.targets[0], ast.Name):
                    v = n.value
                    if isinstance(v, ast.Call):
                        tg = self.p.resolve_call(v, self.f)
                        if self.tfm.qual in tg or any(t.startswith("class:ascmhl.errors.") for t in tg):
                            out.add(n.targets[0].id)
                    if isinstance(v, ast.Constant) and v.value is None:
                        out.add(n.targets[0].id)
        return out

    def run(self, env, missing):
        """concrete run of the tail: env atom->bool; `missing` = the filter found missing files. returns raised class or None"""
        vals = {}
        codes = exit_code_classes(self.p)

        def ev(t):
            if isinstance(t, ast.BoolOp):
                r = [ev(v) for v in t.values]
                return all(r) if isinstance(t.op, ast.And) else any(r)
            if isinstance(t, ast.UnaryOp) and isinstance(t.op, ast.Not):
                return not ev(t.operand)
            if isinstance(t, ast.Name) and t.id in vals:
                return vals[t.id] is not None
            if _none_test(t) is not None and _none_test(t)[0] in vals:
                nm_, isnone = _none_test(t)
                return (vals[nm_] is None) == isnone
            return env[norm(t)]

        class Raised(Exception):
            def __init__(s, c):
                s.c = c

        def block(stmts):
            for s in stmts:
                if isinstance(s, ast.Assign) and len(s.targets) == 1 and isinstance(s.targets[0], ast.Name):
                    v = s.value
                    if isinstance(v, ast.Call):
                        tg = self.p.resolve_call(v, self.f)
                        if self.tfm.qual in tg:
                            vals[s.targets[0].id] = class_with_code(self.p, 10) if missing else None
                            continue
                        cls = [t[6:] for t in tg if t.startswith("class:ascmhl.errors.")]
                        if cls:
                            vals[s.targets[0].id] = cls[0]
                            continue
                    if isinstance(v, ast.Constant) and v.value is None:
                        vals[s.targets[0].id] = None
                        continue
                    if isinstance(v, ast.Name) and v.id in vals:
                        vals[s.targets[0].id] = vals[v.id]
                        continue
                    continue
                if isinstance(s, ast.If):
                    block(s.body if ev(s.test) else s.orelse)
                    continue
                if isinstance(s, ast.Raise):
                    e = s.exc
                    if isinstance(e, ast.Name) and e.id in vals:
                        raise Raised(vals[e.id])
                    c = self.p.resolve_name_expr(e.func if isinstance(e, ast.Call) else e, self.f.module)
                    raise Raised(c)
                if isinstance(s, ast.Return):
                    raise Raised(None)
                if isinstance(s, ast.Expr):
                    continue
                raise AnalysisError(f"{self.f.loc(s)}: statement kind {type(s).__name__} in the exit tail is outside the evaluator's inventory")

        try:
            block(self.stmts)
        except Raised as r:
            return r.c
        return None


def classify_atom(k, f, single_names):
    """role of a tail atom: 'failed' | 'new' | 'single-asked' | 'single-found' | 'other:<text>'"""
    s = k.replace(" ", "")
    if "failed" in s and (">0" in s or "!=0" in s):
        return "failed"
    if "new" in s and (">0" in s or "!=0" in s):
        return "new"
    if s in ("single_fileisnotNone",) or (s.endswith("isnotNone") and "single" in s):
        return "single-asked"
    if "found_single_file" in s or ("found" in s and "single" in s):
        return "single-found"
    return "other:" + k


def _none_test(t):
    """(`name`, True) for `name is None` / `name == None`, (`name`, False) for `name is not None` / `name != None`, else None"""
    if isinstance(t, ast.Compare) and len(t.ops) == 1 and isinstance(t.left, ast.Name) and isinstance(t.comparators[0], ast.Constant) and t.comparators[0].value is None:
        if isinstance(t.ops[0], (ast.Is, ast.Eq)):
            return t.left.id, True
        if isinstance(t.ops[0], (ast.IsNot, ast.NotEq)):
            return t.left.id, False
    return None


def run(report, p):
    pr = prov(p)
    cmds = commands(p)
    tfm = tfm_func(p)
    codes = exit_code_classes(p)
    report.assume("a digest mismatch occurs for every alteration (collision resistance)")

    # ------------------------------------------------------------------ R3.5
    r5 = report.rule("R3.5", "exit-code table: the error classes are ClickException subclasses with the exit codes the property fixes", 9)
    for cname, code in EXPECTED_CODES.items():
        q = "ascmhl.errors." + cname
        r5.instance(None, None, f"{cname} = {code}")
        r5.check(codes.get(q) == code, None, None, f"{cname} must be a ClickException with exit_code {code}, found {codes.get(q)}", construct=f"{cname}.exit_code")

    pipes = pipeline_funcs(p, tfm)
    if len(pipes) < 3:
        raise AnalysisError(f"expected the missing-file filter to be called from create, verify and diff; found {[f.qual for f, _ in pipes]}")

    # ------------------------------------------------------------------ R3.1
    r1 = report.rule(
        "R3.1",
        "expected-path pipeline (three siblings create/verify/diff): set_of_file_paths() of the loaded history -> rename rewrite -> discard(join(folder, item)) for EVERY traversed child "
        "before any skip -> argument of the missing-file filter with the same root the traversal walked; the only other subtraction is create's rename matches",
        3,
    )
    rewrites = {}
    for f, call in pipes:
        g = cfg_of(f)
        r1.instance(f, call, norm(call)[:100])
        arg0 = call.args[0] if call.args else None
        origs = [pr.inline(o, depth=2) for o in pr.origins(arg0, f)] if arg0 is not None else []
        origs = [a for o in origs for a in alts(o)]
        ok_src = bool(origs)
        subtractions = []
        for o in origs:
            t = o
            while t[0] == "op" and t[1] == "Sub":
                subtractions.append(t[2][1])
                t = t[2][0]
            good = t[0] == "op" and t[1] == "comp" and any(is_call(s, "MHLHistory.set_of_file_paths") for s in subterms(t))
            ok_src = ok_src and good
        r1.check(ok_src, f, call, "the set handed to the missing-file filter is not the rename-rewritten set_of_file_paths() of the loaded history", witness="; ".join(show(o)[:200] for o in origs))
        for sub in subtractions:
            okk = sub[0] == "op" and sub[1].startswith("collect-set")
            # only under rename detection
            r1.check(okk and "detect_renaming" in f.params, f, call, "paths are subtracted from the expected set outside rename detection", witness=show(sub)[:200])
        # the rewrite comprehension (here or in a helper this function calls)
        sites = rename_rewrite_sites(p, pr, f)
        if not sites and arg0 is not None and any(is_call(o, "set_of_file_paths") for o in pr.origins(arg0, f)):
            r1.check(False, f, call, "the recorded paths go to the missing-file check without being mapped through the rename map: every file renamed under -dr is reported missing by this command", construct="expected set without rename rewrite")
            continue
        if len(sites) != 1:
            raise AnalysisError(f"{f.qual}: expected exactly one rename rewrite of the expected set (a set comprehension over set_of_file_paths()), found {len(sites)}")
        okrw, why = rename_rewrite_ok(p, pr, sites[0][0], sites[0][1])
        rewrites[f.qual] = okrw
        r1.check(okrw, sites[0][0], sites[0][1], "the expected set is not mapped through the rename map: " + why, construct="rename rewrite")
        # discard for every traversed child
        outer, inner = traversal_loop(p, f)
        if outer is None:
            raise AnalysisError(f"{f.qual}: traversal loop not found")
        folder = outer.target.elts[0].id
        item = inner.target.elts[0].id if isinstance(inner.target, ast.Tuple) else None
        iloop = g.by_ast[id(inner)]
        discards = []
        setvar = arg0.id if isinstance(arg0, ast.Name) else None
        for n in ast.walk(inner):
            if isinstance(n, ast.Call) and isinstance(n.func, ast.Attribute) and n.func.attr == "discard" and norm(n.func.value) == setvar and n.args:
                a = n.args[0]
                tgt_ok = False
                for o in pr.origins(a, f):
                    tgt_ok = tgt_ok or (is_call(o, "os.path.join") and len(o[2]) == 2 and o[2][0][0] == "elem" and o[2][1][0] == "elem")
                if tgt_ok:
                    discards.append(g.node_for(n))
        r1.check(bool(discards), f, inner, "traversed children are never removed from the expected set: every recorded path would be reported missing", construct="no discard in child loop")
        if discards:
            starts = [(m, l) for m, l in iloop.succ if l == "iter"]
            path = g.find_path(iloop, {iloop.id, g.exit.id}, avoid={d.id for d in discards}, first_edges=starts)
            r1.check(path is None, f, inner, "a traversed child can be skipped without being removed from the expected set (it would be reported missing although it exists)", witness=g.fmt_path(path) if path else None, construct="child loop path without discard")
        # iterables plain
        r1.check(is_plain_iter(p, inner.iter), f, inner.iter, "the child loop iterates a slice / filtered view of the traversed children")
        # same root
        root_arg = call.args[1] if len(call.args) > 1 else None
        trav_root = outer.iter.args[0] if outer.iter.args else None
        r1.check(root_arg is not None and trav_root is not None and norm(root_arg) == norm(trav_root), f, call, "the missing-file filter is given a different root than the traversal walked")
    r1.check(len(rewrites) == len(pipes), None, None, "not every one of create / verify / diff rewrites its expected set through the rename map", construct="sibling rename rewrite")

    # ------------------------------------------------------------------ R3.2
    r2 = report.rule("R3.2", "set_of_file_paths covers every generation, every child history and every record (loops unsliced, add on every iteration)", 3)
    for q in ("ascmhl.history.MHLHistory.set_of_file_paths", "ascmhl.hashlist.MHLHashList.set_of_file_paths"):
        f = p.funcs.get(q)
        if f is None:
            raise AnalysisError(f"{q} not found")
        g = cfg_of(f)
        for n in walk_no_nested(f.node):
            if isinstance(n, ast.For):
                r2.instance(f, n, f"for {norm(n.target)} in {norm(n.iter)}")
                r2.check(is_plain_iter(p, n.iter), f, n.iter, "recorded paths are collected from a slice / filtered view")
                ln = g.by_ast[id(n)]
                sinks = {g.node_for(c).id for s in n.body for c in ast.walk(s) if isinstance(c, ast.Call) and isinstance(c.func, ast.Attribute) and c.func.attr in ("add", "update")}
                starts = [(m, l) for m, l in ln.succ if l == "iter"]
                path = g.find_path(ln, {ln.id, g.exit.id}, avoid=sinks, first_edges=starts)
                r2.check(bool(sinks) and path is None, f, n, "an iteration can finish without adding its paths to the expected set", witness=g.fmt_path(path) if path else None)
        for n in walk_no_nested(f.node):
            if isinstance(n, (ast.SetComp, ast.ListComp, ast.GeneratorExp)):
                for gen in n.generators:
                    r2.instance(f, n, f"{{... for {norm(gen.target)} in {norm(gen.iter)}}}")
                    r2.check(is_plain_iter(p, gen.iter) and not gen.ifs, f, n, "recorded paths are collected from a slice / filtered view", construct=f"comprehension over {norm(gen.iter)}")
        loops = [norm(n.iter) for n in walk_no_nested(f.node) if isinstance(n, ast.For)] + [norm(gen.iter) for n in walk_no_nested(f.node) if isinstance(n, (ast.SetComp, ast.ListComp, ast.GeneratorExp)) for gen in n.generators]
        if q.endswith("MHLHistory.set_of_file_paths"):
            r2.check(any(x.endswith("hash_lists") for x in loops) and any(x.endswith("child_histories") for x in loops), f, f.node, "set_of_file_paths must cover all generations and all child histories", construct="set_of_file_paths loops")

    # ------------------------------------------------------------------ R3.3
    r3 = report.rule("R3.3", "the missing-file filter returns the completeness exception iff the filtered list is non-empty and names every remaining path", 1)
    g = cfg_of(tfm)
    r3.instance(tfm, tfm.node, "missing-file filter")
    rets = [n for n in g.nodes if n.kind == "stmt" and isinstance(n.ast, ast.Return)]
    none_rets = [n for n in rets if n.ast.value is None or (isinstance(n.ast.value, ast.Constant) and n.ast.value.value is None)]
    exc_rets = [n for n in rets if n not in none_rets]
    c10 = class_with_code(p, 10)
    ok = len(exc_rets) == 1 and isinstance(exc_rets[0].ast.value, ast.Call) and p.resolve_name_expr(exc_rets[0].ast.value.func, tfm.module) == c10
    r3.check(ok, tfm, tfm.node, "the filter does not return the completeness exception (exit 10) for a non-empty list", construct="return Completeness")
    # the filtered collection: the variable bound to the comprehension / loop that applies the ignore match
    filt = None
    for n in walk_no_nested(tfm.node):
        if isinstance(n, ast.Assign) and isinstance(n.value, (ast.ListComp, ast.SetComp)) and any("match_file" in norm(i) for gen in n.value.generators for i in gen.ifs) and isinstance(n.targets[0], ast.Name):
            filt = n.targets[0].id
    if filt is None:
        raise AnalysisError(f"{tfm.qual}: filtered list of missing paths not recognised")
    for nr in none_rets:
        deps = [(t, l) for t, l in g.control_deps(nr) if t.kind == "test"]
        tx = norm(deps[0][0].ast).replace(" ", "") if len(deps) == 1 else ""
        okn = len(deps) == 1 and ((tx in (f"len({filt})==0", f"not{filt}") and deps[0][1] == "T") or (tx in (filt, f"len({filt})>0", f"len({filt})!=0") and deps[0][1] == "F"))
        r3.check(okn, tfm, nr.ast, "the filter returns 'nothing missing' under a condition other than an empty filtered list", construct=f"return None under {[ (norm(t.ast), l) for t, l in deps ]}")
    logs = [n for n in walk_no_nested(tfm.node) if isinstance(n, ast.For) and any(isinstance(c, ast.Call) and norm(c.func) == "logger.error" for s in n.body for c in ast.walk(s))]
    okl = len(logs) == 1 and isinstance(logs[0].iter, ast.Name) and logs[0].iter.id == filt and norm(logs[0].target) in norm(logs[0].body[0]) and not [x for s in logs[0].body for x in ast.walk(s) if isinstance(x, (ast.If, ast.Break, ast.Continue))]
    r3.check(okl, tfm, logs[0] if logs else tfm.node, "the filter does not name every missing path", construct="missing path log loop")

    # ------------------------------------------------------------------ R3.4
    r4 = report.rule("R3.4", "error-signal discipline: in the command functions every 'ERROR:' / 'found new file' log is followed on every path by an increment of a counter that the exit tail tests", 3)
    for f, call in pipes:
        g = cfg_of(f)
        counters = {}
        for n in g.nodes:
            if n.kind == "stmt" and isinstance(n.ast, ast.AugAssign) and isinstance(n.ast.op, ast.Add) and isinstance(n.ast.target, ast.Name) and not (isinstance(n.ast.value, ast.Constant) and not n.ast.value.value):
                counters.setdefault(n.ast.target.id, set()).add(n.id)
        for c, tg in p.calls[f.qual]:
            if any(t.endswith("logger.error") for t in tg) and c.args:
                lit = _literal_prefix(c.args[0])
                if not (lit.startswith("ERROR") or lit.startswith("found new file")):
                    continue
                r4.instance(f, c, lit[:70])
                cn = g.node_for(c)
                stops = {h.id for h in g.nodes if h.kind == "loop"} | {g.exit.id}
                allc = set().union(*counters.values()) if counters else set()
                path = g.find_path(cn, stops, avoid=allc)
                if path is not None:
                    from .common import consistent_path

                    path = consistent_path(g, cn, stops, allc)
                r4.check(path is None, f, c, "a discrepancy is logged but no failure counter is incremented on this path: the command can exit 0", witness=g.fmt_path(path) if path else None, construct=f"unpaired log: {lit[:60]}")
        # every counter incremented in the traversal is tested in the tail
        outer, inner = traversal_loop(p, f)
        tail = _tail_stmts(f, outer)
        tail_names = {x.id for s in tail for x in ast.walk(s) if isinstance(x, ast.Name)}
        for cname, nodes in counters.items():
            in_loop = any(_inside(g.nodes[i].ast, outer) for i in nodes)
            if in_loop and ("fail" in cname or "new" in cname):
                r4.check(cname in tail_names, f, g.nodes[sorted(nodes)[0]].ast, f"counter {cname} is incremented but never consulted for the exit code (dead signal)", construct=f"dead counter {cname}")
    # the session's verdict is consumed by the sealer
    seal = p.funcs.get("ascmhl.commands.seal_file_path")
    if seal is None:
        raise AnalysisError("seal_file_path not found")
    for c, tg in p.calls[seal.qual]:
        if any(t.endswith("MHLGenerationCreationSession.append_file_hash") for t in tg):
            r4.instance(seal, c, "session verdict in the sealer")
            r4.check(not isinstance(parent(c), ast.Expr), seal, c, "the sealer discards the session's verified/failed verdict")
    sess = p.funcs.get("ascmhl.generator.MHLGenerationCreationSession.append_file_hash")
    rets = [n for n in walk_no_nested(sess.node) if isinstance(n, ast.Return)]
    r4.instance(sess, sess.node, "session verdict")
    r4.check(len(rets) == 1 and norm(rets[0].value).replace('"', "'") == "hash_entry.action != 'failed'", sess, rets[0] if rets else sess.node, "the session no longer reports a failed comparison to its caller", construct="return action != failed")
    for cmdf in [f for f, _ in pipes if "detect_renaming" in f.params] + [p.funcs.get("ascmhl.commands.create_for_single_files_subcommand")]:
        if cmdf is None:
            continue
        g = cfg_of(cmdf)
        for c, tg in p.calls[cmdf.qual]:
            if seal.qual in tg:
                r4.instance(cmdf, c, "seal result consumed")
                st = parent(c)
                var = st.targets[0].id if isinstance(st, ast.Assign) and isinstance(st.targets[0], ast.Name) else None
                used = var is not None and any(isinstance(x, ast.Attribute) and x.attr == "success" for x in walk_no_nested(cmdf.node))
                incs = [n for n in g.nodes if n.kind == "stmt" and isinstance(n.ast, ast.AugAssign) and isinstance(n.ast.op, ast.Add) and "fail" in norm(n.ast.target) and not (isinstance(n.ast.value, ast.Constant) and not n.ast.value.value)]
                guarded = any(any(t.kind == "test" and "success" in norm(t.ast) for t, l in g.control_deps(n, transitive=False)) for n in incs)
                r4.check(used and guarded, cmdf, c, "the per-file verification result is not turned into a failure count")
                # per call site: the verdict of THIS seal call reaches a test whose 'not successful' branch always counts a failure
                if var is not None:
                    from sa.flow import defs_of as _defs_of
                    from .common import branch_where

                    dd = _defs_of(cmdf)
                    cn = g.node_for(c)
                    # names holding this call's verdict: `success = <var>[...].success` with this call reaching
                    holders = set()
                    for n in g.nodes:
                        if n.kind == "stmt" and isinstance(n.ast, ast.Assign) and len(n.ast.targets) == 1 and isinstance(n.ast.targets[0], ast.Name) and any(isinstance(x, ast.Attribute) and x.attr == "success" for x in ast.walk(n.ast.value)):
                            try:
                                from_call = any(any(s2[0] == "call" and len(s2) > 4 and s2[4] is c for s2 in subterms(o)) for o in pr.origins(n.ast.value, cmdf))
                            except AnalysisError:
                                from_call = False
                            if from_call:
                                holders.add((n.ast.targets[0].id, n.id))
                    tests = []
                    for t in g.nodes:
                        if t.kind != "test":
                            continue
                        names = {x.id for x in ast.walk(t.ast) if isinstance(x, ast.Name)}
                        for hname, hid in holders:
                            if hname in names and any(d[1] == hid for d in dd.reaching(hname, t)):
                                tests.append(t)
                        if var in names and any(isinstance(x, ast.Attribute) and x.attr == "success" for x in ast.walk(t.ast)) and any(d[1] == cn.id for d in dd.reaching(var, t)):
                            tests.append(t)
                        elif t not in tests:
                            for x in ast.walk(t.ast):
                                if isinstance(x, ast.Attribute) and x.attr == "success":
                                    try:
                                        if any(any(s2[0] == "call" and len(s2) > 4 and s2[4] is c for s2 in subterms(o)) for o in pr.origins(x, cmdf)):
                                            tests.append(t)
                                            break
                                    except AnalysisError:
                                        pass
                    okv = bool(tests)
                    stops = {h.id for h in g.nodes if h.kind == "loop"} | {g.exit.id}
                    wit = None
                    for t in tests:
                        bad = branch_where(t.ast, False)  # the branch on which the (canonical) success condition is false
                        for m, l in t.succ:
                            if l == bad and m.id not in {i.id for i in incs}:
                                pth = g.find_path(m, stops, avoid={i.id for i in incs}) if m.id not in stops else [m]
                                if pth is not None:
                                    okv, wit = False, g.fmt_path(pth)
                    r4.check(okv, cmdf, c, "the verdict of this seal call does not count a failure on its 'not successful' branch: an altered file sealed here leaves the exit code 0", witness=wit, construct=f"verdict of seal call not counted: {norm(c)[:50]}")

    # ------------------------------------------------------------------ R3.6
    r6 = report.rule(
        "R3.6",
        "exit precedence, by evaluating each command's exit tail over all assignments of its boolean signals: only-altered => 11, only-missing => 10, only-new => 21, "
        "altered + anything => 11, nothing => no error; 'single file not found' (20) only when a single file was asked for",
        3,
    )
    c11, c21, c20, c30 = class_with_code(p, 11), class_with_code(p, 21), class_with_code(p, 20), class_with_code(p, 30)
    for f, call in pipes:
        outer, inner = traversal_loop(p, f)
        tail_all = _tail_stmts(f, outer)
        # the tail proper starts at the filter call
        idx = next(i for i, s in enumerate(tail_all) if any(x is call for x in ast.walk(s)))
        tail = tail_all[idx:]
        T = Tail(p, f, tail, tfm)
        atoms = T.collect()
        roles = {a: classify_atom(a, f, None) for a in atoms}
        r6.instance(f, call, f"{f.name}: atoms {roles}")
        import re as _re

        for k in atoms:
            m = _re.fullmatch(r"\s*(\w+)\s*(>=|>|!=|==)\s*(\d+)\s*", k)
            if m and any(w in m.group(1) for w in ("fail", "new", "missing")):
                okthr = (m.group(2), int(m.group(3))) in ((">", 0), ("!=", 0), (">=", 1))
                r6.check(okthr, f, call, f"the exit decision tests `{k.strip()}`: a single discrepancy (count 1) does not reach the failure exit", construct=f"counter threshold {k.strip()}")
        is_verify = any(r == "single-found" for r in roles.values())
        has_new = any(r == "new" for r in roles.values())
        rows = 0
        for bits in itertools.product([False, True], repeat=len(atoms)):
            env = dict(zip(atoms, bits))
            R = {roles[a]: v for a, v in env.items()}
            for missing in (False, True):
                failed, new = R.get("failed", False), R.get("new", False)
                others = [a for a in atoms if roles[a].startswith("other:")]
                if any(env[a] for a in others):
                    continue  # e.g. create's missing child-history folders: outside the rows the property fixes
                asked, found = R.get("single-asked", None), R.get("single-found", None)
                # feasibility: a counted failure or new file implies a file was visited (the flag is set in the same branch only for verified files)
                if found is False and failed:
                    continue
                got = T.run(env, missing)
                rows += 1
                want = None
                if failed:
                    want = c11
                elif is_verify and found is False and (asked is True or asked is None and False):
                    want = None  # decided below
                desc = f"{f.name}: failed={failed} new={new} missing={missing}" + (f" single_asked={asked} single_found={found}" if is_verify else "")
                if failed:
                    r6.check(got == c11, f, call, f"altered file present but exit is {codes.get(got)} instead of 11 ({desc})", construct=f"{f.name} tail: altered not dominant [{desc}]")
                    continue
                if is_verify and asked is None:
                    # the tail does not consult whether a single file was asked for: `found` is False in folder mode whenever no file was visited
                    if found is False:
                        r6.check(got != c20, f, call, f"exit 20 ('single file not found') although no single file was asked for: the tail tests only whether a file was visited ({desc}); an unchanged tree of empty directories exits 20, a tree whose only file was deleted exits 20 instead of 10", construct=f"{f.name} tail: 20 without single file")
                        continue
                if is_verify and asked is False and found is False:
                    pass  # folder mode, nothing visited: falls through to the generic rows
                if is_verify and asked is True and found is False:
                    if not new and not missing:
                        r6.check(got == c20, f, call, f"single file asked for and not found must exit 20, got {codes.get(got)} ({desc})", construct=f"{f.name} tail: single file not found")
                    continue
                if new and has_new and not missing:
                    r6.check(got == c21, f, call, f"only new files present but exit is {codes.get(got)} instead of 21 ({desc})", construct=f"{f.name} tail: only-new [{desc}]")
                elif missing and not new:
                    r6.check(got == class_with_code(p, 10), f, call, f"only missing files present but exit is {codes.get(got)} instead of 10 ({desc})", construct=f"{f.name} tail: only-missing [{desc}]")
                elif missing and new:
                    r6.check(got in (class_with_code(p, 10), c21), f, call, f"missing and new files present but exit is {codes.get(got)} ({desc})", construct=f"{f.name} tail: missing+new [{desc}]")
                elif not missing and not new:
                    r6.check(got is None, f, call, f"nothing wrong but the command exits with {codes.get(got)} ({desc})", construct=f"{f.name} tail: clean tree [{desc}]")
        report.extra.setdefault("tail_rows", {})[f.name] = rows

    # ------------------------------------------------------------------ R3.7
    r7 = report.rule("R3.7", "verify recomputes the digest in the format of the same recorded entry whose digest it compares with", 1)
    ver = next((f for f, _ in pipes if any(classify_atom(a, f, None) == "single-found" for a in Tail(p, f, _tail_stmts(f, traversal_loop(p, f)[0]), tfm).collect())), None)
    if ver is None:
        raise AnalysisError("verify pipeline function not found")
    n7 = 0
    for n in walk_no_nested(ver.node):
        if isinstance(n, ast.Compare) and len(n.ops) == 1 and isinstance(n.ops[0], (ast.Eq, ast.NotEq)):
            lo, ro = pr.origins(n.left, ver), pr.origins(n.comparators[0], ver)
            for a, b in ((lo, ro), (ro, lo)):
                for x in a:
                    if is_call(x, "hasher.hash_file") and len(x[2]) >= 2:
                        n7 += 1
                        r7.instance(ver, n, norm(n))
                        fmt = x[2][1]
                        okk = all(y[0] == "attr" and y[2] == "hash_string" and fmt[0] == "attr" and fmt[2] == "hash_format" and sig(fmt[1], 3) == sig(y[1], 3) for y in b)
                        r7.check(okk, ver, n, "the recomputed digest and the recorded digest belong to different entries / formats", witness=f"{show(x)[:160]} vs {'; '.join(show(y)[:100] for y in b)}")
                        path_t = x[2][0]
                        okp = is_call(path_t, "os.path.join") and all(s[0] != "attr" for s in subterms(path_t))
                        r7.check(okp, ver, n, "the recomputed digest is not taken from the traversed file itself", witness=show(path_t)[:160])
    if n7 == 0:
        raise AnalysisError("verify: comparison of a recomputed digest with the recorded one not found")

    # ------------------------------------------------------------------ R3.8
    r8 = report.rule("R3.8", "timestamps and sizes are inert: no branch condition in the verification commands depends on os.path.getmtime / getsize / a recorded modification date or size (interprocedural taint through parameters)", 3)
    scope = set()
    for name in ("create", "verify", "diff"):
        scope |= set(p.reachable([need(cmds, name).qual]))
    scope = {q for q in scope if not p.funcs[q].module.name.endswith(("_xml_parser", "logger", "utils"))}
    tparams = set()

    def tainted(t):
        if not isinstance(t, tuple):
            return None
        k = t[0]
        if k == "call":
            if t[1].endswith(("os.path.getmtime", "os.path.getsize", "os.stat", "os.lstat")):
                return t[1].split(":")[-1]
            if t[1] in p.funcs or t[1].startswith("class:"):
                return None  # the callee's own branches are checked with its parameters tainted
            for a in list(t[2]) + list(t[3].values()) + ([t[5]] if t[5] is not None else []):
                r = tainted(a)
                if r:
                    return r
            return None
        if k == "param":
            return f"parameter {t[2]}" if (t[1], t[2]) in tparams else None
        if k == "attr":
            if t[2] in ("last_modification_date", "st_mtime", "st_size", "st_ctime"):
                return "." + t[2]
            return tainted(t[1])
        if k == "elem":
            return tainted(t[1])
        if k in ("op", "alt"):
            for a in (t[2] if k == "op" else t[1]):
                r = tainted(a)
                if r:
                    return r
        return None

    for _round in range(4):
        changed = False
        for fq in sorted(scope):
            f = p.funcs[fq]
            for c, tg in p.calls[fq]:
                for t in tg:
                    if t in p.funcs and t in scope:
                        gfn = p.funcs[t]
                        for pn, a in p.bind_args(gfn, c).items():
                            if a is None or not _inside(a, f.node) or (t, pn) in tparams:
                                continue
                            if any(tainted(o) for o in pr.origins(a, f, depth=5)):
                                tparams.add((t, pn))
                                changed = True
        if not changed:
            break
    nt = 0
    for fq in sorted(scope):
        f = p.funcs[fq]
        g = cfg_of(f)
        for n in g.nodes:
            if n.kind == "test":
                nt += 1
                why = None
                for o in pr.origins(n.ast, f, depth=5):
                    why = why or tainted(o)
                if why:
                    r8.check(False, f, n.ast, f"a branch depends on size / modification time ({why}): a pure timestamp change could alter the verdict, or hashing could be skipped", construct=f"branch on {why}: {norm(n.ast)[:60]}")
    for f, _ in pipes:
        r8.instance(f, f.node, f"{f.name}: branch conditions scanned")
    r8.check(True, None, None, "", construct=f"{nt} branch conditions scanned")
    report.extra["timestamp_tainted_parameters"] = sorted(f"{a}.{b}" for a, b in tparams)

    # ------------------------------------------------------------------ R3.9
    r9 = report.rule(
        "R3.9",
        "no silent no-op: every non-raising path through a shipped command function calls at least one function of the package that does work "
        "(a dispatcher branch that returns without calling its worker makes the command exit 0 whatever the tree looks like)",
        5,
    )
    for name, c in sorted(cmds.items()):
        g = cfg_of(c)
        work = set()
        for call, tg in p.calls[c.qual]:
            if any(t in p.funcs and not p.funcs[t].module.name.endswith(".logger") and not t.endswith(".__init__") for t in tg):
                work.add(g.node_for(call).id)
        if not work:
            r9.note(f"{name}: does its work inline (no package call) - not a dispatcher")
            continue
        r9.instance(c, c.node, f"{name}: {len(work)} worker call site(s)")
        path = g.find_path(g.entry, {g.exit.id}, avoid=work)
        r9.check(path is None, c, c.node, f"`{name}` can return without having called any worker of the package", witness=g.fmt_path(path) if path else None, construct=f"{name}: path without worker call")

    # ------------------------------------------------------------------ R3.10
    r10 = report.rule(
        "R3.10",
        "presence tests stay presence tests: no class of the package whose instances are tested for truth (`if x`, `not x`, `x or y`, `x and y`) defines `__len__` or `__bool__` "
        "- otherwise an existing-but-empty object (a generation without records, an empty spec) is silently treated as absent",
        5,
    )
    _unsh = unshipped_modules(p)
    special = {}
    for cq, c in sorted(p.classes.items()):
        if c.module.name in _unsh:
            continue
        r10.instance(None, c.node, f"{cq}: defines {[m for m in ('__len__', '__bool__') if m in c.methods] or 'neither __len__ nor __bool__'}")
        if "__len__" in c.methods or "__bool__" in c.methods:
            special[cq] = [m for m in ("__len__", "__bool__") if m in c.methods]
    if special:
        fam = {}
        for cq in special:
            for k in [cq] + list(p.subclasses(cq)):
                fam[k] = cq
        for fq, f in sorted(p.funcs.items()):
            if f.module.name in _unsh:
                continue
            for n in walk_no_nested(f.node):
                cands = []
                if isinstance(n, (ast.If, ast.While, ast.IfExp)):
                    cands.append(n.test)
                elif isinstance(n, ast.BoolOp):
                    cands += list(n.values)
                elif isinstance(n, ast.UnaryOp) and isinstance(n.op, ast.Not):
                    cands.append(n.operand)
                elif isinstance(n, ast.comprehension):
                    cands += list(n.ifs)
                for e in cands:
                    if isinstance(e, (ast.Compare, ast.BoolOp, ast.Call, ast.Constant)) or (isinstance(e, ast.UnaryOp)):
                        continue
                    try:
                        t = p.etype(e, f)
                    except Exception:
                        t = None
                    if t and t[0] == "C" and t[1] in fam:
                        base = fam[t[1]]
                        r10.check(False, f, e, f"`{norm(e)[:50]}` is tested for truth, and its class {base.split('.')[-1]} defines {special[base]}: the test no longer means 'there is one' but 'it is not empty'", construct=f"truth test of {base.split('.')[-1]} instance: {norm(e)[:40]}")
    r10.check(True, None, None, "")

    # ------------------------------------------------------------------ R3.15
    r15 = report.rule(
        "R3.15",
        "a record is not lost when a nested history is started below it: verify and diff route a traversed file to the deepest history and ask only that one for the original entry. "
        "When the routed history has none, the file counts as new - unless the histories above it are consulted as well. A nested history created later for only some files of a folder "
        "(`create ROOT/sub -sf ROOT/sub/b.txt`) takes over the routing of `sub/a.txt`, whose record stays in the root history",
        2,
    )
    for fq, f in sorted(p.funcs.items()):
        if not f.module.name.endswith("commands"):
            continue
        lookups = [c for c, tg in p.calls[fq] if any(t.endswith("find_original_hash_entry_for_path") for t in tg)]
        exc_tests = [n for n in walk_no_nested(f.node) if isinstance(n, ast.If) and any(isinstance(x, ast.Call) and norm(x.func).endswith("NewFilesFoundException") for st in n.body for x in ast.walk(st))]
        if not lookups or not exc_tests:
            continue
        for c in lookups:
            r15.instance(f, c, f"{f.name}: {norm(c)[:70]}")
            routed = any(st_[0] == "call" and st_[1].endswith("find_history_for_path") for o in pr.origins(c.func.value, f) for st_ in subterms(o)) if isinstance(c.func, ast.Attribute) else False
            if not routed:
                r15.check(True, f, c, "")
                continue
            # any second lookup on a parent / the root history, or a loop over ancestors, in this function?
            fallback = any(isinstance(n, ast.Attribute) and n.attr == "parent_history" for n in walk_no_nested(f.node)) or len(lookups) > 1
            r15.check(fallback, f, c, f"`{f.name}` asks only the routed (deepest) history for a file's original entry: a file whose record lives in a history ABOVE a nested history that was started later (for other files of that folder) is reported as new, and the unchanged tree exits 21", construct=f"{f.name}: no fallback to the histories above the routed one")

    # ------------------------------------------------------------------ R3.14
    r14 = report.rule(
        "R3.14",
        "every removed path is named, whatever else is wrong: after the traversal, create / verify / diff reach the missing-file reporter (which prints the list of missing paths) "
        "on every path to any exit - no raise or return for a more severe condition comes before it",
        3,
    )
    for cf, call in pipes:
        gq = cfg_of(cf)
        outer, _inner = traversal_loop(p, cf)
        if outer is None:
            raise AnalysisError(f"{cf.qual}: traversal loop not found")
        ln = gq.by_ast[id(outer)]
        tf_nodes = {gq.node_for(c).id for c, tg in p.calls[cf.qual] if tfm.qual in tg}
        r14.instance(cf, call, f"{cf.name}: reporter after the traversal")
        after = [m for m, l in ln.succ if l != "iter"]
        path = None
        for start in after:
            if start.id in tf_nodes:
                continue
            path = gq.find_path(start, {gq.exit.id, gq.raise_exit.id}, avoid=tf_nodes | {ln.id})
            if path:
                path = [start] + path if path[0] is not start else path
                break
        r14.check(path is None, cf, call, f"`{cf.name}` can leave without having called the missing-file reporter: when that exit is taken (a more severe problem is present) removed files and folders are not named in the output", witness=gq.fmt_path(path) if path else None, construct=f"{cf.name}: exit before the missing-file report")

    # ------------------------------------------------------------------ R3.12
    r12 = report.rule(
        "R3.12",
        "verify and diff count every traversed file for which the history holds no original entry as a new file: the counter that decides exit 21 is raised, "
        "on the branch `<result of find_original_hash_entry_for_path> is None`, in every function that looks the original entry up during a traversal",
        2,
    )
    for fq, f in sorted(p.funcs.items()):
        if not f.module.name.endswith("commands"):
            continue
        lookups = [c for c, tg in p.calls[fq] if any(t.endswith("find_original_hash_entry_for_path") for t in tg)]
        exc_tests = [n for n in walk_no_nested(f.node) if isinstance(n, ast.If) and any(isinstance(x, ast.Call) and norm(x.func).endswith("NewFilesFoundException") for st in n.body for x in ast.walk(st))]
        if not lookups or not exc_tests:
            continue
        gq = cfg_of(f)
        counters = {x.id for t_ in exc_tests for x in ast.walk(t_.test) if isinstance(x, ast.Name)}
        for c in lookups:
            st = parent(c)
            if not (isinstance(st, ast.Assign) and len(st.targets) == 1 and isinstance(st.targets[0], ast.Name)):
                raise AnalysisError(f"{f.loc(c)}: result of the original-entry lookup is not bound to a name")
            var = st.targets[0].id
            r12.instance(f, c, f"{f.name}: {var} = {norm(c)[:60]}")
            bumps = []
            for n in walk_no_nested(f.node):
                if isinstance(n, ast.AugAssign) and isinstance(n.target, ast.Name) and n.target.id in counters and isinstance(n.op, ast.Add):
                    atoms = []
                    for t, l in gq.control_deps(gq.node_for(n), through_loops=False):
                        if t.kind == "test":
                            atoms += atomic_deps(t.ast, l)
                    if (f"{var} is None", "T") in atoms or (var, "F") in atoms:
                        bumps.append(n)
            r12.check(bool(bumps), f, c, f"`{f.name}` looks the original entry of a traversed file up but does not raise the new-files counter ({sorted(counters)}) when there is none: files that were added to the tree are not reported and the command exits 0", construct=f"{f.name}: no new-file count on `{var} is None`")
    r12.check(True, None, None, "")

    # ------------------------------------------------------------------ R3.11
    r11 = report.rule(
        "R3.11",
        "logging cannot change a verdict: the logger applies printf formatting (`msg % args`) only when arguments were given, and a call that gives arguments passes a constant "
        "format string whose placeholders match them - a message that already contains file names (a `%` in a name) is never interpreted as a format string, "
        "which would raise in the middle of the command and replace its exit code",
        20,
    )
    lg = p.modules.get("ascmhl.logger")
    if lg is None:
        raise AnalysisError("ascmhl.logger not found")
    lfuncs = [f for f in p.funcs.values() if f.module is lg]
    n_fmt = 0
    for f in lfuncs:
        gl = cfg_of(f)
        varargs = f.node.args.vararg.arg if f.node.args.vararg else None
        for n in walk_no_nested(f.node):
            is_fmt = (isinstance(n, ast.BinOp) and isinstance(n.op, ast.Mod)) or (isinstance(n, ast.AugAssign) and isinstance(n.op, ast.Mod))
            if not is_fmt:
                continue
            n_fmt += 1
            r11.instance(f, n, f"logger.{f.name}: {norm(n)[:50]}")
            right = n.right if isinstance(n, ast.BinOp) else n.value
            names = {x.id for x in ast.walk(right) if isinstance(x, ast.Name)}
            atoms = []
            for t, l in gl.necessary_branches(gl.node_for(n)):
                atoms += atomic_deps(t.ast, l)
            guarded = any((nm, "T") in atoms or (f"len({nm}) > 0", "T") in atoms or (f"len({nm}) == 0", "F") in atoms for nm in names)
            # a helper that formats unconditionally is fine only if every caller calls it under such a test: not modelled -> must be guarded here
            r11.check(guarded, f, n, f"logger.{f.name} applies `{norm(n)[:40]}` even when no arguments were given: every message that contains a `%` (a file or folder name) raises `TypeError`/`ValueError` inside the logger, the command dies with exit 1 instead of its own verdict", construct=f"logger.{f.name}: unconditional % formatting")
    if n_fmt == 0:
        r11.note("the logger applies no printf formatting at all")
    lq = {f.qual for f in lfuncs}
    import re as _re

    for fq, f in sorted(p.funcs.items()):
        if f.module.name in _unsh or f.module is lg:
            continue
        for call, tg in p.calls[fq]:
            if not any(t in lq for t in tg):
                continue
            r11.instance(f, call, norm(call)[:60])
            extra = call.args[1:]
            if not extra and not any(isinstance(a, ast.Starred) for a in call.args):
                continue
            fmt = call.args[0] if call.args else None
            if isinstance(fmt, ast.Constant) and isinstance(fmt.value, str):
                nph = len(_re.findall(r"%(?!%)", fmt.value))
                r11.check(nph == len(extra), f, call, f"the format string has {nph} placeholder(s) for {len(extra)} argument(s): formatting raises at run time", construct="logger call: placeholder count")
            else:
                r11.check(False, f, call, f"the logger is given printf arguments together with a format string that is built at run time (`{norm(fmt)[:60]}`): a `%` in an interpolated value (a file name) is taken as a placeholder and the formatting raises - the command dies with exit 1 instead of reporting its own verdict", construct="logger call: run-time text used as printf format")
    r11.check(True, None, None, "")

    lazy_reuse_rule(report, p, 'R3.13', [need(cmds, n_).qual for n_ in ('create', 'verify', 'diff')], 'create / verify / diff')
    from .common import unorderable_sort_rule

    unorderable_sort_rule(report, p, 'R3.16', 'a command')
    from .common import shadowed_global_rule

    shadowed_global_rule(report, p, 'R3.17')
    from .common import zero_division_rule

    zero_division_rule(report, p, 'R3.19')

    # ------------------------------------------------------------------ R3.18
    r18 = report.rule(
        "R3.18",
        "a per-file verdict is not overwritten by the next file: inside a loop over files the success / failure of sealing one file is consumed in that iteration "
        "(counted, or combined with the value so far) - a plain assignment `verdict = <this file's result>` that is only read after the loop keeps the LAST file's "
        "verdict, so a mismatch in any other file is logged but never reaches the exit code",
        2,
    )
    seal_q = "ascmhl.commands.seal_file_path"
    n18 = 0
    for fq, f in sorted(p.funcs.items()):
        if not f.module.name.endswith("commands"):
            continue
        for lp in [n for n in walk_no_nested(f.node) if isinstance(n, (ast.For, ast.While))]:
            seals_in = [c for c, tg in p.calls[fq] if (seal_q in tg or any(t.endswith("append_file_hash") or t.endswith("append_multiple_format_file_hashes") for t in tg)) and _inside(c, lp)]
            if not seals_in:
                continue
            n18 += 1
            r18.instance(f, lp, f"{f.name}: loop sealing files (line {lp.lineno})")
            # verdict-carrying names: assigned from the seal result (directly or through `.success` / a subscript of it)
            result_names = set()
            for a in [n for n in ast.walk(lp) if isinstance(n, ast.Assign) and len(n.targets) == 1 and isinstance(n.targets[0], ast.Name)]:
                if any(c is x for c in seals_in for x in ast.walk(a.value)):
                    result_names.add(a.targets[0].id)
            changed = True
            while changed:
                changed = False
                for a in [n for n in ast.walk(lp) if isinstance(n, ast.Assign) and len(n.targets) == 1 and isinstance(n.targets[0], ast.Name)]:
                    if a.targets[0].id not in result_names and any(isinstance(x, ast.Name) and x.id in result_names for x in ast.walk(a.value)):
                        result_names.add(a.targets[0].id)
                        changed = True
            for nm in sorted(result_names):
                loads_in = [n for n in ast.walk(lp) if isinstance(n, ast.Name) and n.id == nm and isinstance(n.ctx, ast.Load)]
                loads_after = [n for n in walk_no_nested(f.node) if isinstance(n, ast.Name) and n.id == nm and isinstance(n.ctx, ast.Load) and not _inside(n, lp) and n.lineno > lp.lineno]
                if not loads_in and loads_after:
                    asg = next(a for a in ast.walk(lp) if isinstance(a, ast.Assign) and len(a.targets) == 1 and isinstance(a.targets[0], ast.Name) and a.targets[0].id == nm)
                    r18.check(False, f, asg, f"`{norm(asg)[:70]}` overwrites `{nm}` for every file of the loop and `{nm}` is read only after the loop (line {loads_after[0].lineno}): only the LAST file decides - `create ROOT -sf FOLDER` exits 0 although an altered recorded file in that folder was found (the mismatch is logged, the failure never counted) unless it happens to be the last one traversed", construct=f"{f.name}: per-file verdict `{nm}` overwritten in the loop")
    if n18 < 2:
        raise AnalysisError(f"only {n18} loop(s) sealing files found in the commands module")
    r18.check(True, None, None, "")

    # ---- rules shared with other properties (same mechanism, same rule, reported under every property it can break)
    include_rules(report, p, 'c12', ['R12.13'], 'an ignored path is neither new nor missing: the traversal and the missing-file filter must agree on the string they match')
    include_rules(report, p, 'c08', ['R8.8'], 'an unchanged file of a nested history verifies only if its recorded entries are looked up in that nested history')
    include_rules(report, p, 'c06', ['R6.3'], 'the loader recognises every manifest name the tool generates, for every folder name: a generation that is silently passed over makes the history look shorter or empty' + ' - verify reports every recorded file as new')
    include_rules(report, p, 'c05', ['R5.7'], 'what counts as a nested history decides which folders are verified against which history and which tree makes the loader refuse: exactly the directories that contain an ascmhl FOLDER (as listed by the walk)')
    include_rules(report, p, 'c10', ['R10.7'], 'a recorded path that was edited on its way into the manifest no longer matches the file: the unchanged tree is reported as one new and one missing file')
    include_rules(report, p, 'c08', ['R8.1', 'R8.2'], 'verify/diff look recorded entries up through the same routing')
    include_rules(report, p, 'c01', ['R1.1', 'R1.2'], 'an altered file is only detected if every byte is hashed with the recorded algorithm')
    include_rules(report, p, 'c04', ['R4.1'], "create's verdict per file is the session's action decision")
    include_rules(report, p, 'c12', ['R12.1', 'R12.7'], 'ignored paths must never be reported')
    include_rules(report, p, 'c12', ['R12.5', 'R12.6'], 'gitwildmatch patterns are order-sensitive (negation): the stored list must come back in the order given, or a recorded file becomes ignored and its alteration unreported')
    include_rules(report, p, 'c18', ['R18.6'], 'verify of an unchanged tree must not count its own folders as new files (exit 21)')
    include_rules(report, p, 'c10', ['R10.3'], 'the recorded path must be the name on disk, or an unchanged tree is reported as missing + new')
    include_rules(report, p, 'c08', ['R8.7'], 'a removed nested history folder is only noticed if the parent recorded its directory entry (with or without directory hashes)')
    include_rules(report, p, 'c12', ['R12.3'], 'an ignored path that is no longer on disk is not reported as missing only if the filter matches the path itself (not a quoted, sorted or otherwise rewritten form of it)')
    include_rules(report, p, 'c17', ['R17.13'], 'an unchanged tree verifies against a packing list only if the recorded paths are looked for below the root that was given')
    report.not_decided += ["verdicts for concrete trees and mutations", "that the digest comparison detects every alteration (collision resistance)", "the wording of the output lines"]


def _tail_stmts(f, outer):
    body = f.node.body
    idx = next((i for i, s in enumerate(body) if s is outer), None)
    if idx is None:
        raise AnalysisError(f"{f.qual}: traversal loop is not a top-level statement")
    return body[idx + 1:]


def _inside(n, container):
    x = n
    while x is not None:
        if x is container:
            return True
        x = parent(x)
    return False


def _literal_prefix(e):
    if isinstance(e, ast.Constant) and isinstance(e.value, str):
        return e.value
    if isinstance(e, ast.JoinedStr) and e.values and isinstance(e.values[0], ast.Constant):
        return str(e.values[0].value)
    return ""


def finish(report):
    return report.finish(
        level="other",
        explanation="sibling comparison and loop coverage of the expected-set pipeline, pairing of every discrepancy log with a failure signal, exhaustive evaluation of each command's "
        "exit tail over its boolean signals against the rows the property fixes, exit-code table, taint of timestamps. Verdicts on concrete trees are not executed.",
    )
