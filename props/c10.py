"""C10 - manifests and chain files read back exactly what was written (structural clauses: writer/reader table agreement,
escaping, path conversion pairing, encoding)."""
from __future__ import annotations

import ast

from sa.cfg import cfg_of
from sa.effects import open_mode
from sa.emit import Alt, Elem, Opt, Rep, walk_elems
from sa.flow import show, subterms
from sa.model import AnalysisError, norm, parent, walk_no_nested

from .common import include_rules, alts, callers_of, commands, is_call, prov
from .xmlcommon import documents, format_domain, writers
from . import c05

INVERSE = {"posix": "local", "str": "int", "iso": "date", None: None}


LOSSY_STR_METHODS = {"lower", "upper", "casefold", "strip", "lstrip", "rstrip", "title", "capitalize", "swapcase", "expandtabs", "zfill"}


# ---------------------------------------------------------------------- reader table
def reader_rows(p, rd):
    """{(context class, tag, source)} -> (class, field, conv) from the event-driven manifest reader.
    source: 'text' | '@name' | 'tag'"""
    g = cfg_of(rd)
    rows = {}
    ctx_of_tag = {}
    locals_src = {}

    def src_of(e, depth=0):
        """(source, conv) of a value expression"""
        if depth > 4:
            return None
        if isinstance(e, ast.Attribute) and norm(e) == "element.text":
            return ("text", None)
        if isinstance(e, ast.Name) and e.id == "tag":
            return ("tag", None)
        if isinstance(e, ast.Call):
            nm = norm(e.func)
            if nm == "element.attrib.get" and e.args and isinstance(e.args[0], ast.Constant):
                return ("@" + e.args[0].value, None)
            if nm.endswith("convert_posix_to_local_path") and e.args:
                s = src_of(e.args[0], depth + 1)
                return (s[0], "local") if s else None
            if nm in ("int",) and e.args:
                s = src_of(e.args[0], depth + 1)
                return (s[0], "int") if s else None
            if nm.endswith("parser.parse") and e.args:
                s = src_of(e.args[0], depth + 1)
                return (s[0], "date") if s else None
            if nm.endswith("fromisoformat") and e.args:
                s = src_of(e.args[0], depth + 1)
                return (s[0], "date") if s else None
            if nm.endswith("strptime") and len(e.args) >= 2:
                # a fixed layout reads back only what has exactly that layout: isoformat() omits the fraction when it is zero and
                # writes the offset as +HH:MM - recognised as harmful unless the layout is exactly what the writer's formatter emits
                s = src_of(e.args[0], depth + 1)
                fmt = p.fold(e.args[1], rd)
                return (s[0], f"lossy:strptime({fmt!r}) - a fixed layout, while the writer's isoformat() drops a zero fraction") if s else None
            # a helper of the package with one value parameter: what its returns do to that parameter
            tgs = [t for t in p.resolve_call(e, rd) if t in p.funcs]
            if len(tgs) == 1 and len(e.args) == 1 and not e.keywords and depth < 3:
                h = p.funcs[tgs[0]]
                hp = [x for x in h.params if x not in ("self", "cls")]
                s_arg = src_of(e.args[0], depth + 1)
                if s_arg and len(hp) == 1:
                    outs = []
                    saved = locals_src.get(hp[0], "<none>")
                    locals_src[hp[0]] = s_arg
                    try:
                        for rn in [n for n in walk_no_nested(h.node) if isinstance(n, ast.Return)]:
                            if rn.value is None or (isinstance(rn.value, ast.Constant) and rn.value.value is None):
                                continue
                            outs.append(src_of(rn.value, depth + 1))
                    finally:
                        if saved == "<none>":
                            locals_src.pop(hp[0], None)
                        else:
                            locals_src[hp[0]] = saved
                    if outs and all(o is not None and o == outs[0] for o in outs):
                        return outs[0]
            # value-changing string methods: recognised as harmful (case folding / trimming loses what was written)
            if isinstance(e.func, ast.Attribute) and e.func.attr in LOSSY_STR_METHODS:
                s = src_of(e.func.value, depth + 1)
                if s and not (s[1] or "").startswith("unrecognised:"):
                    return (s[0], "lossy:" + e.func.attr + "()")
        if isinstance(e, ast.IfExp):
            s = src_of(e.body, depth + 1)
            o = e.orelse
            if s and isinstance(o, ast.Constant) and o.value is None:
                return s
            so = src_of(o, depth + 1)
            if s and so and so[0] == s[0] and so[1] is None and norm(e.test) == norm(o):
                return s  # `f(x) if x else x`
        if isinstance(e, ast.Subscript) and isinstance(e.slice, ast.Slice):
            s = src_of(e.value, depth + 1)
            if s and not (s[1] or "").startswith("unrecognised:"):
                return (s[0], "lossy:slice")
        if isinstance(e, ast.Subscript) and norm(e.value) == "element.attrib" and isinstance(e.slice, ast.Constant):
            return ("@" + e.slice.value, None)
        if isinstance(e, ast.Name) and e.id in locals_src:
            return locals_src[e.id]
        t = norm(e)
        if "element.text" in t:
            return ("text", "unrecognised:" + t[:40])
        if "element.attrib" in t:
            import re as _re

            m = _re.search(r"element\.attrib(?:\.get\(|\[)'([^']+)'", t.replace('"', "'"))
            return ("@" + (m.group(1) if m else "?"), "unrecognised:" + t[:40])
        return None

    # local indirections (file_size = element.attrib.get("size"); hash_date = parse(hash_date_string) under `is not None`)
    for _ in range(3):
        for n in walk_no_nested(rd.node):
            if isinstance(n, ast.Assign) and len(n.targets) == 1 and isinstance(n.targets[0], ast.Name):
                s = src_of(n.value)
                if s:
                    locals_src[n.targets[0].id] = s

    def context(node):
        """(class, tag, event) from the control dependences of a node"""
        cls = tag = ev = None
        for t, l in g.control_deps(g.node_for(node)):
            if t.kind != "test" or l != "T":
                continue
            s = norm(t.ast).replace('"', "'")
            if s.startswith("type(current_object) is "):
                cls = cls or s.split(" is ")[1]
            elif s.startswith("tag == '"):
                tag = tag or s.split("'")[1]
            elif s.startswith("tag in ") and "supported_hashformats" in s:
                tag = tag or "<format>"
            elif s.startswith("event == '"):
                ev = s.split("'")[1]
        sub = ""
        for t, l in g.control_deps(g.node_for(node)):
            if t.kind != "test":
                continue
            s = norm(t.ast)
            if s == "current_object.is_directory":
                sub = "/dir" if l == "T" else "/file"
        if sub == "/dir":
            for t, l in g.control_deps(g.node_for(node)):
                s = norm(t.ast)
                if t.kind == "test" and s in ("is_directory_structure == False", "not is_directory_structure"):
                    sub = "/dir-content" if l == "T" else "/dir-structure"
                elif t.kind == "test" and s in ("is_directory_structure", "is_directory_structure == True"):
                    sub = "/dir-structure" if l == "T" else "/dir-content"
        if tag == "<format>" and sub:
            tag = tag + sub
        return cls, tag, ev

    def field_of_target(t, cls):
        """(class, field) for current_object.f / current_object.authors[-1].f given the context class"""
        if isinstance(t, ast.Attribute):
            base = t.value
            if isinstance(base, ast.Name) and base.id not in ("current_object", "root_media_hash", "entry"):
                # local alias:  author = current_object.authors[-1]
                binds = [n for n in walk_no_nested(rd.node) if isinstance(n, ast.Assign) and len(n.targets) == 1 and isinstance(n.targets[0], ast.Name) and n.targets[0].id == base.id]
                same_block = [b for b in binds if parent(b) is parent(_stmt_of(t)) or any(a is parent(b) for a in _ancestors_of(t))]
                if len(same_block) == 1 and isinstance(same_block[0].value, (ast.Subscript, ast.Attribute)):
                    base = same_block[0].value
            if isinstance(base, ast.Name) and base.id in ("current_object", "root_media_hash", "entry"):
                if base.id == "entry":
                    return ("MHLHashEntry", t.attr)
                return (cls, t.attr)
            if isinstance(base, ast.Subscript) and isinstance(base.value, ast.Attribute) and norm(base.value.value) == "current_object":
                cq = next((q for q in p.classes if q.endswith("." + (cls or ""))), None)
                ft = p.field_type(cq, base.value.attr) if cq else None
                if ft and ft[0] == "List" and ft[1] and ft[1][0] == "C":
                    return (ft[1][1].split(".")[-1], t.attr)
        return None

    # containers created through an intermediate name:  v = C() [under tag == 'x'] ... current_object = v
    via = {}
    for _ in range(3):
        for n in walk_no_nested(rd.node):
            if isinstance(n, ast.Assign) and len(n.targets) == 1 and isinstance(n.targets[0], ast.Name) and n.targets[0].id != "current_object":
                cls, tag, ev = context(n)
                if ev != "start":
                    continue
                if isinstance(n.value, ast.Call):
                    q = p.resolve_name_expr(n.value.func, rd.module)
                    if q in p.classes and tag:
                        via.setdefault(n.targets[0].id, set()).add((tag, q.split(".")[-1]))
                elif isinstance(n.value, ast.Name) and n.value.id in via:
                    via.setdefault(n.targets[0].id, set()).update(via[n.value.id])
    for n in walk_no_nested(rd.node):
        if isinstance(n, ast.Assign) and len(n.targets) == 1:
            cls, tag, ev = context(n)
            if ev == "start" and isinstance(n.targets[0], ast.Name) and n.targets[0].id == "current_object" and isinstance(n.value, ast.Name) and n.value.id in via:
                for tg_, cq_ in sorted(via[n.value.id]):
                    ctx_of_tag.setdefault(tg_, cq_)
                continue
            if ev == "start" and isinstance(n.targets[0], ast.Name) and n.targets[0].id == "current_object" and isinstance(n.value, ast.Call) and tag:
                q = p.resolve_name_expr(n.value.func, rd.module)
                if q in p.classes:
                    ctx_of_tag.setdefault(tag, q.split(".")[-1])
                continue
            if ev != "end" or cls is None:
                continue
            tgt = n.targets[0]
            fld = field_of_target(tgt, cls)
            v = n.value
            is_ctor = isinstance(v, ast.Call) and p.resolve_name_expr(v.func, rd.module) in p.classes
            if fld is not None and not is_ctor:
                s = src_of(v)
                if s:
                    rows.setdefault((cls, tag, s[0]), []).append((fld[0], fld[1], s[1], n))
                    continue
            # constructor calls:  X = C(a, b, ...)  /  current_object.tool = C(...)
            if isinstance(v, ast.Call):
                q = p.resolve_name_expr(v.func, rd.module)
                if q in p.classes:
                    init = p.find_method(q, "__init__")
                    if init:
                        f = p.funcs[init]
                        b = p.bind_args(f, v)
                        for pn, a in b.items():
                            if a is None or a not in list(v.args) + [k.value for k in v.keywords]:
                                continue
                            s = src_of(a)
                            if not s:
                                continue
                            # which field does the parameter initialise?
                            for st in walk_no_nested(f.node):
                                stv = st.value if isinstance(st, ast.Assign) else None
                                # `self.x = p if p is not None else <default>` initialises x from p when p is given
                                if isinstance(stv, ast.IfExp) and isinstance(stv.body, ast.Name) and norm(stv.test).replace(" ", "") in (f"{stv.body.id}isnotNone", f"{stv.body.id}!=None", stv.body.id):
                                    stv = stv.body
                                if isinstance(st, ast.Assign) and isinstance(st.targets[0], ast.Attribute) and norm(st.targets[0].value) == f.params[0] and isinstance(stv, ast.Name) and stv.id == pn:
                                    rows.setdefault((cls, tag, s[0]), []).append((q.split(".")[-1], st.targets[0].attr, s[1], n))
    return rows, ctx_of_tag


def _stmt_of(n):
    x = n
    while x is not None and not isinstance(x, ast.stmt):
        x = parent(x)
    return x


def _ancestors_of(n):
    x = parent(n)
    while x is not None:
        yield x
        x = parent(x)


# ---------------------------------------------------------------------- writer table
def writer_value(p, e, f):
    """(class, field, conv) of a value expression in a builder, or None"""
    conv = None
    x = e
    if isinstance(x, ast.Name) and f is not None:
        from .c11 import _resolve_in_scope

        x = _resolve_in_scope(f, x)  # a local holding the converted value
    if isinstance(x, ast.Call):
        nm = norm(x.func)
        if nm.endswith("convert_local_path_to_posix") and x.args:
            conv, x = "posix", x.args[0]
        elif nm == "str" and x.args:
            conv, x = "str", x.args[0]
        elif nm.endswith("datetime_isostring") and x.args:
            conv, x = "iso", x.args[0]
        else:
            return ("<call>", nm, None)
    if isinstance(x, ast.Attribute):
        bt = p.etype(x.value, f)
        if bt and bt[0] == "C":
            return (bt[1].split(".")[-1], x.attr, conv)
        return ("?", x.attr, conv)
    if isinstance(x, ast.Name):
        return ("<var>", x.id, conv)
    return None


def writer_rows(p, doc):
    """{(container tag, child tag or '.', slot)} -> (class, field, conv, node, func)"""
    rows = {}

    def visit(el, container, holder=None):
        tag = el.tagname() if isinstance(el.tag, str) else "<format>"
        if tag == "<format>":
            tag = "<format>" + {"content": "/dir-content", "structure": "/dir-structure"}.get(holder, "/file")
        key_tag = tag
        if el.text is not None:
            wv = writer_value(p, el.text[0], el.text[1])
            if wv:
                rows.setdefault((container, key_tag, "text"), []).append(wv + (el.node, el.func))
        if isinstance(el.tag, tuple):
            wv = writer_value(p, el.tag[1], el.func)
            if wv:
                rows.setdefault((container, tag, "tag"), []).append(wv + (el.node, el.func))
        for a in el.attrs:
            wv = writer_value(p, a.value, a.func)
            if wv:
                rows.setdefault((container, key_tag, "@" + a.name), []).append(wv + (a.node, a.func))
        for c in _child_elems(el.children):
            # containers that the reader treats as a context of their own
            nxt = tag if tag in CONTEXT_TAGS else container
            visit(c, nxt, tag)

    visit(doc, None)
    return rows


CONTEXT_TAGS = {"creatorinfo", "processinfo", "hash", "directoryhash", "roothash", "hashlistreference", "ignore", "hashlist"}


def _child_elems(items):
    for it in items:
        if isinstance(it, Elem):
            yield it
        elif isinstance(it, (Opt, Rep)):
            yield from _child_elems(it.items)
        elif isinstance(it, Alt):
            for b in it.branches:
                yield from _child_elems(b)


def _converter_flavour_rule(report, p):
    """R10.9: the Windows flavour of the path classes only where the host is Windows"""
    r9 = report.rule(
        "R10.9",
        "a backslash is an ordinary character of a POSIX file name: in the two path converters the Windows flavour of the path classes (which reads it as a "
        "separator) is applied only under a test that the host is Windows - on the write side as much as on the read side",
        2,
    )
    out_f = p.funcs.get("ascmhl.utils.convert_local_path_to_posix")
    in_f = p.funcs.get("ascmhl.utils.convert_posix_to_local_path")
    if out_f is None or in_f is None:
        raise AnalysisError("path conversion helpers not found")
    for f in (out_f, in_f):
        r9.instance(f, f.node, f.name)
        gconv = cfg_of(f)
        for n in walk_no_nested(f.node):
            if isinstance(n, ast.Call) and norm(n.func).split(".")[-1] in ("PureWindowsPath", "WindowsPath"):
                deps = [(norm(t.ast).replace('"', "'").replace(" ", ""), l) for t, l in gconv.necessary_branches(gconv.node_for(n)) if t.kind == "test"]
                on_windows = any((a in ("os.name=='nt'", "os.sep=='\\\\'", "sys.platform=='win32'", "sys.platform.startswith('win')", "platform.system()=='Windows'") and l == "T") or (a in ("os.name!='nt'", "os.name=='posix'", "os.sep=='/'") and l == "F") for a, l in deps)
                r9.check(on_windows, f, n, f"{f.name} reads the path with the Windows flavour of the path classes on every host: on POSIX a backslash inside a file or folder name is taken for a separator, the recorded path (`a\\b.mov` -> `a/b.mov`) no longer names the file", construct=f"{f.name}: Windows path flavour on every host")
    r9.check(True, None, None, "")


def run(report, p):
    _converter_flavour_rule(report, p)
    pr = prov(p)
    em, mdoc, cdoc, raw = documents(p)
    mw, cw = writers(p)
    rd = p.funcs.get("ascmhl.hashlist_xml_parser.parse")
    if rd is None:
        raise AnalysisError("manifest reader not found")
    report.assume("lxml's escaping (E builder, etree.tostring) and iterparse are inverse of each other for text without control characters")
    report.assume("textwrap.indent only adds leading blanks in front of lines that start with an element (values contain no line breaks)")

    crd = p.funcs.get("ascmhl.chain_xml_parser.parse")
    if crd is None:
        raise AnalysisError("chain reader not found")
    # ------------------------------------------------------------------ R10.8
    r8 = report.rule(
        "R10.8",
        "the readers consume the whole document: the loop over the parser events (etree.iterparse) of the manifest reader and of the chain reader is never left by `break` or "
        "`return`, iterates the event stream itself (no slice / filter around it) and the events requested stay ('start', 'end') - whatever lies behind the point where a reader "
        "stops is silently missing from the loaded history (records, references), for every command that loads it",
        2,
    )
    for rf in (rd, crd):
        loops = [n for n in walk_no_nested(rf.node) if isinstance(n, ast.For) and any(isinstance(x, ast.Call) and norm(x.func).endswith("iterparse") for x in ast.walk(n.iter))]
        if not loops:
            # the event stream may be bound to a name first
            for n in walk_no_nested(rf.node):
                if isinstance(n, ast.For) and isinstance(n.iter, ast.Name):
                    try:
                        if any(any(s_[0] == "call" and s_[1].endswith("iterparse") for s_ in subterms(o)) for o in pr.origins(n.iter, rf)):
                            loops.append(n)
                    except AnalysisError:
                        pass
        if len(loops) != 1:
            raise AnalysisError(f"{rf.qual}: the loop over the parser events was not found ({len(loops)})")
        lp = loops[0]
        r8.instance(rf, lp, f"{rf.module.name.split('.')[-1]}.{rf.name}: for {norm(lp.target)} in {norm(lp.iter)[:50]}")
        it_call = next((x for x in ast.walk(lp.iter) if isinstance(x, ast.Call) and norm(x.func).endswith("iterparse")), None)
        r8.check(it_call is None or lp.iter is it_call, rf, lp, f"the reader iterates `{norm(lp.iter)[:60]}`, not the event stream itself: events are dropped or re-ordered before the reader sees them", construct=f"{rf.name}: event stream wrapped")
        if it_call is not None:
            ev = next((k.value for k in it_call.keywords if k.arg == "events"), None)
            evs = p.fold(ev, rf) if ev is not None else None
            r8.check(ev is not None and evs is not None and set(evs) == {"start", "end"}, rf, it_call, f"the reader asks the parser for events {evs!r}: its state machine opens objects on 'start' and completes them on 'end'", construct=f"{rf.name}: parser events")
        for n in ast.walk(lp):
            if isinstance(n, (ast.Break, ast.Return)):
                # a break belongs to the innermost loop around it
                x = parent(n)
                while x is not None and not isinstance(x, (ast.For, ast.While, ast.FunctionDef, ast.AsyncFunctionDef)):
                    x = parent(x)
                if isinstance(n, ast.Break) and x is not lp:
                    continue
                if isinstance(n, ast.Return) and isinstance(x, (ast.FunctionDef, ast.AsyncFunctionDef)) and x is not rf.node:
                    continue
                gr = cfg_of(rf)
                conds = [norm(t.ast)[:60] + (" is true" if l == "T" else " is false") for t, l in gr.control_deps(gr.node_for(n), through_loops=False) if t.kind == "test"]
                r8.check(False, rf, n, f"the reader stops reading the document ({'break' if isinstance(n, ast.Break) else 'return'}) when {'; '.join(conds[-3:]) or 'reached'}: every element behind that point is missing from the loaded object - records of files (info -sf prints fewer digests than the manifests hold), references to nested histories, later chain entries", construct=f"{rf.name}: event loop left early")

    # ------------------------------------------------------------------ R10.1
    r1 = report.rule(
        "R10.1",
        "writer/reader table agreement: for every (container, child tag | attribute) the manifest writer fills from model field f through conversion c, the reader assigns the same field "
        "through the inverse conversion in the matching context (exceptions: lastmodificationdate is written but deliberately not parsed; process text is carried by MHLProcess on the way out)",
        25,
    )
    rrows, ctx_of_tag = reader_rows(p, rd)
    if len(rrows) < 20:
        # the reader's decision table could not be read off `parse` (29 rows on the reference tree): its work was moved into helpers that take the parser
        # state as an object, or is dispatched through tables - a structure this rule does not model. No verdict.
        raise AnalysisError(f"manifest reader: only {len(rrows)} (container, tag, slot) assignments could be read off {rd.qual}; the reader's structure is not the state machine this rule models")
    wrows = writer_rows(p, mdoc)
    report.extra["reader_rows"] = {f"{k}": [(a, b, c) for a, b, c, _ in v] for k, v in sorted(rrows.items(), key=str)}
    report.extra["writer_rows"] = {f"{k}": [(a, b, c) for a, b, c, _, _ in v] for k, v in sorted(wrows.items(), key=str)}
    for (container, tag, slot), vals in sorted(wrows.items(), key=str):
        if container is None or container == "hashlist":
            continue
        cls = ctx_of_tag.get(container)
        for (wcls, wfield, wconv, node, func) in vals:
            desc = f"<{container}>/<{tag}> {slot} <- {wcls}.{wfield}" + (f" via {wconv}" if wconv else "")
            r1.instance(func, node, desc)
            if tag.endswith("/dir-structure") and slot != "text":
                continue  # format tag / action / hashdate on <structure> children repeat those of the <content> entry; the reader takes them from <content>
            if slot == "@lastmodificationdate":
                continue  # 3.11 #2: written, deliberately not parsed back; C10's statement does not list modification dates
            if container == "hashlistreference":
                rr = rrows.get(("MHLHashListReference", tag, slot), [])
                want_field = {"path": "path", "c4": "reference_hash"}.get(tag)
                ok = any(f == want_field and (conv == "local") == (tag == "path") for (_, f, conv, _) in rr)
                r1.check(ok, func, node, f"the reader does not recover {desc} into MHLHashListReference.{want_field}", construct=f"reader row for {desc}")
                continue
            if cls is None and container in ("roothash",):
                cls = "MHLMediaHash"
            rr = rrows.get((cls, tag, slot), [])
            if container == "ignore" and tag == "pattern":
                continue  # R12.6 decides the pattern list round trip
            if not rr:
                r1.check(False, func, node, f"the writer emits {desc} but the reader has no assignment for ({cls}, <{tag}>, {slot}): the value is lost on reading", construct=f"no reader row for {desc}")
                continue
            okf = False
            for (rcls, rfield, rconv, rnode) in rr:
                if isinstance(rconv, str) and rconv.startswith("unrecognised:"):
                    raise AnalysisError(f"{rd.loc(rnode)}: the reader transforms the value of ({cls}, <{tag}>, {slot}) with `{rconv[13:]}`, a conversion this checker does not model")
                same_field = (rcls == wcls and rfield == wfield) or (wcls == "MHLProcess" and wfield == "process_type" and rcls == "MHLProcessInfo" and rfield == "process")
                # directory entries: <content> text -> hash_string, <structure> text -> structure_hash_string (both rows exist under the same tag)
                inv_ok = INVERSE.get(wconv) == rconv or (wconv is None and rconv == "local" and wfield == "hash_string" and tag.endswith("dir-content"))  # the reader passes directory content digests through the (identity-on-digests) path conversion
                if same_field and inv_ok:
                    okf = True
            got = [(a, b, c) for a, b, c, _ in rr]
            r1.check(okf, func, node, f"the writer emits {desc} but the reader assigns {got}: written and re-read values differ (wrong field, missing inverse conversion, or a value-changing conversion such as case folding / trimming)", construct=f"row mismatch {desc} vs {got}")
    # reader rows without a writer counterpart are harmless (backward compatibility), but each format-entry row must exist
    for need_key in (("MHLMediaHash", "<format>/file", "tag"), ("MHLMediaHash", "<format>/file", "text"), ("MHLMediaHash", "<format>/file", "@action"), ("MHLMediaHash", "<format>/file", "@hashdate"), ("MHLMediaHash", "<format>/dir-content", "text"), ("MHLMediaHash", "<format>/dir-structure", "text"), ("MHLMediaHash", "path", "@size"), ("MHLMediaHash", "previousPath", "text")):
        r1.check(need_key in rrows, rd, rd.node, f"the reader has no assignment for {need_key}", construct=f"reader row {need_key}")

    # ------------------------------------------------------------------ R10.2
    r2 = report.rule("R10.2", "escaping: no non-constant string is written raw into a manifest or chain file; every variable value travels through an lxml element (E(...), .text, .attrib) and etree.tostring", 4)
    def _interpolated_values(f, e, depth=0):
        """[(function, value expression)] that a run-time built markup string interpolates (f-string fields, str.format arguments, + operands),
        following local names and package helpers that return such a string; None when the construction is not understood"""
        if depth > 3:
            return None
        if isinstance(e, ast.Constant):
            return []
        if isinstance(e, ast.JoinedStr):
            return [(f, v.value) for v in e.values if isinstance(v, ast.FormattedValue)]
        if isinstance(e, ast.BinOp) and isinstance(e.op, ast.Add):
            a, b = _interpolated_values(f, e.left, depth), _interpolated_values(f, e.right, depth)
            return None if a is None or b is None else a + b
        if isinstance(e, ast.Call) and isinstance(e.func, ast.Attribute) and e.func.attr == "format" and isinstance(p.fold(e.func.value, f), str):
            return [(f, a) for a in e.args] + [(f, k.value) for k in e.keywords]
        if isinstance(e, ast.Name):
            binds = [n for n in walk_no_nested(f.node) if isinstance(n, ast.Assign) and len(n.targets) == 1 and isinstance(n.targets[0], ast.Name) and n.targets[0].id == e.id]
            if len(binds) == 1:
                return _interpolated_values(f, binds[0].value, depth + 1)
            return None
        if isinstance(e, ast.Call):
            tg = [t for t in p.resolve_call(e, f) if t in p.funcs]
            if len(tg) == 1:
                h = p.funcs[tg[0]]
                out = []
                for rn in [n for n in walk_no_nested(h.node) if isinstance(n, ast.Return) and n.value is not None]:
                    sub = _interpolated_values(h, rn.value, depth + 1)
                    if sub is None:
                        return None
                    out += sub
                return out
        return None

    def _judge_raw(f, node, expr):
        """VIOLATION only when a name-like value (path / file name / folder name / comment ...) is interpolated without an XML escape; markup built by hand with
        every such value escaped is a different architecture, not a defect: that is reported as not analysable"""
        vals = _interpolated_values(f, expr) if expr is not None else None
        if vals is None:
            return "unknown"
        verdict = "escaped"
        for vf, v in vals:
            t = norm(v)
            esc = isinstance(v, ast.Call) and norm(v.func).split(".")[-1] in ("escape", "quoteattr")
            if esc:
                continue
            ty = p.etype(v, vf)
            if ty is not None and ty[0] == "B" and ty[1] == "int":
                continue
            if any(k in t.lower() for k in ("path", "filename", "file_name", "name", "comment", "location", "pattern", "text")):
                return f"`{t[:60]}` is interpolated into markup without XML escaping"
            verdict = "unknown"
        return verdict

    for x in raw:
        arg = x.node.args[0] if isinstance(x.node, ast.Call) and x.node.args else None
        # the writer helper's own parameter: judge what the callers pass (done below at the call sites)
        j = _judge_raw(x.func, x.node, arg)
        if j in ("escaped", "unknown"):
            continue
        r2.check(False, x.func, x.node, f"a non-constant string is written into the XML file without going through the escaping builder: {j} (names with & < > \" would corrupt the document)", construct=f"raw dynamic write {norm(x.node)[:60]}")
    sw, ew = em.writer_roles()
    for fq, param in list(sw.items()) + list(ew.items()):
        f = p.funcs[fq]
        if not f.module.name.endswith("_xml_parser"):
            continue
        r2.instance(f, f.node, f"writer helper {f.name}({param})")
    for fq, param in ew.items():
        f = p.funcs[fq]
        if f.module.name.endswith("_xml_parser"):
            ts = [n for n in walk_no_nested(f.node) if isinstance(n, ast.Call) and norm(n.func).endswith("etree.tostring")]
            r2.check(len(ts) == 1 and norm(ts[0].args[0]) == param, f, f.node, "the element writer does not serialise its element with etree.tostring", construct=f"{f.name}: tostring")
    _not_modelled = []
    for w in (mw, cw):
        for c, tg in p.calls[w.qual]:
            for t in tg:
                if t in sw and p.funcs[t].module is w.module:
                    arg = p.bind_args(p.funcs[t], c).get(sw[t])
                    v = p.fold(arg, w) if arg is not None else None
                    if isinstance(v, (str, bytes)):
                        r2.check(True, w, c, "")
                        continue
                    j = _judge_raw(w, c, arg)
                    if j in ("escaped", "unknown"):
                        _not_modelled.append(f"{w.loc(c)}: `{norm(arg)[:60]}` is markup assembled at run time and written raw ({'every name-like value is escaped by hand' if j == 'escaped' else 'what it interpolates could not be established'}); this writer architecture is not modelled")
                        continue
                    r2.check(False, w, c, f"`{norm(arg)[:60]}` is written raw (not a constant) and bypasses XML escaping: {j}", construct=f"raw write of {norm(arg)[:60]}")
    if _not_modelled and not any(not fd_.ok for fd_ in getattr(r2, "checks", []) ) and not r2.findings:
        raise AnalysisError(_not_modelled[0])
    # f-strings / concatenation with markup anywhere in the writer modules
    for m in (mw.module, cw.module):
        for n in ast.walk(m.tree):
            if isinstance(n, ast.JoinedStr) and any(isinstance(v, ast.Constant) and ("<" in str(v.value) and ">" in str(v.value)) for v in n.values) and any(isinstance(v, ast.FormattedValue) for v in n.values):
                f = p.func_of_node.get(id(n))
                r2.check(False, f, n, "XML markup is assembled with an f-string around a variable value", construct=f"f-string markup {norm(n)[:60]}")

    # ------------------------------------------------------------------ R10.7
    r7 = report.rule(
        "R10.7",
        "between serialisation and the file nothing edits the text: the string writers hand the serialised XML to file.write through `.encode('utf-8')` and, at most, an indentation "
        "that is inserted at the start of markup lines only (a regular expression anchored at `^` in MULTILINE mode with a look-ahead for `<`). A line-based edit of the whole string "
        "(textwrap.indent, splitlines, strip, replace, expandtabs) also hits text VALUES: file names containing a line boundary character (U+2028, U+0085, a line feed) are written with extra characters in them",
        2,
    )
    for fq, param in sw.items():
        f = p.funcs[fq]
        if not f.module.name.endswith("_xml_parser"):
            continue
        writes = [n for n in walk_no_nested(f.node) if isinstance(n, ast.Call) and isinstance(n.func, ast.Attribute) and n.func.attr == "write" and n.args]
        for wcall in writes:
            r7.instance(f, wcall, f"{f.name}: {norm(wcall)[:60]}")
            e = wcall.args[0]
            steps = 0
            while steps < 8:
                steps += 1
                if isinstance(e, ast.Name) and e.id == param:
                    r7.check(True, f, wcall, "")
                    break
                if isinstance(e, ast.Name):
                    binds = [n for n in walk_no_nested(f.node) if isinstance(n, ast.Assign) and len(n.targets) == 1 and isinstance(n.targets[0], ast.Name) and n.targets[0].id == e.id]
                    if len(binds) != 1:
                        raise AnalysisError(f"{f.loc(wcall)}: the string written is bound more than once")
                    e = binds[0].value
                    continue
                if isinstance(e, ast.Call) and isinstance(e.func, ast.Attribute) and e.func.attr == "encode":
                    e = e.func.value
                    continue
                if isinstance(e, ast.Call) and norm(e.func) in ("re.sub",) and len(e.args) >= 3:
                    pat = p.fold(e.args[0], f)
                    flags = [k.value for k in e.keywords if k.arg == "flags"] + list(e.args[4:5])
                    ok_pat = isinstance(pat, str) and pat.startswith("^") and "(?=" in pat and "<" in pat and not pat.startswith("^(?=.*")
                    ok_flags = bool(flags) and "MULTILINE" in norm(flags[0]) and "DOTALL" not in norm(flags[0])
                    r7.check(ok_pat and ok_flags, f, e, f"the indentation is inserted by `{norm(e)[:70]}`, which is not anchored at the start of markup lines only", construct=f"{f.name}: indentation pattern")
                    # ... and even an anchored pattern cannot tell the line break the serialiser puts in front of a closing tag from one that ENDS a text value
                    # (`<path>a\n</path>` for a file named "a\n"): it may only ever see the constant tags the writers emit by hand, never a serialised element
                    for cf_, call_ in callers_of(p, fq):
                        b_ = p.bind_args(f, call_)
                        a_ = b_.get(param)
                        if a_ is None or isinstance(p.fold(a_, cf_), str):
                            continue
                        r7.instance(cf_, call_, f"{cf_.name}: {norm(call_)[:60]}")
                        r7.check(False, cf_, call_, f"`{norm(call_)[:70]}` hands serialised, variable XML to {f.name}, which indents it by editing the text line by line (`{norm(e)[:50]}`): the line that holds the closing tag of a text value ending in a line break (`<path>a\\n</path>` for a file named 'a\\n') gets the indentation inserted INTO the value - the name read back differs, verify reports the file as new (exit 21) on an unchanged tree. Indent the element tree (etree.indent) before serialising instead", construct=f"{cf_.name}: serialised element indented by text edit")
                    e = e.args[2]
                    continue
                if isinstance(e, ast.Call) and (norm(e.func) in ("textwrap.indent", "textwrap.dedent", "textwrap.fill") or (isinstance(e.func, ast.Attribute) and e.func.attr in ("splitlines", "strip", "rstrip", "lstrip", "replace", "expandtabs", "translate", "title", "lower", "upper"))):
                    r7.check(False, f, e, f"`{norm(e)[:60]}` edits the serialised document as a whole, text values included: Python's line splitting breaks at U+2028, U+0085, VT, FF ... as well as at line feeds, so a file or folder name that contains one of them is written with the indentation (or without the stripped characters) inside the name and is not recovered by any reader", construct=f"{f.name}: line-based edit of serialised XML ({norm(e.func)})")
                    break
                raise AnalysisError(f"{f.loc(wcall)}: how the string written derives from `{param}` is not understood: {norm(e)[:80]}")

    for fq, param in ew.items():
        f = p.funcs[fq]
        if not f.module.name.endswith("_xml_parser"):
            continue
        for wcall in [n for n in walk_no_nested(f.node) if isinstance(n, ast.Call) and isinstance(n.func, ast.Attribute) and n.func.attr == "write" and n.args]:
            r7.instance(f, wcall, f"{f.name}: {norm(wcall)[:60]}")
            e = wcall.args[0]
            for _ in range(6):
                if isinstance(e, ast.Call) and isinstance(e.func, ast.Attribute) and e.func.attr == "encode":
                    e = e.func.value
                elif isinstance(e, ast.Name):
                    binds = [n for n in walk_no_nested(f.node) if isinstance(n, ast.Assign) and len(n.targets) == 1 and isinstance(n.targets[0], ast.Name) and n.targets[0].id == e.id]
                    if len(binds) != 1:
                        break
                    e = binds[0].value
                else:
                    break
            parts_ = []

            def _flat(x):
                if isinstance(x, ast.BinOp) and isinstance(x.op, ast.Add):
                    _flat(x.left)
                    _flat(x.right)
                else:
                    parts_.append(x)

            _flat(e)
            okw = all(isinstance(x, ast.Constant) or (isinstance(x, ast.Name) and x.id in f.params and x.id != param) or (isinstance(x, ast.Call) and norm(x.func).endswith("etree.tostring") and x.args and norm(x.args[0]) == param) for x in parts_) and any(isinstance(x, ast.Call) for x in parts_)
            r7.check(okw, f, wcall, f"the element writer does not write `<indent> + etree.tostring({param}) + <constant>` as it is: `{norm(e)[:80]}`", construct=f"{f.name}: serialised element edited before the write")

    # ------------------------------------------------------------------ R10.3
    r3 = report.rule("R10.3", "path conversion pairing: every path-typed text is converted to POSIX on the way out and back to local form on the way in; both conversions are pure separator conversions (no normalisation, case folding or trimming)", 6)
    for doc in (mdoc, cdoc):
        for el in walk_elems(doc):
            if el.tag in ("path", "previousPath") and el.text is not None:
                r3.instance(el.func, el.node, f"<{el.tag}> out")
                v = el.text[0]
                r3.check(isinstance(v, ast.Call) and any(t.endswith("utils.convert_local_path_to_posix") for t in p.resolve_call(v, el.text[1])), el.func, el.node, f"<{el.tag}> is written without converting the path to POSIX", construct=f"<{el.tag}> out conversion")
    for (cls, tag, slot), vals in rrows.items():
        if tag in ("path", "previousPath") and slot == "text":
            for (rcls, rfield, rconv, rnode) in vals:
                r3.instance(rd, rnode, f"<{tag}> in -> {rcls}.{rfield}")
                r3.check(rconv == "local", rd, rnode, f"<{tag}> is read into {rcls}.{rfield} without converting it back to the local path form", construct=f"<{tag}> in conversion ({cls})")
    crd = p.funcs.get("ascmhl.chain_xml_parser.parse")
    croles = c05.chain_reader_fields(p)
    st = [n for n in walk_no_nested(crd.node) if isinstance(n, ast.Assign) and isinstance(n.targets[0], ast.Attribute) and n.targets[0].attr == croles["path"]]
    r3.instance(crd, st[0] if st else crd.node, "chain <path> in")
    r3.check(len(st) == 1 and norm(st[0].value) == "convert_posix_to_local_path(element.text)", crd, st[0] if st else crd.node, "the chain reader does not convert the entry path back to local form", construct="chain path in conversion")
    out_f = p.funcs.get("ascmhl.utils.convert_local_path_to_posix")
    in_f = p.funcs.get("ascmhl.utils.convert_posix_to_local_path")
    if out_f is None or in_f is None:
        raise AnalysisError("path conversion helpers not found")
    allowed = {"str", "Path", "PurePosixPath", "PureWindowsPath", "pathlib.Path", "pathlib.PurePosixPath", "pathlib.PureWindowsPath"}
    for f in (out_f, in_f):
        r3.instance(f, f.node, f.name)
        for n in walk_no_nested(f.node):
            if isinstance(n, ast.Call):
                nm = norm(n.func)
                ok = nm in allowed or nm.endswith(".as_posix")
                r3.check(ok, f, n, f"{f.name} applies `{nm}` to the path: the value read back is no longer the value written (normalisation / case folding / trimming is not a separator conversion)", construct=f"{f.name}: {nm}")
        prm = f.params[0]
        rets = [n for n in walk_no_nested(f.node) if isinstance(n, ast.Return)]
        for rt in rets:
            names = {x.id for x in ast.walk(rt.value) if isinstance(x, ast.Name)} - {"str", "Path", "PurePosixPath", "PureWindowsPath", "pathlib"}
            r3.check(names == {prm}, f, rt, f"{f.name} returns a value built from {sorted(names)}, not from its argument alone", construct=f"{f.name}: return")
    rets = [n for n in walk_no_nested(in_f.node) if isinstance(n, ast.Return)]
    plain = [r for r in rets if isinstance(r.value, ast.Name) and r.value.id == in_f.params[0]]
    r3.check(len(plain) == 1, in_f, in_f.node, "on POSIX systems the read-side conversion is not the identity", construct="posix identity")

    # ------------------------------------------------------------------ R10.5
    r5 = report.rule("R10.5", "encoding: both writers declare UTF-8 and encode with utf-8; both readers hand a binary file to the XML parser", 4)
    for w in (mw, cw):
        r5.instance(w, w.node, w.name)
        consts = [n.value for n in walk_no_nested(w.node) if isinstance(n, ast.Constant) and isinstance(n.value, bytes)]
        r5.check(any(b'encoding="UTF-8"' in c for c in consts), w, w.node, "the XML declaration does not state UTF-8", construct=f"{w.name}: declaration")
        helper = [p.funcs[t] for t in sw if p.funcs[t].module is w.module]
        okenc = bool(helper) and all(any(isinstance(n, ast.Call) and isinstance(n.func, ast.Attribute) and n.func.attr == "encode" and n.args and str(p.fold(n.args[0], h)).lower().replace("-", "") == "utf8" for n in walk_no_nested(h.node)) for h in helper)
        r5.check(okenc, w, w.node, "text is not encoded as UTF-8 when written", construct=f"{w.name}: encode")
        for c, tg in p.calls[w.qual]:
            if "builtin:open" in tg:
                r5.check("b" in (open_mode(p, c, w) or ""), w, c, "the output file is not opened in binary mode")
    for r in (rd, crd):
        r5.instance(r, r.node, r.qual)
        for c, tg in p.calls[r.qual]:
            if "builtin:open" in tg:
                r5.check(open_mode(p, c, r) == "rb", r, c, "the XML file is not opened in binary mode for parsing (the declared encoding must decide)")

    include_rules(report, p, 'c12', ['R12.6'], 'the ignore patterns a manifest carries are recovered unchanged and in order by the reader (the spec it fills must not be pre-filled or de-duplicating)')
    include_rules(report, p, 'c16', ['R16.2'], 'a size of 0 is written (the attribute is emitted under `is not None`)')
    include_rules(report, p, 'c17', ['R17.1'], 'every record read is kept: the hash list appends each record and indexes it under its own path (and previous path) only')
    include_rules(report, p, 'c16', ['R16.5'], 'a hash date read from a manifest must keep its offset until it is written again')
    # ------------------------------------------------------------------ R10.6
    r6 = report.rule(
        "R10.6",
        "what the reader fills reaches the hash list: on the closing tag of each container (creatorinfo, processinfo, hash / directoryhash, roothash, hashlistreference) the "
        "object is attached to the hash list under the parser-state tests of that tag only; an <author> start opens exactly one author; a conversion of an optional "
        "attribute is applied when the attribute is present",
        7,
    )
    from .common import atomic_deps

    grd = cfg_of(rd)

    def atoms_of(node):
        out = set()
        for t, l in grd.control_deps(grd.node_for(node), through_loops=False):
            if t.kind == "test":
                out |= set(atomic_deps(t.ast, l))
        return out

    def state_only(test_text):
        t = test_text.replace('"', "'")
        return t.startswith(("tag == ", "tag in ", "event == ", "type(current_object) is ")) or t in ("current_object", "current_object is None") or (t.startswith("tag == ") and " or tag == " in t)

    def attach(desc, pick, want_tags, want_cls):
        sites = [n for n in walk_no_nested(rd.node) if pick(n)]
        if not sites:
            r6.instance(rd, rd.node, desc)
            r6.check(False, rd, rd.node, f"the reader never attaches {desc}: what it parsed is lost", construct=f"attach missing: {desc}")
            return
        for n in sites:
            r6.instance(rd, n, f"{desc}: {norm(n)[:70]}")
            at = atoms_of(n)
            texts = {a for a, l in at if l == "T"}
            tag_ok = any(all(f"tag == '{w}'" in a for w in want_tags) for a in texts) if len(want_tags) > 1 else (f"tag == '{want_tags[0]}'" in texts)
            cls_ok = want_cls is None or f"type(current_object) is {want_cls}" in texts
            extra = sorted(a for a in at if not state_only(a[0]))
            r6.check(tag_ok and cls_ok and ("event == 'end'", "T") in at, rd, n, f"{desc} happens under {sorted(at)} and not at the closing <{'/'.join(want_tags)}> of a {want_cls}: the parsed container is lost or attached at the wrong time", construct=f"attach condition: {desc}")
            r6.check(not extra, rd, n, f"{desc} additionally depends on {extra}", construct=f"attach extra condition: {desc}")

    def is_store(attr, base_has):
        return lambda n: isinstance(n, ast.Assign) and len(n.targets) == 1 and isinstance(n.targets[0], ast.Attribute) and n.targets[0].attr == attr and base_has in norm(n.targets[0].value) and isinstance(n.value, ast.Name)

    def is_call(meth):
        return lambda n: isinstance(n, ast.Expr) and isinstance(n.value, ast.Call) and isinstance(n.value.func, ast.Attribute) and n.value.func.attr == meth and "hash_list" in norm(n.value.func.value) and n.value.args and isinstance(n.value.args[0], ast.Name)

    attach("creator info -> hash_list.creator_info", is_store("creator_info", "hash_list"), ["creatorinfo"], "MHLCreatorInfo")
    attach("process info -> hash_list.process_info", is_store("process_info", "hash_list"), ["processinfo"], "MHLProcessInfo")
    attach("root hash -> process_info.root_media_hash", lambda n: isinstance(n, ast.Assign) and len(n.targets) == 1 and isinstance(n.targets[0], ast.Attribute) and n.targets[0].attr == "root_media_hash" and isinstance(n.value, ast.Name), ["roothash"], "MHLMediaHash")
    attach("reference -> hash_list.append_hash_list_reference", is_call("append_hash_list_reference"), ["hashlistreference"], "MHLHashListReference")
    # records: hash_list.append_hash(current_object) at </hash> or </directoryhash>
    recs = [n for n in walk_no_nested(rd.node) if is_call("append_hash")(n) and norm(n.value.args[0]) == "current_object"]
    r6.instance(rd, recs[0] if recs else rd.node, "record -> hash_list.append_hash")
    okr = len(recs) >= 1
    for n in recs:
        at = atoms_of(n)
        texts = {a for a, l in at if l == "T"}
        okr = okr and (("tag == 'hash'" in texts and "tag == 'directoryhash'" in texts) or any("tag == 'hash'" in a and "tag == 'directoryhash'" in a for a in texts)) and ("event == 'end'", "T") in at and not [a for a in at if not state_only(a[0])]
    r6.check(okr, rd, recs[0] if recs else rd.node, "file / directory records are not appended to the hash list at their closing tag under parser-state tests only", construct="attach condition: records")
    # nested containers: every push of the enclosing object at <X> has its pop at </X>
    pushes = [n for n in walk_no_nested(rd.node) if isinstance(n, ast.Expr) and isinstance(n.value, ast.Call) and isinstance(n.value.func, ast.Attribute) and n.value.func.attr == "append" and "stack" in norm(n.value.func.value)]
    pops = [n for n in walk_no_nested(rd.node) if isinstance(n, ast.Assign) and isinstance(n.value, ast.Call) and isinstance(n.value.func, ast.Attribute) and n.value.func.attr == "pop" and "stack" in norm(n.value.func.value)]
    for pu in pushes:
        at = atoms_of(pu)
        tags = sorted(a.split("'")[1] for a, l in at if l == "T" and a.startswith("tag == '"))
        r6.instance(rd, pu, f"push at <{'/'.join(tags)}>")
        okp = len(tags) == 1 and ("event == 'start'", "T") in at
        match = [po for po in pops if (f"tag == '{tags[0]}'", "T") in atoms_of(po) and ("event == 'end'", "T") in atoms_of(po)] if okp else []
        r6.check(okp and len(match) == 1 and norm(match[0].targets[0]) == "current_object", rd, pu, f"the object pushed at <{'/'.join(tags)}> is not popped back at </{'/'.join(tags)}>: the enclosing container (process info) is lost", construct=f"push without matching pop: {'/'.join(tags)}")
    # <author> start
    auth = [n for n in walk_no_nested(rd.node) if isinstance(n, ast.Expr) and isinstance(n.value, ast.Call) and isinstance(n.value.func, ast.Attribute) and n.value.func.attr == "append" and norm(n.value.func.value).endswith(".authors")]
    for n in auth:
        r6.instance(rd, n, norm(n)[:70])
        at = atoms_of(n)
        r6.check(("tag == 'author'", "T") in at and ("event == 'start'", "T") in at and not [a for a in at if not state_only(a[0])], rd, n, f"an author object is opened under {sorted(at)} instead of 'start of an <author> element'", construct="author opened under wrong condition")
    # conversions of optional attributes
    for n in walk_no_nested(rd.node):
        if isinstance(n, ast.Assign) and len(n.targets) == 1 and isinstance(n.targets[0], ast.Name) and isinstance(n.value, ast.Call) and n.value.args and isinstance(n.value.args[0], ast.Name):
            src = n.value.args[0].id
            srcdef = [x for x in walk_no_nested(rd.node) if isinstance(x, ast.Assign) and len(x.targets) == 1 and isinstance(x.targets[0], ast.Name) and x.targets[0].id == src and "element.attrib" in norm(x.value)]
            if not srcdef:
                continue
            r6.instance(rd, n, norm(n)[:70])
            at = atoms_of(n)
            mention = [(a, l) for a, l in at if a.split(" ")[0] == src]
            good = all((a == f"{src} is None" and l == "F") or (a == src and l == "T") for a, l in mention) and bool(mention)
            r6.check(good, rd, n, f"`{norm(n)[:60]}` is applied under {sorted(mention)}: the conversion must run when the attribute is present", construct=f"optional attribute conversion guard: {src}")

    report.not_decided += ["value equality for arbitrary Unicode at run time", "lxml's escaping and parsing (trusted)", "modification dates (written, deliberately not parsed back)"]


def finish(report):
    return report.finish(
        level="other",
        explanation="the writer's (element, tag|attribute) <- (model field, conversion) table, extracted from the emission grammar, is compared row by row with the reader's decision table extracted from the "
        "event-driven parser by control dependence; taint of raw writes; purity and pairing of the path conversions; encodings. Values are not written or read.",
    )
