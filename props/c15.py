"""C15 - an interrupted create never damages what was already recorded (necessary structural conditions)."""
from __future__ import annotations

import ast

from sa.cfg import cfg_of
from sa.effects import classify, open_mode
from sa.flow import show, sig, subterms
from sa.model import AnalysisError, norm, parent, walk_no_nested

from .common import callers_of, commands, need, prov, reach_from
from .xmlcommon import writers


def run(report, p):
    pr = prov(p)
    cmds = commands(p)
    ext = p.module_const(p.modules["ascmhl.__version__"], "ascmhl_file_extension")
    chain_name = p.module_const(p.modules["ascmhl.__version__"], "ascmhl_chainfile_name")
    if not isinstance(ext, str) or not isinstance(chain_name, str):
        raise AnalysisError("manifest extension / chain file name constants not found")
    report.assume("os.replace is atomic on the same file system (POSIX rename semantics)")
    report.assume("the loader ignores directory entries that do not end with the manifest extension (checked: suffix of temporary names)")

    # ------------------------------------------------------------------ R15.1
    r1 = report.rule(
        "R15.1",
        "no durable history file (manifest, chain) is opened truncating under its final name: the accepted protocol is open(<final> + constant suffix) -> writes -> close -> "
        "os.replace(<that temporary>, <final>) on every non-raising path, with a suffix the loader ignores",
        2,
    )
    roots = [need(cmds, "create").qual, need(cmds, "flatten").qual]
    reach = reach_from(p, roots)
    n = 0
    for fq in sorted(reach):
        f = p.funcs[fq]
        g = cfg_of(f)
        for call, tg in p.calls[fq]:
            if "builtin:open" not in tg:
                continue
            mode = open_mode(p, call, f)
            if mode is not None and not any(c in mode for c in "wax+"):
                continue
            n += 1
            r1.instance(f, call, norm(call))
            arg = call.args[0] if call.args else None
            if arg is None:
                raise AnalysisError(f"{f.loc(call)}: open without a path")
            origs = pr.origins(arg, f)
            tmp_forms = [o for o in origs if o[0] == "op" and o[1] == "Add" and len(o[2]) == 2 and o[2][1][0] == "const" and isinstance(o[2][1][1], str) and o[2][1][1]]
            if len(tmp_forms) != len(origs) or not origs:
                r1.check(False, f, call, "a durable history file is opened for writing under its final name and written incrementally: a crash leaves a truncated / half-written file that the next load aborts on", witness="; ".join(show(o)[:160] for o in origs))
                continue
            ok_all = True
            # the temporary name is a fixed function of the final name: a killed run leaves it behind, so it must be re-creatable
            # (the manifest's name carries a fresh number and the time of the run, its temporary does not recur; the chain file's does)
            if f is not writers(p)[0]:
                r1.check(mode is not None and "x" not in mode, f, call, f"the temporary file is opened with exclusive-create mode {mode!r}: the temporary a killed run leaves behind makes every later run on this history abort with FileExistsError", construct=f"exclusive create of temporary ({mode})")
            elif mode is not None and "x" in mode:
                r1.note(f"{f.loc(call)}: manifest temporary opened with exclusive create ({mode}); its name is fresh per run, so not a finding")
            for o in tmp_forms:
                final, suffix = o[2][0], o[2][1][1]
                bad_suffix = suffix.endswith(ext) or "/" in suffix or suffix in ("",)
                r1.check(not bad_suffix, f, call, f"temporary suffix {suffix!r} is not ignored by the loader (ends with the manifest extension)", construct=f"tmp suffix {suffix!r}")
                # replace(tmp, final) on every normal path after the open, preceded by close
                on = g.node_for(call)
                reps = []
                for c2, tg2 in p.calls[fq]:
                    if any(t in ("ext:os.replace", "ext:os.rename") for t in tg2) and len(c2.args) == 2:
                        so = pr.origins(c2.args[0], f)
                        do = pr.origins(c2.args[1], f)
                        if any(sig(x, 4) == sig(o, 4) for x in so) and any(sig(x, 4) == sig(final, 4) for x in do):
                            reps.append(g.node_for(c2))
                if not reps:
                    r1.check(False, f, call, "the temporary file is never moved to the final name with os.replace(tmp, final)", construct="missing os.replace")
                    ok_all = False
                    continue
                path = g.find_path(on, {g.exit.id}, avoid={r.id for r in reps})
                r1.check(path is None, f, call, "a non-raising path leaves the function after open() without publishing the temporary file via os.replace", witness=g.fmt_path(path) if path else None, construct="path to exit without os.replace")
                # close (or with-exit) dominates replace
                handle = _handle_name(call)
                closes = [g.node_for(c3) for c3, _ in p.calls[fq] if isinstance(c3.func, ast.Attribute) and c3.func.attr == "close" and norm(c3.func.value) == handle]
                in_with = isinstance(parent(call), ast.withitem)
                with_stmt = parent(parent(call)) if in_with else None
                for rn in reps:
                    inside_with = with_stmt is not None and _inside(rn.ast, with_stmt)
                    ok_close = (in_with and not inside_with) or any(g.dominates(cn, rn) for cn in closes)
                    r1.check(ok_close, f, rn.ast, "os.replace publishes the file before it is closed (its content can still sit in the write buffer: a kill right after the rename leaves an empty or partial file under the final name)", construct="replace before close")
    if n < 2:
        raise AnalysisError(f"only {n} write-open site(s) reachable from create/flatten; two writers were confirmed")

    # ------------------------------------------------------------------ R15.2
    r2 = report.rule("R15.2", "in each history the new generation is validated before the first write (an abort leaves nothing half-written)", 1)
    mw, cw = writers(p)
    for cf, call in callers_of(p, mw.qual):
        g = cfg_of(cf)
        r2.instance(cf, call, norm(call)[:80])
        vals = [g.node_for(c) for c, tg in p.calls[cf.qual] if any("validate" in t for t in tg if t in p.funcs)]
        r2.check(any(g.dominates(v, g.node_for(call)) and v is not g.node_for(call) for v in vals), cf, call, "the manifest writer is not preceded by validation of the new hash list")

    # ------------------------------------------------------------------ R15.3
    r3 = report.rule("R15.3", "per history the manifest is published before its chain file is rewritten, so a crash in between leaves the old (still loadable) chain", 1)
    for cf, call in callers_of(p, cw.qual):
        if cf.module.name.endswith("_debug_commands"):
            continue
        g = cfg_of(cf)
        r3.instance(cf, call, norm(call)[:80])
        wr = [g.node_for(c) for c, tg in p.calls[cf.qual] if any(mw.qual in p.reachable([t]) for t in tg if t in p.funcs)]
        r3.check(any(g.dominates(w, g.node_for(call)) and w is not g.node_for(call) for w in wr), cf, call, "the chain file is rewritten before the new manifest has been written")

    report.not_decided += [
        "the full crash-point quantifier: reordering of writes by the OS, durability of directory entries, fsync",
        "that the loader tolerates every intermediate state; only that no state with a half-written durable file follows from the code's write protocol",
        "a crash between a child's commit and its parent's leaves the child one generation ahead (loadable, the reference is simply missing)",
    ]


def _inside(n, container):
    x = n
    while x is not None:
        if x is container:
            return True
        x = parent(x)
    return False


def _handle_name(call):
    par = parent(call)
    if isinstance(par, ast.Assign) and len(par.targets) == 1:
        return norm(par.targets[0])
    if isinstance(par, ast.withitem) and par.optional_vars is not None:
        return norm(par.optional_vars)
    return "<unnamed>"


def finish(report):
    return report.finish(
        level="other",
        explanation="typestate on the two writers (temp name -> close -> atomic replace), validation-before-write dominance and manifest-before-chain order. "
        "Necessary conditions only: crash points are not enumerated or executed.",
    )
