"""C15 - an interrupted create never damages what was already recorded (necessary structural conditions)."""
from __future__ import annotations

import ast
import os

from sa.cfg import cfg_of
from sa.effects import classify, open_mode
from sa.flow import show, sig, subterms
from sa.model import AnalysisError, norm, parent, walk_no_nested

from .common import alts as alts_, is_call, callers_of, commands, need, prov, reach_from
from .xmlcommon import writers


def run(report, p):
    pr = prov(p)
    cmds = commands(p)
    ext = p.module_const(p.modules["ascmhl.__version__"], "ascmhl_file_extension")
    chain_name = p.module_const(p.modules["ascmhl.__version__"], "ascmhl_chainfile_name")
    if not isinstance(ext, str) or not isinstance(chain_name, str):
        raise AnalysisError("manifest extension / chain file name constants not found")
    report.assume("os.replace is atomic on the same file system (POSIX rename semantics)")
    report.assume("the loader ignores directory entries that do not end with the manifest extension (checked: suffix of temporary names)")

    # ------------------------------------------------------------------ R15.6
    r6 = report.rule(
        "R15.6",
        "the publish step (rename onto a final name) is never placed where the run time executes it on the failure path as well: not in close() / __del__ of a class derived "
        "from an io class or owning a finaliser (io.IOBase.__del__ calls close() when the object is collected after an exception), and in __exit__ only under a test of the "
        "exception arguments",
        1,
    )
    _MOVES = ("ext:os.replace", "ext:os.rename", "ext:os.renames", "ext:shutil.move")
    for cq in sorted(p.classes):
        c = p.classes[cq]
        exts = p.ext_bases(cq)
        io_like = any(b.replace("ext:", "").split(".")[0] in ("io", "_io", "_pyio", "tempfile", "gzip", "bz2", "lzma") for b in exts)
        own = {}
        for k in p.mro(cq):
            for mname, mf in p.classes[k].methods.items():
                own.setdefault(mname, mf)
        has_del = "__del__" in own
        implicit = []
        if io_like or has_del:
            implicit += [own[m] for m in ("close", "__del__") if m in own]
        if "__exit__" in own:
            implicit.append(own["__exit__"])
        for mf in implicit:
            for fq in sorted(p.reachable([mf.qual])):
                f2 = p.funcs[fq]
                for call, tg in p.calls[fq]:
                    if not any(t in _MOVES for t in tg):
                        continue
                    if mf.name == "__exit__":
                        exc_params = set(mf.params[1:]) | ({mf.vararg} if mf.vararg else set())
                        g2 = cfg_of(f2)
                        guarded = f2 is mf and any(t.kind == "test" and any(isinstance(x, ast.Name) and x.id in exc_params for x in ast.walk(t.ast)) for t, _ in g2.control_deps(g2.node_for(call), through_loops=False))
                        if guarded:
                            continue
                    how = {"close": "io.IOBase.__del__ calls close() when the half-written object is collected after an exception", "__del__": "the finaliser runs when the half-written object is collected after an exception", "__exit__": "__exit__ also runs when the with-body raised"}[mf.name]
                    r6.check(False, f2, call, f"`{norm(call)[:70]}` publishes the file from {cq.split('.')[-1]}.{mf.name}: {how}, so a write that failed half way still moves the truncated temporary over the final name (the previous chain file / a manifest name then holds a partial document and every later command aborts)", construct=f"publish in {mf.name}")
    for fq in sorted(reach_from(p, [need(cmds, "create").qual])):
        for call, tg in p.calls[fq]:
            if any(t in _MOVES for t in tg):
                r6.instance(p.funcs[fq], call, norm(call)[:70])

    # ------------------------------------------------------------------ R15.7
    r7 = report.rule(
        "R15.7",
        "a temporary that is later moved onto a history file lives in the directory of that file: nothing create / flatten reach makes a temporary file or folder through the "
        "tempfile module without a `dir=` derived from the destination (the default is the system temp directory: os.replace from there fails with EXDEV whenever the tree is "
        "on another file system - a card, a network share, /dev/shm - and is not atomic even where a copy would work)",
        1,
    )
    _TMP = ("NamedTemporaryFile", "mkstemp", "mkdtemp", "TemporaryFile", "TemporaryDirectory", "SpooledTemporaryFile", "gettempdir", "mktemp")
    n_scanned = 0
    for fq in sorted(reach_from(p, [need(cmds, "create").qual, need(cmds, "flatten").qual])):
        f7 = p.funcs[fq]
        for call, tg in p.calls[fq]:
            n_scanned += 1
            hit = next((t for t in tg if t.replace("ext:", "").startswith("tempfile.") and t.split(".")[-1] in _TMP), None)
            if hit is None:
                continue
            r7.instance(f7, call, norm(call)[:70])
            d = next((k.value for k in call.keywords if k.arg == "dir"), None)
            ok7 = False
            if d is not None and not (isinstance(d, ast.Constant) and d.value is None):
                try:
                    os7 = [pr.inline(o, depth=2) for o in pr.origins(d, f7)]
                except AnalysisError:
                    os7 = []
                ok7 = bool(os7) and all(any(s_[0] == "param" for s_ in subterms(o)) and not any(s_[0] == "call" and "gettempdir" in s_[1] for s_ in subterms(o)) for o in os7)
            r7.check(ok7, f7, call, f"`{norm(call)[:70]}` creates the temporary in the system temp directory (no `dir=` taken from the destination): moving it onto the manifest / chain file crosses file systems whenever the tree is not on the one that holds the temp directory - create and flatten then fail with OSError EXDEV ('Invalid cross-device link') and write nothing, while the same tree next to the temp directory works", construct=f"{hit.split('.')[-1]} without dir= of the destination")
    r7.instance(None, None, f"{n_scanned} call sites reachable from create / flatten scanned for tempfile use")
    r7.check(True, None, None, "")

    # ------------------------------------------------------------------ R15.1
    r1 = report.rule(
        "R15.1",
        "no durable history file (manifest, chain) is opened truncating under its final name: the accepted protocol is open(<final> + constant suffix) -> writes -> close -> "
        "os.replace(<that temporary>, <final>) on every non-raising path, with a suffix the loader ignores",
        2,
    )
    roots = [need(cmds, "create").qual, need(cmds, "flatten").qual]
    reach = reach_from(p, roots)
    n = 0
    for fq in sorted(reach):
        f = p.funcs[fq]
        g = cfg_of(f)
        for call, tg in p.calls[fq]:
            if "builtin:open" not in tg:
                continue
            mode = open_mode(p, call, f)
            if mode is not None and not any(c in mode for c in "wax+"):
                continue
            n += 1
            r1.instance(f, call, norm(call))
            arg = call.args[0] if call.args else None
            if arg is None:
                raise AnalysisError(f"{f.loc(call)}: open without a path")
            origs = pr.origins(arg, f)
            if not origs:
                raise AnalysisError(f"{f.loc(call)}: no provenance for the path that is opened for writing")
            forms = []  # (raw origin, final term, suffix, keeps_extension)
            plain_final = []
            for o in origs:
                t = pr.inline(o, depth=2) if o[0] == "call" and o[1] in p.funcs else o
                parts = t[2] if (t[0] == "op" and t[1] in ("Add", "fstring")) else None
                if parts is not None and len(parts) == 2 and parts[1][0] == "const" and isinstance(parts[1][1], str) and parts[1][1]:
                    forms.append((o, parts[0], parts[1][1], False))
                elif parts is not None and len(parts) == 3 and parts[1][0] == "const" and isinstance(parts[1][1], str) and parts[1][1] and all(x[0] == "elem" and is_call(x[1], "os.path.splitext") for x in (parts[0], parts[2])) and parts[0][2] == ("const", 0) and parts[2][2] == ("const", 1) and sig(parts[0][1][2][0], 4) == sig(parts[2][1][2][0], 4):
                    # <stem> + ".tmp" + <extension of the final name>
                    forms.append((o, parts[0][1][2][0], parts[1][1], True))
                elif t[0] in ("param", "attr"):
                    plain_final.append(o)
                else:
                    # a helper that derives the temporary name from the final name: evaluate it (constants only, nothing of the repository runs) for the
                    # final names of the two writers - a manifest name and the chain file's name
                    helper_q = o[1] if o[0] == "call" and o[1] in p.funcs else None
                    judged = False
                    if helper_q is not None and len(p.funcs[helper_q].params) == 1:
                        from sa.absint import Evaluator as _Ev, UNKNOWN as _UNK

                        hf_ = p.funcs[helper_q]

                        def _atom(e, env, hf_=hf_):
                            if isinstance(e, ast.Name) and e.id not in env:
                                v = p.fold(e, hf_)
                                if isinstance(v, (str, int)):
                                    from sa.absint import Val as _Val

                                    return _Val(v)
                            return None

                        samples = {"manifest": f"/vol/reel/ascmhl/0001_reel_2020-01-16_091500Z{ext}", "chain file": f"/vol/reel/ascmhl/{chain_name}"}
                        which = "manifest" if f is writers(p)[0] else ("chain file" if f is writers(p)[1] else None)
                        for label, final_name in samples.items():
                            if which is not None and label != which:
                                continue
                            try:
                                outs = _Ev(_atom, helper_q, value_boolops=True).run(hf_.node.body, {hf_.params[0]: final_name})
                            except AnalysisError:
                                outs = []
                            vals = [oc[1] for _, oc in outs if oc is not None and oc[0] == "return"]
                            if vals and all(isinstance(v_, str) and v_ == vals[0] for v_ in vals):  # the same name on every path through the helper
                                judged = True
                                tmp_name = vals[0]
                                r1.check(tmp_name != final_name, f, call, f"the temporary name that {hf_.name}() derives for the {label} `{os.path.basename(final_name)}` is the final name itself (`{os.path.basename(tmp_name)}`): the writer opens the LIVE {label} truncating and rewrites it in place, the closing os.replace renames the file onto itself - a kill (or an exception) while writing leaves an empty or half-written {label} and every later command aborts on it", construct=f"{hf_.name}: temporary name equals the final name ({label})")
                                r1.check(not tmp_name.endswith(ext) or tmp_name == final_name, f, call, f"the temporary name that {hf_.name}() derives for the {label} ends with the manifest extension (`{os.path.basename(tmp_name)}`): the loader parses the half-written temporary of a killed run", construct=f"{hf_.name}: temporary keeps the manifest extension ({label})")
                                r1.check(os.path.dirname(tmp_name) == os.path.dirname(final_name), f, call, f"the temporary `{tmp_name}` does not live in the folder of `{final_name}`: below the ascmhl folder the loader's recursive walk takes the temporary a killed run leaves behind for a generation, anywhere else the final os.replace may cross a file system boundary and is not atomic", construct=f"{hf_.name}: temporary in another folder ({label})")
                    raise AnalysisError(f"{f.loc(call)}: the name of the file opened for writing is built by `{show(t)[:100]}`, a form this checker does not model" + (" (the helper was evaluated on sample names; the remaining protocol checks need the modelled form)" if judged else ""))
            if plain_final:
                r1.check(False, f, call, "a durable history file is opened for writing under its final name and written incrementally: a crash leaves a truncated / half-written file that the next load aborts on", witness="; ".join(show(o)[:160] for o in origs))
                continue
            for o, final, suffix, keeps_ext in forms:
                if keeps_ext and f is writers(p)[0]:
                    r1.check(False, f, call, f"the manifest's temporary name keeps the manifest extension (<stem>{suffix}<ext>): the loader takes the half-written temporary of a killed run for a generation and the next command aborts on it", construct="temporary keeps the manifest extension")
            tmp_forms = [("op", "Add", [final, ("const", suffix if not keeps_ext else suffix + "<ext>")]) for o, final, suffix, keeps_ext in forms]
            raw_of = {id(tf): o for tf, (o, _, _, _) in zip(tmp_forms, forms)}
            ok_all = True
            # the temporary name is a fixed function of the final name: a killed run leaves it behind, so it must be re-creatable
            # (the manifest's name carries a fresh number and the time of the run, its temporary does not recur; the chain file's does)
            if f is not writers(p)[0]:
                r1.check(mode is not None and "x" not in mode, f, call, f"the temporary file is opened with exclusive-create mode {mode!r}: the temporary a killed run leaves behind makes every later run on this history abort with FileExistsError", construct=f"exclusive create of temporary ({mode})")
            elif mode is not None and "x" in mode:
                r1.note(f"{f.loc(call)}: manifest temporary opened with exclusive create ({mode}); its name is fresh per run, so not a finding")
            for o in tmp_forms:
                final, suffix = o[2][0], o[2][1][1]
                bad_suffix = suffix.endswith(ext) or "/" in suffix or suffix in ("",)
                r1.check(not bad_suffix, f, call, f"temporary suffix {suffix!r} is not ignored by the loader (ends with the manifest extension)", construct=f"tmp suffix {suffix!r}")
                # replace(tmp, final) on every normal path after the open, preceded by close
                on = g.node_for(call)
                reps = []
                for c2, tg2 in p.calls[fq]:
                    if any(t in ("ext:os.replace", "ext:os.rename") for t in tg2) and len(c2.args) == 2:
                        so = pr.origins(c2.args[0], f)
                        do = pr.origins(c2.args[1], f)
                        if any(sig(x, 4) == sig(raw_of[id(o)], 4) for x in so) and any(sig(x, 4) == sig(final, 4) for x in do):
                            reps.append(g.node_for(c2))
                if not reps:
                    r1.check(False, f, call, "the temporary file is never moved to the final name with os.replace(tmp, final)", construct="missing os.replace")
                    ok_all = False
                    continue
                path = g.find_path(on, {g.exit.id}, avoid={r.id for r in reps})
                r1.check(path is None, f, call, "a non-raising path leaves the function after open() without publishing the temporary file via os.replace", witness=g.fmt_path(path) if path else None, construct="path to exit without os.replace")
                # close (or with-exit) dominates replace
                handle = _handle_name(call)
                closes = [g.node_for(c3) for c3, _ in p.calls[fq] if isinstance(c3.func, ast.Attribute) and c3.func.attr == "close" and norm(c3.func.value) == handle]
                in_with = isinstance(parent(call), ast.withitem)
                with_stmt = parent(parent(call)) if in_with else None
                for rn in reps:
                    # the publish step runs only when the write completed: not in a `finally:` / `except:` block
                    x = parent(rn.ast)
                    prev = rn.ast
                    in_cleanup = False
                    while x is not None and x is not f.node:
                        if isinstance(x, ast.Try) and (any(prev is h for h in x.handlers) or any(prev is st_ for st_ in x.finalbody)):
                            in_cleanup = True
                        prev, x = x, parent(x)
                    r1.check(not in_cleanup, f, rn.ast, "os.replace sits in a finally / except block: when writing fails half way (an exception, not only a kill) the truncated temporary is still moved over the final name", construct="publish in cleanup block")
                    inside_with = with_stmt is not None and _inside(rn.ast, with_stmt)
                    ok_close = (in_with and not inside_with) or any(g.dominates(cn, rn) for cn in closes)
                    r1.check(ok_close, f, rn.ast, "os.replace publishes the file before it is closed (its content can still sit in the write buffer: a kill right after the rename leaves an empty or partial file under the final name)", construct="replace before close")
    if n < 2:
        raise AnalysisError(f"only {n} write-open site(s) reachable from create/flatten; two writers were confirmed")
    # a durable file never leaves its final name: it is only ever the DESTINATION of a rename, never the source, and it is never removed
    for fq in sorted(reach):
        f = p.funcs[fq]
        moves = [(c, t) for c, tg in p.calls[fq] for t in tg if t in ("ext:os.replace", "ext:os.rename", "ext:os.renames", "ext:shutil.move", "ext:os.remove", "ext:os.unlink")]
        written = {norm(c.args[0]) for c, tg in p.calls[fq] if "builtin:open" in tg and c.args and (open_mode(p, c, f) is None or any(ch in open_mode(p, c, f) for ch in "wax+"))}
        # the durable names: what a temporary that was written here is renamed to
        finals = {norm(c.args[1]) for c, t in moves if t.split(".")[-1] in ("replace", "rename", "renames", "move") and len(c.args) == 2 and norm(c.args[0]) in written}
        for c, t in moves:
            leaf = t.split(".")[-1]
            if not c.args:
                continue
            victim = norm(c.args[0])
            if victim in finals:
                r1.instance(f, c, norm(c)[:70])
                r1.check(False, f, c, f"`{norm(c)[:70]}` takes the durable file `{victim}` away from its final name ({'renamed away' if leaf not in ('remove', 'unlink') else 'removed'}) before the new content is in place: a kill right after it leaves the history without that file (no chain file: every later command aborts) - os.replace onto the existing file is the atomic step", construct=f"durable file {victim} moved away / removed")

    # ------------------------------------------------------------------ R15.8
    r8 = report.rule(
        "R15.8",
        "no roll-back of published files: nothing create / flatten reach removes or moves away the file a hash list or chain object names as its own (`<hash list>.file_path`, "
        "`<chain>.file_path`). Once a manifest's chain entry is published (children are committed before their parents) the manifest is part of the history - an error or a "
        "Ctrl-C in a LATER step that deletes 'the manifests of this run' leaves chains that list missing files, and every later command aborts",
        1,
    )
    n8 = 0
    for fq in sorted(reach):
        f8 = p.funcs[fq]
        for call, tg in p.calls[fq]:
            t8 = next((t for t in tg if t in ("ext:os.remove", "ext:os.unlink", "ext:os.rename", "ext:os.renames", "ext:os.replace", "ext:shutil.move", "ext:shutil.rmtree", "ext:os.rmdir", "ext:os.removedirs", "ext:os.truncate") or t.endswith("Path.unlink")), None)
            if t8 is None or not call.args:
                continue
            n8 += 1
            r8.instance(f8, call, norm(call)[:70])
            try:
                os8 = [a_ for o in pr.origins(call.args[0], f8) for a_ in alts_(pr.inline(o, depth=2))]
            except AnalysisError:
                os8 = []
            own = [o for o in os8 if o[0] == "attr" and o[2] == "file_path"]
            r8.check(not own, f8, call, f"`{norm(call)[:70]}` removes / moves away the file that a hash list or chain object names as its own ({show(own[0])[:80] if own else ''}): for a nested history that file is already listed in the child's chain file when a later step of the same commit fails (or is interrupted with Ctrl-C) - the child's chain then names a manifest that no longer exists and every later command on the tree aborts", construct="published history file removed")
    r8.instance(None, None, f"{n8} removing / renaming call sites reachable from create / flatten")
    r8.check(True, None, None, "")

    # ------------------------------------------------------------------ R15.2
    r2 = report.rule("R15.2", "in each history the new generation is validated before the first write (an abort leaves nothing half-written)", 1)
    mw, cw = writers(p)
    for cf, call in callers_of(p, mw.qual):
        g = cfg_of(cf)
        r2.instance(cf, call, norm(call)[:80])
        vq = {f2.qual for f2 in p.funcs.values() if f2.cls and f2.module.name.endswith("history") and any(isinstance(n, ast.Compare) and "'new'" in norm(n).replace('"', "'") and ".action" in norm(n) for n in walk_no_nested(f2.node))}
        if not vq:
            raise AnalysisError("validator of new hash lists (the function testing `.action == 'new'`) not found")
        vals = [g.node_for(c) for c, tg in p.calls[cf.qual] if any(t in vq for t in tg)]
        if not vals and cf.qual in vq:
            continue  # the validation is done in the writing function itself (helper inlined): R4.5 / R11.6 judge its position
        r2.check(any(g.dominates(v, g.node_for(call)) and v is not g.node_for(call) for v in vals), cf, call, "the manifest writer is not preceded by validation of the new hash list")

    # ------------------------------------------------------------------ R15.3
    r3 = report.rule("R15.3", "per history the manifest is published before its chain file is rewritten, so a crash in between leaves the old (still loadable) chain", 1)
    for cf, call in callers_of(p, cw.qual):
        if cf.module.name.endswith("_debug_commands"):
            continue
        g = cfg_of(cf)
        r3.instance(cf, call, norm(call)[:80])
        wr = [g.node_for(c) for c, tg in p.calls[cf.qual] if any(mw.qual in p.reachable([t]) for t in tg if t in p.funcs)]
        r3.check(any(g.dominates(w, g.node_for(call)) and w is not g.node_for(call) for w in wr), cf, call, "the chain file is rewritten before the new manifest has been written")

    # ------------------------------------------------------------------ R15.4
    r4 = report.rule(
        "R15.4",
        "the loader parses a directory entry as a manifest only under a test that its name ends with the manifest extension (so a temporary left by a killed run, whose suffix R15.1 "
        "shows not to end with that extension, is never parsed); the chain reader is given the chain file's constant name only",
        1,
    )
    from sa.absint import UNKNOWN, Evaluator

    loader = p.funcs.get("ascmhl.history.MHLHistory.load_from_path")
    if loader is None:
        raise AnalysisError("MHLHistory.load_from_path not found")
    mparse = "ascmhl.hashlist_xml_parser.parse"
    lfuncs = [loader] + [p.funcs[t] for _, tg in p.calls[loader.qual] for t in tg if t in p.funcs and p.funcs[t].module is loader.module and p.funcs[t] is not loader and mparse in [x for _, tg2 in p.calls[t] for x in tg2]]
    n_parse = 0
    for lf in lfuncs:
        gl = cfg_of(lf)
        for call, tg in p.calls[lf.qual]:
            if mparse not in tg:
                continue
            # only calls whose path comes from a directory listing
            listed = any(any(s2[0] == "call" and s2[1] in ("ext:os.walk", "ext:os.listdir", "ext:os.scandir") for s2 in subterms(pr.resolve(o, depth=3))) for o in pr.origins(call.args[0], lf)) if call.args else False
            if not listed:
                continue
            n_parse += 1
            r4.instance(lf, call, norm(call)[:80])
            ok = False
            for t, l in gl.control_deps(gl.node_for(call), through_loops=False):
                if t.kind != "test":
                    continue
                ends = [x for x in ast.walk(t.ast) if isinstance(x, ast.Call) and isinstance(x.func, ast.Attribute) and x.func.attr == "endswith" and x.args and p.fold(x.args[0], lf) == ext]
                if not ends:
                    continue

                def mk(val):
                    def atom(e, env):
                        return val if any(e is x for x in ends) else None

                    return atom

                # the branch taken towards the parse must be impossible when the name does not end with the extension
                tv = Evaluator(mk(False)).eval(t.ast, {})
                if tv is not UNKNOWN and bool(tv) != (l == "T"):
                    ok = True
            r4.check(ok, lf, call, f"the loader parses directory entries as manifests without requiring the name to end with {ext!r}: a temporary file left by an interrupted run is parsed and the load aborts on it", construct="manifest parse not guarded by the extension test")
    if n_parse == 0:
        raise AnalysisError("loader: no manifest parse of a listed directory entry found")
    # the window between publishing the manifest and rewriting the chain is survivable: the loader must accept a manifest that the chain
    # does not list yet - i.e. nothing in the loop over the folder's entries raises
    for lf in lfuncs:
        for lp in [n for n in walk_no_nested(lf.node) if isinstance(n, ast.For)]:
            listed = False
            try:
                listed = any(any(s2[0] == "call" and s2[1] in ("ext:os.walk", "ext:os.listdir", "ext:os.scandir", "ext:glob.glob") for s2 in subterms(o)) for o in pr.origins(lp.iter, lf))
            except AnalysisError:
                pass
            if not listed:
                continue
            r4.instance(lf, lp, f"for {norm(lp.target)} in {norm(lp.iter)[:50]}")
            raises = [x for st in lp.body for x in ast.walk(st) if isinstance(x, ast.Raise)]
            r4.check(not raises, lf, raises[0] if raises else lp, "the loader raises while going through the entries of the ascmhl folder: a manifest that was published by a run killed before its chain entry was written (or any other stray entry) makes every later command abort", construct="raise inside the folder listing loop of the loader")

    # ------------------------------------------------------------------ R15.5
    r5 = report.rule(
        "R15.5",
        "the loader does not abort on a state that create's own write sequence passes through: no raise in the loader is conditioned on the existence of a file that the commit "
        "creates only transiently (a temporary, a lock or marker removed later - a kill in between leaves it behind for ever), nor on `<directory made by the commit> exists and "
        "<file published into it later> is missing`",
        4,
    )
    from sa.effects import site_effects

    commit = p.funcs.get("ascmhl.generator.MHLGenerationCreationSession.commit")
    if commit is None:
        raise AnalysisError("MHLGenerationCreationSession.commit not found")
    creach = reach_from(p, [commit.qual])

    def name_consts(e, f):
        """string constants that take part in building the path expression (file / folder names, suffixes)"""
        out = set()
        for o in pr.origins(e, f):
            for st in subterms(pr.full(o) if o[0] != "const" else o):
                if st[0] == "const" and isinstance(st[1], str) and st[1] not in ("", ".", "/"):
                    out.add(st[1])
        return out

    made_dirs, published, transient = [], [], []  # (func, call, consts)
    removed = []
    for fq in sorted(creach):
        f = p.funcs[fq]
        for call, t, cls, det in site_effects(p, fq):
            if cls != "MUT":
                continue
            leaf = t.split(":")[-1].split(".")[-1]
            if t.startswith("ext:os.") and leaf in ("mkdir", "makedirs"):
                r5.instance(f, call, f"directory made: {norm(call)[:70]}")
                made_dirs.append((f, call, name_consts(call.args[0], f)))
            elif t.startswith("ext:os.") and leaf in ("replace", "rename") and len(call.args) == 2:
                r5.instance(f, call, f"published: {norm(call)[:70]}")
                published.append((f, call, name_consts(call.args[1], f), name_consts(call.args[0], f)))
            elif t.startswith("ext:os.") and leaf in ("remove", "unlink", "rmdir"):
                removed.append((f, call, name_consts(call.args[0], f)))
            elif t == "builtin:open" or (t.startswith("ext:os.") and leaf == "open"):
                if t == "builtin:open":
                    mode = open_mode(p, call, f)
                    if mode is not None and not any(c in mode for c in "wax+"):
                        continue
                r5.instance(f, call, f"file created: {norm(call)[:70]}")
                transient.append((f, call, name_consts(call.args[0], f) if call.args else set()))
            elif t.startswith("ext:os.") and leaf in ("utime", "chmod", "chown", "write", "truncate", "ftruncate"):
                continue
            else:
                raise AnalysisError(f"{f.loc(call)}: file-system mutation `{norm(call)[:60]}` on the commit path is not classified (made / published / removed / temporary)")
    if not made_dirs or len(published) < 2:
        raise AnalysisError("commit path: the mkdir of the ascmhl folder / the two os.replace publications were not found")
    # a created file is a *temporary* when the same function publishes it by os.replace (its name = the source of the replace)
    pub_final = set().union(*[c for _, _, c, _ in published])
    dir_names = set().union(*[c for _, _, c in made_dirs])

    def existence_atoms(test, label, f):
        """[(path expr, exists?)] implied by taking branch `label` of `test`"""
        flip = {"T": "F", "F": "T"}
        t, l = test, label
        while True:
            if isinstance(t, ast.NamedExpr):
                t = t.value
            elif isinstance(t, ast.UnaryOp) and isinstance(t.op, ast.Not):
                t, l = t.operand, flip[l]
            else:
                break
        if isinstance(t, ast.BoolOp):
            if (isinstance(t.op, ast.Or) and l == "F") or (isinstance(t.op, ast.And) and l == "T"):
                return [a for v in t.values for a in existence_atoms(v, l, f)]
            return []
        if isinstance(t, ast.Call) and isinstance(t.func, ast.Attribute) and t.func.attr in ("exists", "isfile", "isdir", "lexists", "is_file", "is_dir", "islink"):
            arg = t.args[0] if t.args else t.func.value
            return [(arg, l == "T", t)]
        return []

    lreach = reach_from(p, [loader.qual])
    n_raise = 0
    for fq in sorted(lreach):
        f = p.funcs[fq]
        raises = [n for n in walk_no_nested(f.node) if isinstance(n, ast.Raise)]
        if not raises:
            continue
        g = cfg_of(f)
        for rs in raises:
            atoms = []
            for t, l in g.necessary_branches(g.node_for(rs)):
                if l in ("T", "F"):
                    atoms += existence_atoms(t.ast, l, f)
            if not atoms:
                continue
            n_raise += 1
            r5.instance(f, rs, f"raise under {[(norm(a)[:40], pos) for a, pos, _ in atoms]}")
            pos = [(a, name_consts(a, f), c) for a, ex, c in atoms if ex]
            neg = [(a, name_consts(a, f), c) for a, ex, c in atoms if not ex]
            for a, consts, c in pos:
                # (1) a transient of the commit
                for cf, ccall, cc in transient:
                    own = cc - dir_names
                    if own and own <= consts and not (own & pub_final and not (cc - pub_final - dir_names)):
                        r5.check(False, f, rs, f"the loader aborts when `{norm(a)[:70]}` exists; the commit creates that file at {cf.loc(ccall)} and it exists only until it is published/removed - a create killed in between leaves it behind and every later command aborts", construct=f"raise when the transient {sorted(own)} exists")
                # (2) directory exists and a file published into it is missing
                if consts and consts <= dir_names:
                    for b, bc, _ in neg:
                        if (bc - consts) and (bc - consts) <= pub_final:
                            r5.check(False, f, rs, f"the loader aborts when `{norm(a)[:50]}` exists and `{norm(b)[:50]}` does not; the commit makes that directory ({made_dirs[0][0].loc(made_dirs[0][1])}) before it publishes {sorted(bc - consts)} into it, so the first create of a history killed in between leaves a tree on which every later command aborts", construct=f"raise when the directory exists and {sorted(bc - consts)} is missing")
    if n_raise < 2:
        raise AnalysisError("loader: the raises conditioned on the existence of history files were not found")
    r5.check(True, loader, loader.node, "")

    report.not_decided += [
        "the full crash-point quantifier: reordering of writes by the OS, durability of directory entries, fsync",
        "that the loader tolerates every intermediate state; only that no state with a half-written durable file follows from the code's write protocol",
        "a crash between a child's commit and its parent's leaves the child one generation ahead (loadable, the reference is simply missing)",
    ]


def _inside(n, container):
    x = n
    while x is not None:
        if x is container:
            return True
        x = parent(x)
    return False


def _handle_name(call):
    par = parent(call)
    if isinstance(par, ast.Assign) and len(par.targets) == 1:
        return norm(par.targets[0])
    if isinstance(par, ast.withitem) and par.optional_vars is not None:
        return norm(par.optional_vars)
    return "<unnamed>"


def finish(report):
    return report.finish(
        level="other",
        explanation="typestate on the two writers (temp name -> close -> atomic replace), validation-before-write dominance and manifest-before-chain order. "
        "Necessary conditions only: crash points are not enumerated or executed.",
    )
