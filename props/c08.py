"""C08 - nested histories partition the tree and reference each other correctly (structural clauses)."""
from __future__ import annotations

import ast

from sa.cfg import cfg_of
from sa.emit import Elem, walk_elems
from sa.flow import show, sig, subterms
from sa.model import AnalysisError, norm, parent, walk_no_nested

from .common import include_rules, alts, callers_of, commands, is_call, is_plain_iter, prov, unshipped_modules
from .xmlcommon import documents

HIST = "ascmhl.history.MHLHistory"
STRING_PREFIX_OPS = ("startswith", "endswith", "commonprefix", "find", "rfind", "index", "partition", "removeprefix", "lstrip")


def _mapping_value(o):
    """a provenance term that is a value of the child mapping: `mapping[key]` or `mapping.get(key)`"""
    if o[0] == "elem" and o[1][0] == "attr" and o[1][2] == "child_history_mappings":
        return True
    return is_call(o, "get") and o[1] == "builtinm:dict.get" and len(o[2]) == 1 and o[5] is not None and o[5][0] == "attr" and o[5][2] == "child_history_mappings"


def _is_mapping_get(p, f, n):
    if not (isinstance(n, ast.Call) and isinstance(n.func, ast.Attribute) and n.func.attr == "get" and not n.keywords):
        return False
    rt = p.etype(n.func.value, f)
    return rt is not None and rt[0] == "Dict" and norm(n.func.value).endswith("child_history_mappings")


def run(report, p):
    pr = prov(p)
    cmds = commands(p)
    report.assume("os.path.dirname shortens a relative path by exactly one component")

    # ------------------------------------------------------------------ R8.1
    r1 = report.rule(
        "R8.1",
        "routing is component-wise and by exact key: the path is looked up in the child mapping dictionary, shortened with os.path.dirname until empty; no string-prefix operation "
        "(startswith / commonprefix / substring `in`) decides which history owns a path; the result is re-relativised against the child's own root",
        1,
    )
    fr = p.funcs.get(f"{HIST}.find_history_for_path")
    if fr is None:
        raise AnalysisError("find_history_for_path not found")
    g = cfg_of(fr)
    r1.instance(fr, fr.node, "router")
    for n in walk_no_nested(fr.node):
        if isinstance(n, ast.Call):
            nm = norm(n.func)
            last = nm.split(".")[-1]
            if last in STRING_PREFIX_OPS:
                r1.check(False, fr, n, f"routing uses the string operation {last}(): a sibling whose name merely starts with a nested history's name (A001_proxies next to A001) is routed into that history", construct=f"string prefix operation {last} in routing")
        if isinstance(n, ast.Compare) and any(isinstance(o, (ast.In, ast.NotIn)) for o in n.ops):
            right = n.comparators[0]
            rt = p.etype(right, fr)
            is_dict = rt is not None and rt[0] == "Dict"
            r1.check(is_dict, fr, n, f"membership test `{norm(n)}` is not a dictionary key lookup (substring / list membership cannot identify the owning history)", construct=f"membership {norm(n)}")
    whiles = [n for n in walk_no_nested(fr.node) if isinstance(n, ast.While)]
    okw = len(whiles) == 1
    got_var = None
    if okw:
        w = whiles[0]
        var = None
        t = norm(w.test).replace(" ", "")
        for cand in [x.id for x in ast.walk(w.test) if isinstance(x, ast.Name)]:
            if t in (f"len({cand})>0", cand, f"{cand}!=''", f"len({cand})!=0"):
                var = cand
        okw = var is not None
        if okw:
            shortens = [n for n in ast.walk(w) if isinstance(n, ast.Assign) and len(n.targets) == 1 and norm(n.targets[0]) == var and isinstance(n.value, ast.Call) and norm(n.value.func) == "os.path.dirname" and norm(n.value.args[0]) == var]
            looks = [n for n in ast.walk(w) if isinstance(n, ast.Compare) and isinstance(n.ops[0], ast.In) and norm(n.left) == var]
            # the other exact-key idiom: `found = mapping.get(var)` tested against None (the mapping's values are histories, never None)
            gets = [n for n in ast.walk(w) if _is_mapping_get(p, fr, n) and len(n.args) == 1 and norm(n.args[0]) == var]
            if not looks and len(gets) == 1 and isinstance(parent(gets[0]), ast.Assign) and isinstance(parent(gets[0]).targets[0], ast.Name):
                got = parent(gets[0]).targets[0].id
                if sum(1 for a in walk_no_nested(fr.node) if isinstance(a, (ast.Assign, ast.AugAssign, ast.AnnAssign, ast.NamedExpr, ast.For)) and any(isinstance(x, ast.Name) and x.id == got and isinstance(x.ctx, ast.Store) for x in ast.walk(a))) == 1:
                    looks = gets
                    got_var = got
            okw = len(shortens) == 1 and len(looks) == 1 and parent(shortens[0]) is w
            init = [n for n in walk_no_nested(fr.node) if isinstance(n, ast.Assign) and norm(n.targets[0]) == var and not _inside(n, w)]
            okw = okw and len(init) == 1 and norm(init[0].value) == fr.params[1]
    r1.check(okw, fr, whiles[0] if whiles else fr.node, "routing does not walk the path up component by component (dirname) with an exact dictionary lookup at each level", construct="routing loop shape")
    rets = [n for n in walk_no_nested(fr.node) if isinstance(n, ast.Return)]
    inner = [n for n in rets if whiles and _inside(n, whiles[0])]
    outer = [n for n in rets if n not in inner]
    ok_ret = len(inner) == 1 and isinstance(inner[0].value, ast.Tuple) and len(inner[0].value.elts) == 2
    if ok_ret:
        hist_o = pr.origins(inner[0].value.elts[0], fr)
        rel_o = pr.origins(inner[0].value.elts[1], fr)
        ok_ret = all(_mapping_value(o) for o in hist_o)
        ok_ret = ok_ret and all(is_call(o, "get_relative_file_path") and o[2] and is_call(o[2][0], "os.path.join") and any(is_call(s, "get_root_path") and s[5] is not None and s[5][0] == "self" for s in subterms(o[2][0])) and any(s[0] == "param" and s[2] == fr.params[1] for s in subterms(o[2][0])) and o[5] is not None and _mapping_value(o[5]) for o in rel_o)
    r1.check(ok_ret, fr, inner[0] if inner else fr.node, "on a match routing does not return (child history, path relative to that child's own root)", construct="routing match result")
    ok_out = all(isinstance(n.value, ast.Tuple) and norm(n.value) == f"({fr.params[0]}, {fr.params[1]})" for n in outer) and len(outer) >= 1
    r1.check(ok_out, fr, outer[0] if outer else fr.node, "without a matching child routing does not return (this history, the unchanged path)", construct="routing fall-through")
    # when routing stays in this history: only because there is no child at all, or because the walk-up found no mapped folder.
    # The decision depends on WHERE the path lies, never on what has been recorded for it.
    from .common import atomic_deps

    for n in outer:
        at = set()
        for t, l in g.control_deps(g.node_for(n)):
            if t.kind == "test":
                at |= set(atomic_deps(t.ast, l))
        extra = []
        for a, l in sorted(at):
            a2 = a.replace(" ", "")
            structural = a2.startswith(("len(self.child_histories)", "self.child_histories", "notself.child_histories")) or (whiles and norm(whiles[0].test).replace(" ", "") == a2) or ("inself.child_history_mappings" in a2) or a2.startswith("len(dir_path)") or a2 == "dir_path" or (got_var is not None and a2 in (f"{got_var}isNone", f"{got_var}isnotNone", got_var, f"not{got_var}"))
            if not structural:
                extra.append((a, l))
        r1.check(not extra, fr, n, f"routing returns 'this history' under {extra}: which history owns a path must depend only on the path and the nested roots, not on recorded state", construct=f"routing fall-through under {extra}")
    # no string-prefix decisions in discovery / mapping either
    for name in ("_find_and_load_child_histories", "_update_child_history_mapping"):
        f = p.funcs.get(f"{HIST}.{name}")
        if f is None:
            raise AnalysisError(f"{name} not found")
        for n in walk_no_nested(f.node):
            if isinstance(n, ast.Call) and norm(n.func).split(".")[-1] in STRING_PREFIX_OPS:
                r1.check(False, f, n, f"{name} decides with the string operation {norm(n.func).split('.')[-1]}()", construct=f"string prefix operation in {name}")

    # ------------------------------------------------------------------ R8.2
    r2 = report.rule("R8.2", "the mapping holds every direct child under its relative path and every transitive child under the joined path (taken from the child's own, already transitive mapping); it is refreshed up the parent chain", 1)
    um = p.funcs.get(f"{HIST}._update_child_history_mapping")
    r2.instance(um, um.node, "mapping builder")
    loops = [n for n in um.node.body if isinstance(n, ast.For)]
    ok = len(loops) == 1 and is_plain_iter(p, loops[0].iter) and norm(loops[0].iter) == f"{um.params[0]}.child_histories"
    r2.check(ok, um, loops[0].iter if loops else um.node, "the mapping is not rebuilt from all direct child histories", construct="mapping outer loop")
    if ok:
        child = norm(loops[0].target)
        stores = [n for n in ast.walk(loops[0]) if isinstance(n, ast.Assign) and isinstance(n.targets[0], ast.Subscript) and norm(n.targets[0].value).endswith("child_history_mappings")]
        direct = [n for n in stores if norm(n.value) == child]
        okd = len(direct) == 1 and all(is_call(o, "get_relative_file_path") and o[2] and is_call(o[2][0], "get_root_path") for o in pr.origins(direct[0].targets[0].slice, um))
        r2.check(okd, um, direct[0] if direct else loops[0], "a direct child is not mapped under its root's path relative to this history", construct="direct child mapping")
        inner = [n for n in loops[0].body if isinstance(n, ast.For)]
        oki = len(inner) == 1 and norm(inner[0].iter) == f"{child}.child_history_mappings.items()"
        r2.check(oki, um, inner[0].iter if inner else loops[0], f"transitive children are not taken from `{child}.child_history_mappings.items()` (the child's complete mapping): histories nested three levels deep are not routable from the root", construct=f"transitive mapping source: {norm(inner[0].iter) if inner else 'missing'}")
        if oki:
            k, v = [norm(e) for e in inner[0].target.elts]
            trans = [n for n in stores if _inside(n, inner[0])]
            okt = len(trans) == 1 and norm(trans[0].value) == v and all(is_call(o, "os.path.join") and len(o[2]) == 2 for o in pr.origins(trans[0].targets[0].slice, um)) and k in norm(_resolve(um, trans[0].targets[0].slice))
            r2.check(okt, um, trans[0] if trans else inner[0], "a transitive child is not mapped under join(child path, its path inside the child)", construct="transitive child mapping")
    ups = [c for c, tg in p.calls[um.qual] if um.qual in tg]
    okp = len(ups) == 1 and "parent_history" in norm(ups[0].func)
    if okp:
        deps = [(norm(t.ast), l) for t, l in cfg_of(um).control_deps(cfg_of(um).node_for(ups[0])) if t.kind == "test"]
        okp = len(deps) == 1 and "parent_history" in deps[0][0]
    r2.check(okp, um, ups[0] if ups else um.node, "the parent's mapping is not refreshed after this history's mapping changed", construct="parent refresh")
    resets = [n for n in um.node.body if isinstance(n, ast.Assign) and norm(n.targets[0]).endswith("child_history_mappings") and isinstance(n.value, ast.Dict) and not n.value.keys]
    r2.check(len(resets) == 1, um, um.node, "the mapping is not rebuilt from scratch", construct="mapping reset")

    # ------------------------------------------------------------------ R8.3
    r3 = report.rule("R8.3", "discovery: a found child is linked to its parent, registered, and the walk does not descend below it (everything beneath belongs to the child)", 1)
    fd = p.funcs.get(f"{HIST}._find_and_load_child_histories")
    gd = cfg_of(fd)
    r3.instance(fd, fd.node, "discovery")
    loads = [c for c, tg in p.calls[fd.qual] if f"{HIST}.load_from_path" in tg]
    okl = len(loads) == 1
    if okl:
        ln = gd.node_for(loads[0])
        clears = [gd.node_for(n) for n in walk_no_nested(fd.node) if isinstance(n, ast.Call) and isinstance(n.func, ast.Attribute) and n.func.attr == "clear" or (isinstance(n, ast.Assign) and isinstance(n.targets[0], ast.Subscript) and isinstance(n.targets[0].slice, ast.Slice) and isinstance(n.value, ast.List) and not n.value.elts)]
        parents = [gd.node_for(n) for n in walk_no_nested(fd.node) if isinstance(n, ast.Assign) and isinstance(n.targets[0], ast.Attribute) and n.targets[0].attr == "parent_history" and norm(n.value) == fd.params[0]]
        regs = [gd.node_for(c) for c, tg in p.calls[fd.qual] if any(t.endswith("append_child_history") for t in tg)]
        stops = {h.id for h in gd.nodes if h.kind == "loop"} | {gd.exit.id}
        for what, nodes in (("stop descending (dirnames.clear())", clears), ("set the child's parent_history", parents), ("register the child", regs)):
            path = gd.find_path(ln, stops, avoid={x.id for x in nodes})
            r3.check(bool(nodes) and path is None, fd, loads[0], f"after loading a child history discovery does not always {what}", construct=f"discovery: {what}")
        walks = [c for c, tg in p.calls[fd.qual] if "ext:os.walk" in tg]
        okw2 = len(walks) == 1 and all(is_call(o, "get_root_path") for o in pr.origins(walks[0].args[0], fd)) and not any(k.arg == "topdown" and p.fold(k.value, fd) is False for k in walks[0].keywords)
        r3.check(okw2, fd, walks[0] if walks else fd.node, "discovery does not walk top-down from the history's own root", construct="discovery walk")
    else:
        r3.check(False, fd, fd.node, "discovery does not load found children through the loader", construct="discovery load")
    posts = [c for c, tg in p.calls[fd.qual] if um.qual in tg]
    r3.check(len(posts) == 1 and not any(isinstance(a, (ast.For, ast.While)) for a in _ancestors(posts[0])), fd, posts[0] if posts else fd.node, "the mapping is not rebuilt after discovery", construct="mapping after discovery")

    # ------------------------------------------------------------------ R8.4
    r4 = report.rule("R8.4", "bottom-up commit: the history walk yields all children (recursively) before the history itself, and commit iterates exactly that walk from the session's root history", 2)
    wk = p.funcs.get(f"{HIST}.walk_child_histories")
    if wk is None:
        raise AnalysisError("walk_child_histories not found")
    r4.instance(wk, wk.node, "walk")
    body = [s for s in wk.node.body if not (isinstance(s, ast.Expr) and isinstance(s.value, ast.Constant))]
    okk = len(body) == 2 and isinstance(body[0], ast.For) and is_plain_iter(p, body[0].iter) and norm(body[0].iter).endswith(".child_histories") and isinstance(body[1], ast.Expr) and isinstance(body[1].value, ast.Yield) and norm(body[1].value.value) == wk.params[-1]
    if okk:
        inner = body[0].body
        okk = len(inner) == 1 and isinstance(inner[0], ast.Expr) and isinstance(inner[0].value, ast.YieldFrom) and isinstance(inner[0].value.value, ast.Call) and wk.qual in p.resolve_call(inner[0].value.value, wk) and norm(inner[0].value.value.args[0]) == norm(body[0].target)
    r4.check(okk, wk, wk.node, "the walk does not yield every child's subtree before the history itself (parents would be written before their children)", construct="post-order walk")
    cm = p.funcs.get("ascmhl.generator.MHLGenerationCreationSession.commit")
    if cm is None:
        raise AnalysisError("commit not found")
    loops = [n for n in walk_no_nested(cm.node) if isinstance(n, ast.For) and isinstance(n.iter, ast.Call) and wk.qual in p.resolve_call(n.iter, cm)]
    r4.instance(cm, loops[0] if loops else cm.node, "commit loop")
    r4.check(len(loops) == 1 and norm(loops[0].iter.args[0]) == f"{cm.params[0]}.root_history" and is_plain_iter(p, loops[0].iter) is True or (len(loops) == 1 and norm(loops[0].iter.args[0]) == f"{cm.params[0]}.root_history"), cm, loops[0] if loops else cm.node, "commit does not iterate the bottom-up walk of the session's root history", construct="commit iterates walk")
    gc = cfg_of(cm)
    wcalls = [c for c, tg in p.calls[cm.qual] if f"{HIST}.write_new_generation" in tg]

    # ------------------------------------------------------------------ R8.5
    r5 = report.rule("R8.5", "a parent references a child's manifest only after that manifest was written: the new list is added to the parent's reference list after write_new_generation returned; the reference is (POSIX relpath of the child file from the parent root, c4 of the file)", 2)
    for wc in wcalls:
        r5.instance(cm, wc, norm(wc))
        refs = [n for n in walk_no_nested(cm.node) if isinstance(n, ast.Call) and isinstance(n.func, ast.Attribute) and n.func.attr == "append" and "parent_history" in norm(n.func.value)]
        okr = len(refs) == 1 and gc.dominates(gc.node_for(wc), gc.node_for(refs[0])) and norm(refs[0].args[0]) == norm(wc.args[0])
        if okr:
            deps = [(norm(t.ast), l) for t, l in gc.control_deps(gc.node_for(refs[0]), transitive=False) if t.kind == "test"]
            okr = len(deps) == 1 and "parent_history" in deps[0][0] and ("is not None" in deps[0][0] and deps[0][1] == "T" or deps[0][0].endswith("parent_history") and deps[0][1] == "T")
        r5.check(okr, cm, refs[0] if refs else wc, "the written child generation is not (or not only after writing) handed to its parent's reference list", construct="reference registration")
        asg = [n for n in walk_no_nested(cm.node) if isinstance(n, ast.Assign) and isinstance(n.targets[0], ast.Attribute) and n.targets[0].attr == "referenced_hash_lists"]
        val_txt = norm(asg[0].value) if len(asg) == 1 else ""
        if len(asg) == 1 and isinstance(asg[0].value, ast.Name):
            # a local that holds the collected references (bound once, e.g. by an inlined helper's parameter binding)
            b_ = [n for n in walk_no_nested(cm.node) if isinstance(n, ast.Assign) and len(n.targets) == 1 and isinstance(n.targets[0], ast.Name) and n.targets[0].id == asg[0].value.id]
            if len(b_) == 1 and gc.dominates(gc.node_for(b_[0]), gc.node_for(asg[0])):
                val_txt = norm(b_[0].value)
        hist_ = norm(wc.func.value)
        own_refs = val_txt.endswith(f"[{hist_}]") or val_txt.endswith((f".setdefault({hist_}, [])", f".get({hist_}, [])", f".get({hist_}, ())"))  # references[history] in any of its spellings
        oka = len(asg) == 1 and gc.dominates(gc.node_for(asg[0]), gc.node_for(wc)) and own_refs
        r5.check(oka, cm, asg[0] if asg else wc, "the list that is written does not receive the references collected for its own history", construct="references assigned before write")
    em, mdoc, cdoc, raw = documents(p)
    refs = [e for e in walk_elems(mdoc) if e.tag == "hashlistreference"]
    for e in refs:
        r5.instance(e.func, e.node, "reference element")
        kids = {c.tag: c for c in e.children if isinstance(c, Elem)}
        okp = "path" in kids and kids["path"].text is not None and "c4" in kids and kids["c4"].text is not None
        if okp:
            f = e.func
            po = pr.origins(kids["path"].text[0], f)
            okp = all(is_call(o, "convert_local_path_to_posix") and o[2] and is_call(o[2][0], "os.path.relpath") and len(o[2][0][2]) == 2 and o[2][0][2][0][0] == "attr" and o[2][0][2][0][2] == "file_path" and is_call(o[2][0][2][1], "os.path.dirname") for o in po)
            co = norm(kids["c4"].text[0])
            recv_ = co.split(".")[0]
            ptxt_ = norm(kids["path"].text[0])
            if "relpath(" in ptxt_:
                same_obj = recv_ == ptxt_.split("relpath(")[1].split(".")[0]
            else:
                # the relative path sits in a local: compare through provenance (the object whose file_path is made relative is the receiver of the hash call)
                same_obj = bool(po) and all(o[2][0][2][0][1][0] == "param" and o[2][0][2][0][1][2] == recv_ for o in po) if okp else False
            okp = okp and co.endswith(".generate_reference_hash()") and same_obj
        r5.check(okp, e.func, e.node, "a reference is not (relative POSIX path of the child manifest from the referencing history's root, reference hash of that same manifest)", construct="reference element fields")
    grh = p.funcs.get("ascmhl.hashlist.MHLHashList.generate_reference_hash")
    rets = [n for n in walk_no_nested(grh.node) if isinstance(n, ast.Return)] if grh else []
    okg = len(rets) == 1 and all(is_call(o, "hasher.hash_file") and o[2][0][0] == "attr" and o[2][0][2] == "file_path" and o[2][1] == ("const", "c4") for o in pr.origins(rets[0].value, grh))
    r5.check(okg, grh, rets[0] if rets else None, "the reference hash is not the c4 digest of the manifest file itself", construct="generate_reference_hash")

    # ------------------------------------------------------------------ R8.6
    r6 = report.rule("R8.6", "write condition: a history is skipped at commit iff it received no records and no descendant was written; membership is tested with `in` (a defaultdict is never indexed to test it)", 1)
    conts = [n for n in gc.nodes if n.kind == "stmt" and isinstance(n.ast, ast.Continue)]
    r6.instance(cm, conts[0].ast if conts else cm.node, "skip condition")
    okc = len(conts) == 1
    if okc:
        from .common import canon_dep

        deps = sorted(canon_dep(t.ast, l) for t, l in gc.control_deps(conts[0]) if t.kind == "test")
        h = norm(loops[0].target) if loops else "history"
        want = sorted([(f"{h} in {cm.params[0]}.new_hash_lists", "F"), (f"{h} in referenced_hash_lists", "F")])
        okc = deps == want
        r6.check(okc, cm, conts[0].ast, f"a history is skipped at commit under {deps}; it must be skipped exactly when it has no new records and no referenced child ({want})", construct=f"skip under {deps}")
    else:
        r6.check(False, cm, cm.node, "commit has no (or more than one) skip of untouched histories", construct="skip count")
    for wc in wcalls:
        # every iteration that is not skipped writes: no path through the loop body avoids both the skip and the write
        wn = gc.node_for(wc)
        lh = next((x for x in gc.nodes if x.kind == "loop" and x.ast is loops[0]), None) if loops else None
        path = None
        if lh is not None and conts:
            starts = [(m, l) for m, l in lh.succ if l in ("iter", "T", "body")] or [(m, l) for m, l in lh.succ if l not in ("exhausted", "F")]
            path = gc.find_path(lh, {lh.id}, avoid={wn.id} | {c.id for c in conts}, first_edges=starts)
        r6.check(lh is not None and path is None, cm, wc, "an iteration of the commit loop can end without writing the touched history and without the skip", witness=gc.fmt_path(path) if path else None, construct="write not on every non-skipped iteration")

    # ------------------------------------------------------------------ R8.7
    r7 = report.rule("R8.7", "child root one level up: when the record just written is the root hash of its list and the history has a parent, every format's content/structure pair is copied to the parent's entry at the parent-relative path", 1)
    ad = p.funcs.get("ascmhl.generator.MHLGenerationCreationSession.append_multiple_format_directory_hashes")
    if ad is None:
        raise AnalysisError("append_multiple_format_directory_hashes not found")
    ga = cfg_of(ad)
    r7.instance(ad, ad.node, "copy-up")
    from . import c07

    def find_ups(f):
        return [n for n in walk_no_nested(f.node) if isinstance(n, ast.Assign) and isinstance(n.value, ast.Call) and norm(n.value.func).endswith("find_or_create_media_hash_for_path") and any(o[5] is not None and any(s2[0] == "attr" and s2[2] == "parent_history" for s2 in subterms(o[5])) for o in pr.origins(n.value, f) if o[0] == "call")]

    site, gs = ad, ga
    prefix = []  # guards of the helper call inside `ad` when the copy-up block lives in a helper
    cpar, spar = ad.params[3], ad.params[4]
    ups = find_ups(ad)
    per_format_call = None
    if not ups:
        cands = []
        for call, tg in p.calls[ad.qual]:
            for t in tg:
                h = p.funcs.get(t)
                if h is not None and h is not ad and h.cls is ad.cls and find_ups(h):
                    cands.append((call, h))
        if len(cands) == 1:
            call, h = cands[0]
            cd = ga.control_deps(ga.node_for(call))
            from .common import atomic_deps as _ad

            prefix = [x for t, l in cd if t.kind == "test" for x in _ad(t.ast, l)]
            if any(t.kind == "loop" for t, l in cd):
                per_format_call = call
            b = {k: norm(v) for k, v in p.bind_args(h, call).items() if v is not None}
            cpar = next((k for k, v in b.items() if v == ad.params[3]), None)
            spar = next((k for k, v in b.items() if v == ad.params[4]), None)
            site, gs = h, cfg_of(h)
            ups = find_ups(h)
    oku = len(ups) == 1
    if per_format_call is not None:
        r7.check(False, ad, per_format_call, "the copy of the child's root record to the parent happens inside a loop over the formats: without directory hashes (create -n) the loop body never runs and the parent gets no directory entry for the nested root", construct="copy-up once per format")
    elif oku:
        from .common import atomic_deps

        deps = sorted(set(prefix + [x for t, l in gs.control_deps(gs.node_for(ups[0])) if t.kind == "test" for x in atomic_deps(t.ast, l)]))
        oku = len(deps) == 2 and any("root_media_hash is media_hash" in d and l == "T" for d, l in deps) and any((d.endswith("parent_history") and l == "T") or (d.endswith("parent_history is None") and l == "F") for d, l in deps)
        r7.check(oku, site, ups[0], f"the child's root hash is copied to the parent under {deps}; expected: this record is the list's root hash and the history has a parent", construct=f"copy-up guard {deps}")
        ko = pr.origins(ups[0].value.args[0], site)
        r7.check(all(is_call(o, "get_relative_file_path") and o[5] is not None and any(s[0] == "attr" and s[2] == "parent_history" for s in subterms(o[5])) and o[2][0][0] == "param" for o in ko), site, ups[0], "the parent's entry is not keyed by the folder's path relative to the parent history", construct="copy-up key")
        # the loop copying every format (inline or through a helper shared with the record's own entries)
        up_name = norm(ups[0].targets[0])
        pl = [(hf, lp, cn, sn) for hf, lp, cn, sn, recv in c07.directory_recording_loops(p, site, cpar, spar) if recv == up_name] if cpar and spar else []
        okl = len(pl) == 1 and is_plain_iter(p, pl[0][1].iter) and c07.recording_loop_ok(p, pr, *pl[0])
        if okl and pl[0][0] is site:
            okl = not [x for x in ast.walk(pl[0][1]) if isinstance(x, ast.If)]
        if okl and pl[0][0] is not site:
            # the helper call itself sits under the copy-up guard only (plus the `if <content mapping>:` emptiness test)
            hc = [c for c, tg in p.calls[site.qual] if pl[0][0].qual in tg and c.args and norm(c.args[0]) == up_name]
            okl = len(hc) == 1 and all(norm(t.ast) == cpar and l == "T" for t, l in gs.control_deps(gs.node_for(hc[0]), transitive=False) if t.kind == "test" and not any(norm(t.ast) == d for d, _ in deps))
        pl = [x[1] for x in pl]
        r7.check(okl, site, pl[0] if pl else site.node, "not every format's (content, structure) pair of the child root is copied to the parent entry", construct="copy-up loop")
    else:
        r7.check(False, ad, ad.node, "the child's root hash is not copied one history level up", construct="copy-up missing")

    # ------------------------------------------------------------------ R8.9
    r9 = report.rule(
        "R8.9",
        "the parent's manifest names every child generation it was handed: the writer's loop over the referenced hash lists emits one <hashlistreference> per item on every path "
        "of an iteration (no `continue`, no condition): two children can have identical manifest FILE NAMES (same folder name, same generation, same second) - they are still two references",
        1,
    )
    from .xmlcommon import writers as _writers

    mw_, _cw = _writers(p)
    gmw = cfg_of(mw_)
    rloops = [n for n in walk_no_nested(mw_.node) if isinstance(n, ast.For) and "referenced_hash_lists" in norm(n.iter)]
    if not rloops:
        # the loop may sit in a writer helper of the same module
        for q in p.reachable([mw_.qual]):
            f2 = p.funcs.get(q)
            if f2 is not None and f2.module is mw_.module:
                for n in walk_no_nested(f2.node):
                    if isinstance(n, ast.For) and any(any(st_[0] == "attr" and st_[2] == "referenced_hash_lists" for st_ in subterms(pr.expand_params(o, depth=2))) for o in pr.origins(n.iter, f2)):
                        rloops.append(n)
                        mw_, gmw = f2, cfg_of(f2)
    if len(rloops) != 1:
        raise AnalysisError(f"manifest writer: the loop over the referenced hash lists was not found ({len(rloops)})")
    rl = rloops[0]
    r9.instance(mw_, rl, f"for {norm(rl.target)} in {norm(rl.iter)[:50]}")
    r9.check(is_plain_iter(p, rl.iter), mw_, rl.iter, "the writer does not go through every referenced hash list", construct="reference loop iterable")
    emits = {gmw.node_for(c).id for c, tg in p.calls[mw_.qual] if any(x is c for st in rl.body for x in ast.walk(st)) and any("_ascmhlreference_xml_element" in norm(a) or norm(rl.target) in norm(a) for a in c.args) and any(t.endswith(("_write_xml_element_to_file",)) or "write" in t for t in tg)}
    head = gmw.by_ast[id(rl)]
    path = gmw.find_path(head, {head.id, gmw.exit.id}, avoid=emits, first_edges=[(m, l) for m, l in head.succ if l == "iter"])
    r9.check(bool(emits) and path is None, mw_, rl, "an iteration over the referenced hash lists can pass without a <hashlistreference> being written: the parent's manifest then lacks the reference to one of its children's new generations", witness=gmw.fmt_path(path) if path else None, construct="reference skipped in the manifest writer")

    # ------------------------------------------------------------------ R8.8
    r8 = report.rule(
        "R8.8",
        "recorded entries are looked up where they were recorded: every lookup of a file's entries (original entry, first entry of a format, existing formats, directory entries) "
        "in a function that routes the path (`history, relative = <root>.find_history_for_path(path)`) is made on the ROUTED history with the ROUTED relative path - "
        "asking the root history with the root-relative path finds nothing for a file that lives in a nested history",
        6,
    )
    LOOKUPS = ("find_original_hash_entry_for_path", "find_first_hash_entry_for_path", "find_existing_hash_formats_for_path", "find_directory_hash_entries_for_path")

    def _routed(term):
        return any(st_[0] == "call" and st_[1].endswith("find_history_for_path") for st_ in subterms(term))

    for fq, f in sorted(p.funcs.items()):
        if not f.module.name.endswith(("commands", "generator")):
            continue
        routes = [c for c, tg in p.calls[fq] if any(t.endswith("find_history_for_path") for t in tg)]
        if not routes:
            continue
        for c, tg in p.calls[fq]:
            if not any(t.split(".")[-1] in LOOKUPS for t in tg) or not isinstance(c.func, ast.Attribute) or not c.args:
                continue
            r8.instance(f, c, norm(c)[:80])
            ro = pr.origins(c.func.value, f)
            ao = pr.origins(c.args[0], f)
            recv_routed = bool(ro) and all(_routed(o) for o in ro)
            arg_routed = bool(ao) and any(_routed(o) for o in ao)
            if recv_routed and arg_routed:
                r8.check(True, f, c, "")
            elif not recv_routed and not arg_routed:
                r8.check(False, f, c, f"`{norm(c)[:70]}` asks `{norm(c.func.value)}` with `{norm(c.args[0])[:40]}` although this function routes the path to the history that holds it ({norm(routes[0])[:60]}): for a file inside a nested history the lookup finds nothing (the file looks unrecorded, its original format is not generated / verified)", construct=f"lookup {c.func.attr} bypasses the routed history")
            else:
                r8.check(False, f, c, f"`{norm(c)[:70]}` combines {'the routed history with an unrouted path' if recv_routed else 'an unrouted history with the routed path'}: the path is not relative to the history that is asked", construct=f"lookup {c.func.attr} mixes routed and unrouted history / path")

    # ---- rules shared with other properties (same mechanism, same rule, reported under every property it can break)
    # ------------------------------------------------------------------ R8.10
    r10 = report.rule(
        "R8.10",
        "the session routes every record by the record's OWN path: in the session's append methods the history is `find_history_for_path(<root-relative path of the "
        "item that is recorded>)` - not of its parent folder or any other derived path (the root folder of a nested history belongs to the nested history as `.`; "
        "routed by its parent it never gets its own record, commit then skips the nested history: no generation, no reference from the parent)",
        4,
    )
    for fq, f in sorted(p.funcs.items()):
        if not f.module.name.endswith(".generator") or not f.cls:
            continue
        for call, tg in p.calls[fq]:
            if not any(t.endswith("find_history_for_path") for t in tg) or not call.args:
                continue
            r10.instance(f, call, f"{f.name}: {norm(call)[:60]}")
            os_ = [x for o in pr.origins(call.args[0], f) for x in alts(o)]
            okr = bool(os_) and all(is_call(o, "get_relative_file_path") and o[2] and o[2][0][0] == "param" for o in os_)
            r10.check(okr, f, call, f"`{norm(call)[:70]}` routes the record by `{show(os_[0])[:80] if os_ else norm(call.args[0])}`, not by the root-relative path of the item itself: an item on a history boundary (the root folder of a nested history) ends up in the wrong history", construct=f"{f.name}: record routed by a derived path")

    include_rules(report, p, 'c12', ['R12.12'], 'every file is recorded in exactly one history: a pathspec that picks up the patterns of one nested history while the tree is traversed hides matching files of the histories traversed after it')
    include_rules(report, p, 'c10', ['R10.8'], 'the <references> section is the last of a manifest: a reader that leaves its event loop early loses the links to the nested histories')
    include_rules(report, p, 'c05', ['R5.7'], 'every nested ascmhl folder must be discovered as a child history')
    include_rules(report, p, 'c03', ['R3.10'], 'the commit loop and the loader test hash lists for presence')
    include_rules(report, p, 'c02', ['R2.3'], 'records are keyed by the routed history-relative path')
    report.not_decided += ["exactly-one-history-per-file on concrete layouts", "equality of reference digests with the referenced bytes at run time"]


def _resolve(f, e):
    if isinstance(e, ast.Name):
        binds = [n for n in walk_no_nested(f.node) if isinstance(n, ast.Assign) and len(n.targets) == 1 and isinstance(n.targets[0], ast.Name) and n.targets[0].id == e.id]
        if len(binds) == 1:
            return binds[0].value
    return e


def _ancestors(n):
    x = parent(n)
    while x is not None:
        yield x
        x = parent(x)


def _inside(n, container):
    x = n
    while x is not None:
        if x is container:
            return True
        x = parent(x)
    return False


def finish(report):
    return report.finish(
        level="other",
        explanation="shape of the component-wise exact-key router and of the transitive mapping, post-order walk and its use by commit, dominance of write over reference registration, "
        "reference element provenance in the emission grammar, control dependence of the skip and of the root-hash copy-up.",
    )
