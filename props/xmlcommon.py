"""Shared by C10 / C11 / C16 / C09: document templates of the two writers, tag domain, orderedness judgments."""
from __future__ import annotations

import ast
import os
from typing import Dict, List, Optional, Tuple

from sa.cfg import cfg_of
from sa.emit import Alt, Elem, Emitter, Opt, Rep, walk_elems
from sa.model import AnalysisError, Func, Program, norm, parent, walk_no_nested

_cache = {}


def writers(p: Program):
    """(manifest writer Func, chain writer Func) found by role: functions that open a file for writing and write a
    constant containing the respective root tag"""
    k = ("writers", id(p))
    if k in _cache:
        return _cache[k]
    mw = cw = None
    for fq, f in p.funcs.items():
        consts = [n.value for n in walk_no_nested(f.node) if isinstance(n, ast.Constant) and isinstance(n.value, (str, bytes))]
        txt = " ".join(c.decode("utf-8", "replace") if isinstance(c, bytes) else c for c in consts)
        opens = any("builtin:open" in tg for _, tg in p.calls[fq])
        if not opens and ("<hashlist" in txt or "<ascmhldirectory" in txt) and f.module.name.endswith("_xml_parser"):
            # the file may be opened by a small helper of the writer (`_open_temp_file(path)`)
            opens = any("builtin:open" in tg for q in p.reachable([fq]) if q != fq and p.funcs[q].module.name.endswith(("_xml_parser", ".utils", ".xml_io")) for _, tg in p.calls[q])
        if opens and "<hashlist" in txt and f.module.name.endswith("hashlist_xml_parser"):
            mw = f
        if opens and "<ascmhldirectory" in txt and f.module.name.endswith("chain_xml_parser"):
            cw = f
    if mw is None or cw is None:
        raise AnalysisError(f"document writers not found by role (manifest writer: {mw}, chain writer: {cw})")
    _cache[k] = (mw, cw)
    return mw, cw


def documents(p: Program):
    """(emitter, manifest document Elem, chain document Elem)"""
    k = ("docs", id(p))
    if k in _cache:
        return _cache[k]
    em = Emitter(p)
    mw, cw = writers(p)
    md = em.document(mw)
    raw_m = list(em.raw_dynamic)
    cd = em.document(cw)
    raw_c = list(em.raw_dynamic)
    _cache[k] = (em, md[0], cd[0], raw_m + raw_c)
    return _cache[k]


def format_domain(p: Program) -> List[str]:
    v = p.module_const(p.modules["ascmhl.__version__"], "ascmhl_supported_hashformats")
    if not isinstance(v, list) or not all(isinstance(x, str) for x in v):
        raise AnalysisError("ascmhl_supported_hashformats is not a constant list of strings")
    return v


def dyn_tag_attr(el: Elem) -> Optional[Tuple[str, str]]:
    """for a dynamic tag of the form <var>.<attr>: (var, attr)"""
    if isinstance(el.tag, tuple):
        e = el.tag[1]
        if isinstance(e, ast.Attribute) and isinstance(e.value, ast.Name):
            return e.value.id, e.attr
    return None


def resolve_local(f: Func, e):
    """follow `name = expr` single assignments of a local name (syntactic, one function)"""
    seen = 0
    while isinstance(e, ast.Name) and seen < 5:
        binds = [n for n in walk_no_nested(f.node) if isinstance(n, ast.Assign) and len(n.targets) == 1 and isinstance(n.targets[0], ast.Name) and n.targets[0].id == e.id]
        if len(binds) != 1:
            return e
        e = binds[0].value
        seen += 1
    return e


def sorted_by_attr(f: Func, it, var, attr) -> bool:
    """iterable is sorted(X, key=lambda v: v.<attr>) (possibly through a local name)"""
    e = resolve_local(f, it)
    if isinstance(e, ast.Call) and norm(e.func) == "sorted" and e.args:
        keys = [k.value for k in e.keywords if k.arg == "key"]
        rev = [k.value for k in e.keywords if k.arg == "reverse"]
        if rev and not (isinstance(rev[0], ast.Constant) and rev[0].value is False):
            return False
        if len(keys) == 1 and isinstance(keys[0], ast.Lambda) and len(keys[0].args.args) == 1:
            b = keys[0].body
            return isinstance(b, ast.Attribute) and isinstance(b.value, ast.Name) and b.value.id == keys[0].args.args[0].arg and b.attr == attr
    return False


def sorted_source(f: Func, it):
    """X in sorted(X, key=...)"""
    e = resolve_local(f, it)
    if isinstance(e, ast.Call) and norm(e.func) == "sorted" and e.args:
        return e.args[0]
    return None


# ---------------------------------------------------------------------- orderedness (DESIGN 3.7 d)
def ordered_expr(p: Program, f: Func, e, depth=0, trail=None) -> Tuple[bool, str]:
    """is the iteration order of `e` ascending in its keys/elements?  (ordered, why-not)"""
    trail = trail if trail is not None else []
    if depth > 8:
        return False, "judgment depth exceeded"
    if isinstance(e, ast.Call):
        nm = norm(e.func)
        if nm == "sorted" and e.args:
            if any(k.arg in ("key", "reverse") and not (isinstance(k.value, ast.Constant) and k.value.value in (None, False)) for k in e.keywords):
                return False, f"`{norm(e)}` sorts with a key / reversed"
            return True, ""
        if isinstance(e.func, ast.Attribute) and e.func.attr in ("items", "keys", "values", "copy") and not e.args:
            return ordered_expr(p, f, e.func.value, depth + 1, trail)
        if nm in ("list", "tuple", "dict") and len(e.args) == 1:
            return ordered_expr(p, f, e.args[0], depth + 1, trail)
        return False, f"`{norm(e)[:60]}` is not a recognised ordered source"
    if isinstance(e, ast.Name):
        name = e.id
        if name in f.params + f.kwonly:
            sites = [(p.funcs[c], call) for c, call in p.callers.get(f.qual, [])]
            if not sites:
                return False, f"parameter {name} of {f.qual} has no call site"
            for cf, call in sites:
                arg = p.bind_args(f, call).get(name)
                if arg is None:
                    return False, f"call at {cf.loc(call)} does not pass {name}"
                if not _is_in(arg, cf):
                    return False, f"default value of {name} used at {cf.loc(call)}"
                ok, why = ordered_expr(p, cf, arg, depth + 1, trail)
                if not ok:
                    return False, f"at {cf.loc(call)}: {why}"
            return True, ""
        binds = [n for n in walk_no_nested(f.node) if isinstance(n, (ast.Assign, ast.AnnAssign)) and any(isinstance(t, ast.Name) and t.id == name for t in (n.targets if isinstance(n, ast.Assign) else [n.target]))]
        if not binds:
            return False, f"`{name}` has no local definition"
        for b in binds:
            vs = [b.value.body, b.value.orelse] if isinstance(b.value, ast.IfExp) else [b.value]  # both alternatives must be ordered
            for v in vs:
                ok, why = _ordered_value(p, f, name, v, depth, trail)
                if not ok:
                    return False, why
        return True, ""
    return False, f"`{norm(e)[:60]}` is not a recognised ordered source"


def _ordered_value(p, f, name, v, depth, trail):
    if isinstance(v, ast.DictComp):
        gen = v.generators[0]
        if len(v.generators) != 1 or gen.ifs or norm(v.key) != norm(gen.target):
            return False, f"dict comprehension `{norm(v)[:60]}` is not keyed by its own loop variable"
        return ordered_expr(p, f, gen.iter, depth + 1, trail)
    if isinstance(v, ast.Dict) and not v.keys or (isinstance(v, ast.Call) and norm(v.func) == "dict" and not v.args):
        return _dict_filled_in_order(p, f, name, depth, trail)
    if isinstance(v, ast.List) and not v.elts:
        return _list_filled_in_order(p, f, name, depth, trail)
    return ordered_expr(p, f, v, depth + 1, trail)


def _is_in(node, func):
    x = node
    while x is not None:
        if x is func.node:
            return True
        x = parent(x)
    return False


def _loop_key(loop: ast.For):
    t = loop.target
    if isinstance(t, ast.Name):
        return t.id
    if isinstance(t, (ast.Tuple, ast.List)) and t.elts and isinstance(t.elts[0], ast.Name):
        return t.elts[0].id
    return None


def _dict_filled_in_order(p, f, name, depth, trail):
    stores = []
    for n in walk_no_nested(f.node):
        if isinstance(n, ast.Assign):
            for t in n.targets:
                if isinstance(t, ast.Subscript) and isinstance(t.value, ast.Name) and t.value.id == name:
                    stores.append((n, t.slice))
        if isinstance(n, ast.Call) and isinstance(n.func, ast.Attribute) and isinstance(n.func.value, ast.Name) and n.func.value.id == name and n.func.attr in ("update", "setdefault", "pop", "popitem", "clear") :
            return False, f"dict `{name}` is modified by .{n.func.attr}()"
    if not stores:
        return True, ""  # stays empty
    loops = set()
    for st, key in stores:
        lp = None
        x = parent(st)
        while x is not None and x is not f.node:
            if isinstance(x, ast.For):
                lp = x
                break
            x = parent(x)
        if lp is None:
            return False, f"`{name}[{norm(key)}] = ...` is not inside a loop"
        if not (isinstance(key, ast.Name) and key.id == _loop_key(lp)):
            return False, f"`{name}[{norm(key)}]` is not keyed by the loop key of `for {norm(lp.target)} in {norm(lp.iter)}`"
        loops.add(lp)
    # the dict must be created inside the scope in which exactly one filling loop runs (re-created per outer iteration is fine)
    if len(loops) != 1:
        return False, f"dict `{name}` is filled by {len(loops)} different loops"
    lp = next(iter(loops))
    return ordered_expr(p, f, lp.iter, depth + 1, trail)


def _list_filled_in_order(p, f, name, depth, trail):
    apps = [n for n in walk_no_nested(f.node) if isinstance(n, ast.Call) and isinstance(n.func, ast.Attribute) and isinstance(n.func.value, ast.Name) and n.func.value.id == name and n.func.attr in ("append", "extend", "insert")]
    sorts = [n for n in walk_no_nested(f.node) if isinstance(n, ast.Call) and isinstance(n.func, ast.Attribute) and isinstance(n.func.value, ast.Name) and n.func.value.id == name and n.func.attr == "sort"]
    if sorts and all(not s.keywords for s in sorts):
        return True, ""
    return False, f"list `{name}` is filled by append and not sorted"
