"""C12 - ignore patterns exclude consistently and only ever accumulate (structural clauses)."""
from __future__ import annotations

import ast

from sa.cfg import cfg_of
from sa.emit import Alt, Elem, Opt, Rep, walk_elems
from sa.flow import show, sig, subterms
from sa.model import AnalysisError, norm, parent, walk_no_nested

from .common import atomic_deps, include_rules, alts, callers_of, commands, is_call, is_const, loop_iteration_paths, prov, unshipped_modules
from .xmlcommon import documents

SPEC = "ascmhl.ignore.MHLIgnoreSpec"


def traversal_funcs(p):
    out = [f for f in p.funcs.values() if f.is_generator() and any(t in ("ext:os.listdir", "ext:os.scandir", "ext:os.walk") for _, tg in p.calls[f.qual] for t in tg)]
    if not out:
        raise AnalysisError("traversal generator (generator function that enumerates a directory) not found")
    return out


def ignore_option_params(p, c):
    """(parameter name, role) of the ignore-related click options of command c: role 'list' (-i) / 'file' (-ii)"""
    out = {}
    for pn, o in p.click_options(c).items():
        if any(d in ("--ignore", "-i") for d in o["decl"]):
            out[pn] = "list"
        if any(d in ("--ignore_spec", "-ii") for d in o["decl"]):
            out[pn] = "file"
    return out


def effective_spec(p, pr, t, f_cmds_params):
    """is term t == MHLIgnoreSpec(<loader>(…).latest_ignore_patterns(), <param>, <param>) ? returns (ok, why)"""
    if not (isinstance(t, tuple) and t[0] == "call" and t[1] == "class:" + SPEC):
        return False, f"not an MHLIgnoreSpec built here: {show(t)[:120]}"
    args = list(t[2])
    kw = t[3]
    existing = args[0] if len(args) > 0 else kw.get("existing_pattern_list")
    lst = args[1] if len(args) > 1 else kw.get("new_pattern_list")
    fil = args[2] if len(args) > 2 else kw.get("new_pattern_file")
    if existing is None or is_const(existing, None):
        return False, "the spec is built without the patterns recorded in the latest generation"
    ok_e = all(is_call(a, "MHLHistory.latest_ignore_patterns") and a[5] is not None and all(is_call(h, "MHLHistory.load_from_path") or is_call(h, "MHLHistory.load_from_packing_list_path") for h in alts(a[5])) for a in alts(existing))
    if not ok_e:
        return False, f"first argument is not <loaded history>.latest_ignore_patterns(): {show(existing)[:120]}"
    if lst is None or is_const(lst, None) or not all(a[0] == "param" for a in alts(lst)):
        return False, "the spec is built without the -i patterns of the command line"
    if fil is None or is_const(fil, None) or not all(a[0] == "param" for a in alts(fil)):
        return False, "the spec is built without the -ii pattern file of the command line"
    return True, ""


def param_reaches_spec(p, f, pname, seen=None):
    """does parameter pname of f reach an MHLIgnoreSpec(...) construction (directly or through callees)? (bool, where-not)"""
    seen = seen or set()
    if (f.qual, pname) in seen:
        return True, ""
    seen.add((f.qual, pname))
    used = False
    for call, tg in p.calls[f.qual]:
        argnames = [(i, a) for i, a in enumerate(call.args) if isinstance(a, ast.Name) and a.id == pname] + [(k.arg, k.value) for k in call.keywords if isinstance(k.value, ast.Name) and k.value.id == pname]
        if not argnames:
            continue
        if "class:" + SPEC in tg:
            used = True
            continue
        for t in tg:
            if t in p.funcs:
                g = p.funcs[t]
                b = p.bind_args(g, call)
                for qn, a in b.items():
                    if isinstance(a, ast.Name) and a.id == pname and a in [x for _, x in argnames]:
                        ok, why = param_reaches_spec(p, g, qn, seen)
                        if not ok:
                            return False, why
                        used = True
    if not used:
        return False, f"{f.qual}({pname}) never passes it to an MHLIgnoreSpec"
    return True, ""


def run(report, p):
    pr = prov(p)
    cmds = commands(p)
    unshipped = unshipped_modules(p)
    travs = traversal_funcs(p)
    trav_q = {t.qual for t in travs}
    report.assume("pathspec's gitwildmatch semantics")

    shipped_reach = set()
    for c in cmds.values():
        shipped_reach |= set(p.reachable([c.qual]))

    # ------------------------------------------------------------------ R12.1
    r1 = report.rule(
        "R12.1",
        "every traversal started by a command receives the pathspec of MHLIgnoreSpec(<loaded history>.latest_ignore_patterns(), <-i>, <-ii>); the recursive call hands its own spec on",
        5,
    )
    spec_of_func = {}
    for t in travs:
        for cf, call in callers_of(p, t.qual):
            if cf.qual not in shipped_reach and cf.qual not in trav_q:
                continue
            b = p.bind_args(t, call)
            spec_param = t.params[1] if len(t.params) > 1 else None
            arg = b.get(spec_param)
            r1.instance(cf, call, norm(call)[:110])
            if cf.qual in trav_q:
                r1.check(isinstance(arg, ast.Name) and arg.id == spec_param, cf, call, "the recursive traversal call does not hand on its own ignore spec")
                # ... nor may it lose the folder the patterns are relative to: every further parameter of the traversal is handed on as it is
                for extra in t.params[2:]:
                    ea = b.get(extra)
                    r1.check(isinstance(ea, ast.Name) and ea.id == extra, cf, call, f"the recursive traversal call does not hand on `{extra}` (the folder the ignore patterns are relative to): from the second level down the patterns are matched relative to the sub-folder being entered - patterns with a slash (`clips/proxies/cache`) stop matching there and anchored ones (`/notes.txt`) match in every sub-folder", construct=f"recursion drops {extra}")
                continue
            if arg is None or (isinstance(arg, ast.Constant) and arg.value is None):
                r1.check(False, cf, call, "traversal started without an ignore spec")
                continue
            oks = []
            for o in pr.origins(arg, cf):
                full = pr.inline(o, depth=2, calls=False)
                if any(s2[0] == "param" for s2 in subterms(full)) and cf.qual not in [c.qual for c in cmds.values()]:
                    # the traversal sits in a helper: follow the helper's parameters to its call sites
                    full = pr.inline(pr.expand_params(full, depth=2, within=shipped_reach), depth=2, calls=False)
                for a in alts(full):
                    if is_call(a, "MHLIgnoreSpec.get_path_spec") and a[5] is not None:
                        for s in alts(a[5]):
                            ok, why = effective_spec(p, pr, s, None)
                            oks.append((ok, why, s))
                    else:
                        oks.append((False, f"not <spec>.get_path_spec(): {show(a)[:100]}", a))
            bad = [w for ok, w, _ in oks if not ok]
            r1.check(bool(oks) and not bad, cf, call, "traversal does not use the effective ignore patterns (latest generation + -i + -ii): " + (bad[0] if bad else "no origin"), witness=show(oks[0][2])[:300] if oks else None)
            spec_of_func.setdefault(cf.qual, []).extend(id(s[4]) for ok, w, s in oks if s[0] == "call")

    # ------------------------------------------------------------------ R12.12
    r12 = report.rule(
        "R12.12",
        "inside the traversal the pathspec it was given is read-only: the parameter is never augmented (`spec += ...` calls PathSpec.__iadd__, which extends the "
        "CALLER's object in place - the one spec every folder of the run is matched with) or mutated through its attributes; patterns that hold for a part of the tree only "
        "would otherwise leak into every folder traversed after it",
        1,
    )
    for t in travs:
        spec_param = t.params[1] if len(t.params) > 1 else None
        if spec_param is None:
            continue
        r12.instance(t, t.node, f"{t.name}({spec_param})")
        bad12 = None
        for n in walk_no_nested(t.node):
            if isinstance(n, ast.AugAssign) and isinstance(n.target, ast.Name) and n.target.id == spec_param:
                bad12 = (n, f"`{norm(n)[:70]}` extends the pathspec object in place")
            elif isinstance(n, ast.Call) and isinstance(n.func, ast.Attribute) and n.func.attr in ("append", "extend", "insert", "remove", "clear", "pop", "update", "add", "sort", "reverse", "__iadd__") and any(isinstance(x, ast.Name) and x.id == spec_param for x in ast.walk(n.func.value)):
                bad12 = (n, f"`{norm(n)[:70]}` mutates the pathspec object")
            elif isinstance(n, (ast.Assign, ast.AugAssign)) and any(isinstance(tg_, (ast.Attribute, ast.Subscript)) and any(isinstance(x, ast.Name) and x.id == spec_param for x in ast.walk(tg_)) for tg_ in (n.targets if isinstance(n, ast.Assign) else [n.target])):
                bad12 = (n, f"`{norm(n)[:70]}` stores into the pathspec object")
        if bad12:
            r12.check(False, t, bad12[0], f"{bad12[1]}: the object is shared by the whole run (the recursion hands the same object on, the command matches missing files with it), so what is added for one folder - e.g. the patterns of a nested history - applies to every folder traversed afterwards: files there are silently left out of every history although no pattern in force names them", construct="pathspec modified inside the traversal")
        else:
            r12.check(True, t, t.node, "")

    # ------------------------------------------------------------------ R12.13
    r13 = report.rule(
        "R12.13",
        "one spelling per path at every ignore match: the traversal and the missing-file filter hand PathSpec.match_file the same string for the same path - "
        "relpath(<path>, <root>) as it is, not decorated on one side (a trailing separator for folders, a prefix, a normalisation): a path that the traversal skips under "
        "a pattern but the filter does not recognise as ignored is reported missing (and the other way round: recorded although ignored)",
        2,
    )
    sites13 = []
    for fq, f in sorted(p.funcs.items()):
        if fq not in shipped_reach and fq not in trav_q:
            continue
        for call, tg in p.calls[fq]:
            if isinstance(call.func, ast.Attribute) and call.func.attr == "match_file" and call.args and any("pathspec" in t.lower() or t.startswith("unk:") for t in tg):
                shapes = []
                for o in pr.origins(call.args[0], f):
                    for a_ in alts(pr.inline(o, depth=1, calls=False)):
                        if is_call(a_, "os.path.relpath"):
                            shapes.append(("plain", a_))
                        elif a_[0] == "op" and (str(a_[1]).startswith("aug") or (a_[1] in ("Add", "fstring", "Mod", "format") and any(is_call(x, "os.path.relpath") for x in subterms(a_)))):
                            shapes.append(("decorated", a_))
                        elif a_[0] == "call" and any(is_call(x, "os.path.relpath") for x in subterms(a_)) and not is_call(a_, "os.path.relpath"):
                            shapes.append(("decorated", a_))
                        else:
                            shapes.append(("other", a_))
                sites13.append((f, call, shapes))
                r13.instance(f, call, norm(call)[:90])
    plain_sites = [x for x in sites13 if x[2] and all(k == "plain" for k, _ in x[2])]
    for f, call, shapes in sites13:
        dec = [a_ for k, a_ in shapes if k == "decorated"]
        if dec and plain_sites:
            r13.check(False, f, call, f"`{norm(call)[:70]}` matches `{show(dec[0])[:90]}` while {plain_sites[0][0].name} matches the bare relative path: the two sites disagree on which paths a pattern covers - a recorded folder that a directory pattern (`scratch/`) now ignores is skipped by one and reported as `missing file(s)` (exit 10) by the other", construct=f"{f.name}: decorated path at the ignore match")
        elif dec:
            raise AnalysisError(f"{f.loc(call)}: every ignore match decorates the relative path; whether they agree is not decided by this rule")
        else:
            r13.check(True, f, call, "")

    # ------------------------------------------------------------------ R12.2
    r2 = report.rule("R12.2", "no ignore option is dropped: the -i / -ii parameter of every shipped command reaches an MHLIgnoreSpec construction on every sub-command path it is passed to", 8)
    for name, c in cmds.items():
        for pn, role in ignore_option_params(p, c).items():
            r2.instance(c, c.node, f"{name} option {pn} ({role})")
            ok, why = param_reaches_spec(p, c, pn)
            r2.check(ok, c, c.node, f"option {pn} of `{name}` is accepted and ignored: {why}", construct=f"{name} option {pn}: {why}")

    # ------------------------------------------------------------------ R12.10
    r10 = report.rule(
        "R12.10",
        "the -i / --ignore option of every command is declared `multiple=True`: the spec receives a tuple of whole patterns. Declared single, click hands over ONE string and the spec, "
        "which iterates what it is given, takes every character as a pattern (`*.bak` becomes `*`, `.`, `b`, `a`, `k` - everything is ignored); -ii takes exactly one file",
        6,
    )
    for name, c in cmds.items():
        opts = p.click_options(c)
        for pn, role in ignore_option_params(p, c).items():
            o = opts[pn]
            r10.instance(c, o["node"], f"{name} option {pn} ({role}) multiple={o['multiple']}")
            if role == "list":
                r10.check(o["multiple"], c, o["node"], f"option {o['decl']} of `{name}` is not declared multiple=True: the pattern string is taken apart into one-character patterns by the ignore spec", construct=f"{name}: -i declared single")
            else:
                r10.check(not o["multiple"], c, o["node"], f"option {o['decl']} of `{name}` is declared multiple: the spec opens its value as one file path", construct=f"{name}: -ii declared multiple")

    # ------------------------------------------------------------------ R12.14
    r14 = report.rule(
        "R12.14",
        "an ignored path is never MISSING: wherever a command decides on the completeness failure (constructs CompletenessCheckFailedException) the decision is "
        "taken on the collection that went through the ignore filter (a comprehension with `not spec.match_file(...)`, in the function itself or in the helper whose "
        "result it uses) - not on the unfiltered set of expected paths, even where the filtered one is computed next to it",
        1,
    )

    def _filtered_value(v, f, depth=0):
        if isinstance(v, (ast.ListComp, ast.SetComp, ast.GeneratorExp)):
            return any("match_file" in norm(i) for g_ in v.generators for i in g_.ifs)
        if isinstance(v, ast.Call) and depth < 2:
            if norm(v.func) in ("list", "set", "sorted", "tuple") and v.args:
                return _filtered_value(v.args[0], f, depth)
            for t in p.resolve_call(v, f):
                if t in p.funcs:
                    hf = p.funcs[t]
                    rets = [n for n in walk_no_nested(hf.node) if isinstance(n, ast.Return) and n.value is not None]
                    if rets and all(_filtered_name_or_value(rt.value, hf, depth + 1) for rt in rets):
                        return True
        return False

    def _filtered_name_or_value(e, f, depth=0):
        if isinstance(e, ast.Name):
            binds = [a for a in walk_no_nested(f.node) if isinstance(a, ast.Assign) and any(isinstance(t, ast.Name) and t.id == e.id for t in a.targets)]
            return bool(binds) and any(_filtered_value(a.value, f, depth) for a in binds)
        return _filtered_value(e, f, depth)

    n14 = 0
    for fq, f in sorted(p.funcs.items()):
        if fq not in shipped_reach:
            continue
        for c in [n for n in walk_no_nested(f.node) if isinstance(n, ast.Call) and norm(n.func).endswith("CompletenessCheckFailedException")]:
            n14 += 1
            r14.instance(f, c, f"{f.name}: {norm(c)[:50]}")
            g14 = cfg_of(f)
            names14 = []
            for t_, l_ in g14.necessary_branches(g14.node_for(c)):
                for x in ast.walk(t_.ast):
                    if isinstance(x, ast.Name) and isinstance(x.ctx, ast.Load) and x.id not in ("len", "bool") and x.id not in names14:
                        names14.append(x.id)
            colls = [nm for nm in names14 if any(isinstance(a, ast.Assign) and any(isinstance(t, ast.Name) and t.id == nm for t in a.targets) and isinstance(a.value, (ast.ListComp, ast.SetComp, ast.GeneratorExp, ast.Call, ast.BinOp, ast.Name)) for a in walk_no_nested(f.node)) or nm in f.params]
            colls = [nm for nm in colls if not nm.startswith("num_") and nm not in ("exception", "detect_renaming", "single_file")]
            if not colls:
                r14.check(True, f, c, "")
                continue
            filt = [nm for nm in colls if _filtered_name_or_value(ast.Name(id=nm, ctx=ast.Load()), f)]
            if filt:
                r14.check(True, f, c, "")
                continue
            # is a filtered collection computed in this function at all (and then not consulted)?
            beside = [a for a in walk_no_nested(f.node) if isinstance(a, ast.Assign) and _filtered_value(a.value, f)]
            if beside and not any(nm in f.params for nm in colls):
                r14.check(False, f, c, f"the completeness failure is decided on `{colls[0]}`, the expected paths as they were BEFORE the ignore filter, although the filtered result is at hand (`{norm(beside[0].targets[0])} = {norm(beside[0].value)[:50]}`): a recorded path that the effective patterns now ignore (present or deleted) makes this command exit 10 `files missing` while its siblings accept the tree", construct=f"{f.name}: missing decided on the unfiltered set `{colls[0]}`")
            else:
                r14.note(f"{f.loc(c)}: the condition of the completeness failure ({colls}) could not be related to the ignore filter by this rule (R12.3 / R12.9 judge the pipeline)")
    if n14 == 0:
        raise AnalysisError("no construction of CompletenessCheckFailedException found in the shipped commands")

    # ------------------------------------------------------------------ R12.15
    r15 = report.rule(
        "R12.15",
        "an ignored nested history is not MISSING either: where create collects the nested histories referenced by the latest generation whose ascmhl folder is gone "
        "(to fail with `Missing ASC MHL history`, exit 30), a folder the effective patterns ignore is left out - verify and diff never look at such a folder",
        1,
    )
    n15 = 0
    for fq, f in sorted(p.funcs.items()):
        if fq not in shipped_reach or not f.module.name.endswith("commands"):
            continue
        raises = [n for n in walk_no_nested(f.node) if isinstance(n, ast.Raise) and n.exc is not None and "NoMHLHistoryException" in norm(n.exc) and any(isinstance(x, ast.Call) and isinstance(x.func, ast.Attribute) and x.func.attr == "join" for x in ast.walk(n.exc))]
        for rs in raises:
            coll = next((x.id for x in ast.walk(rs.exc) if isinstance(x, ast.Name) and any(isinstance(c, ast.Call) and isinstance(c.func, ast.Attribute) and c.func.attr == "add" and isinstance(c.func.value, ast.Name) and c.func.value.id == x.id for c in walk_no_nested(f.node))), None)
            if coll is None:
                continue
            g15 = cfg_of(f)
            for c in [c for c in walk_no_nested(f.node) if isinstance(c, ast.Call) and isinstance(c.func, ast.Attribute) and c.func.attr == "add" and isinstance(c.func.value, ast.Name) and c.func.value.id == coll]:
                atoms = [a for t_, l_ in g15.necessary_branches(g15.node_for(c)) for a in atomic_deps(t_.ast, l_)]
                if any(a_.endswith(f" in {coll}") and l_ == "T" for a_, l_ in atoms):
                    continue  # an entry of the collection is moved to its new name (rename detection)
                n15 += 1
                r15.instance(f, c, norm(c)[:70])
                okf = any("match_file" in a_ and l_ == "F" for a_, l_ in atoms)
                r15.check(okf, f, c, f"`{norm(c)[:60]}` registers a referenced nested history whose ascmhl folder is gone as missing without asking the ignore patterns: after the folder of a nested history was removed, `create ROOT -i <that folder>` exits 30 `Missing ASC MHL history` although the effective patterns exclude it (verify / diff with the same pattern accept the tree)", construct=f"{f.name}: missing nested history registered without the ignore test")
    if n15 == 0:
        raise AnalysisError("create: the collection of missing nested histories (raised as NoMHLHistoryException) was not found")

    # ------------------------------------------------------------------ R12.9
    r9 = report.rule(
        "R12.9",
        "order of the stages between the recorded paths and the 'missing file(s)' report: the ignore filter is applied to the names the files have NOW - no rename rewrite "
        "(old name -> current name) is applied after the filter, and a filter exists on every chain",
        3,
    )
    _missing_report_stages(p, pr, r9)

    # ------------------------------------------------------------------ R12.3
    r3 = report.rule("R12.3", "the missing-file filter receives the same spec object as the traversal of the same command and filters every expected path through it", 3)
    tfm = [f for f in p.funcs.values() if f.module.name.endswith("commands") and any(isinstance(n, ast.Call) and isinstance(n.func, ast.Attribute) and n.func.attr == "match_file" for n in walk_no_nested(f.node)) and "CompletenessCheckFailedException" in norm(f.node)]
    if len(tfm) != 1:
        raise AnalysisError(f"missing-file filter (function matching paths and returning the completeness exception) not found: {[f.qual for f in tfm]}")
    tfm = tfm[0]
    spec_param = next((pn for pn in tfm.params if "spec" in pn), None)
    for cf, call in callers_of(p, tfm.qual):
        r3.instance(cf, call, norm(call)[:100])
        arg = p.bind_args(tfm, call).get(spec_param)
        if arg is None or not _in(arg, cf):
            r3.check(False, cf, call, "missing-file filter called with the default spec instead of the command's spec")
            continue
        terms = [a for o in pr.origins(arg, cf) for a in alts(pr.inline(o, depth=2, calls=False))]
        same = bool(terms) and all(a[0] == "call" and id(a[4]) in spec_of_func.get(cf.qual, []) for a in terms)
        r3.check(same, cf, call, "missing-file filter does not use the spec object the traversal of this command uses", witness="; ".join(show(a)[:160] for a in terms))
    # inside the filter
    g = cfg_of(tfm)
    comps = [n for n in walk_no_nested(tfm.node) if isinstance(n, (ast.ListComp, ast.GeneratorExp, ast.SetComp)) and any("match_file" in norm(i) for gen in n.generators for i in gen.ifs)]
    ok = False
    for comp in comps:
        gen = comp.generators[0]
        it_ok = _maps_all(tfm, gen.iter, tfm.params[0])
        cond = gen.ifs[0] if len(gen.ifs) == 1 else None
        neg = isinstance(cond, ast.UnaryOp) and isinstance(cond.op, ast.Not)
        mf = cond.operand if neg else None
        spec_ok = False
        if isinstance(mf, ast.Call) and isinstance(mf.func, ast.Attribute):
            for o in pr.origins(mf.func.value, tfm):
                spec_ok = spec_ok or (is_call(o, "get_path_spec") and o[5] is not None and o[5][0] == "param" and o[5][2] == spec_param)
        st = parent(comp)
        rebinds = isinstance(st, ast.Assign) and len(st.targets) == 1 and isinstance(st.targets[0], ast.Name)
        ok = it_ok and neg and spec_ok and rebinds and norm(comp.elt) == norm(gen.target)
        if ok:
            var = st.targets[0].id
            # every later read of the (unfiltered) path collection reads the filtered one
            for n in walk_no_nested(tfm.node):
                if isinstance(n, ast.Name) and isinstance(n.ctx, ast.Load) and n.id == tfm.params[0] and n is not gen.iter and not _feeds(tfm, n, gen.iter):
                    o = pr.origins(n, tfm)
                    ok = ok and all(x[0] == "op" and x[1] == "comp" for x in o)
            # and the filtered collection is what is counted / reported
            used = [n for n in walk_no_nested(tfm.node) if isinstance(n, ast.Name) and isinstance(n.ctx, ast.Load) and n.id == var]
            ok = ok and len(used) >= 2
    r3.instance(tfm, tfm.node, "filter body")
    r3.check(ok, tfm, tfm.node, "the missing-file filter does not pass every expected path through `not <command spec>.match_file(...)` before counting/reporting", construct="filter comprehension")

    # ------------------------------------------------------------------ R12.4
    r4 = report.rule(
        "R12.4",
        "accumulation: the pattern list is reset, then receives the previous patterns (or the defaults), then -i patterns, then the -ii file, each through a de-duplicating append; "
        "nothing sorts, removes or re-orders; defaults contain .DS_Store and the ascmhl folder name",
        3,
    )
    spec = p.classes.get(SPEC)
    if spec is None:
        raise AnalysisError("MHLIgnoreSpec not found")
    sp = spec.methods.get("set_patterns")
    if sp is None:
        raise AnalysisError("MHLIgnoreSpec.set_patterns not found")
    g = cfg_of(sp)
    r4.instance(sp, sp.node, "set_patterns order")
    groups = {"existing": [], "list": [], "file": []}
    for call, tg in p.calls[sp.qual]:
        if any(t.startswith(SPEC + ".") and t != sp.qual for t in tg) and call.args and isinstance(call.func, ast.Attribute) and isinstance(call.func.value, ast.Name) and call.func.value.id == "self":
            a0 = norm(call.args[0])
            if a0 == sp.params[1] or "default_ignore_list" in a0:
                groups["existing"].append(g.node_for(call))
            elif a0 == sp.params[2]:
                groups["list"].append(g.node_for(call))
            elif a0 == sp.params[3]:
                groups["file"].append(g.node_for(call))
            elif isinstance(call.args[0], (ast.ListComp, ast.GeneratorExp)) and any(isinstance(x, ast.Name) for x in ast.walk(call.args[0].generators[0].iter)) and any(isinstance(w, ast.With) and any(isinstance(it.context_expr, ast.Call) and norm(it.context_expr.func) == "open" and it.context_expr.args and norm(it.context_expr.args[0]) == sp.params[3] for it in w.items) for w in _ancestors12(call)):
                # the lines of the pattern file, read here (R12.8 judges how a line becomes a pattern)
                groups["file"].append(g.node_for(call))
            else:
                raise AnalysisError(f"{sp.loc(call)}: pattern source `{a0[:60]}` in set_patterns is not one of the three this rule knows (previous / -i / -ii)")
    if not any(groups.values()):
        raise AnalysisError("MHLIgnoreSpec.set_patterns: no call of an append helper of the spec found (helpers renamed or inlined?); the accumulation rule cannot be evaluated on this shape")
    ok = all(groups.values())
    if ok:
        def before(A, B):
            # no path from any B node to any A node, and every path entry->B passes some A
            for b in B:
                if any(a.id in g.reachable_from([m for m, _ in b.succ]) for a in A):
                    return False
                if g.find_path(g.entry, {b.id}, avoid={a.id for a in A}) is not None:
                    return False
            return True
        ok = before(groups["existing"], groups["list"]) and before(groups["list"] + groups["existing"], groups["file"]) and before(groups["existing"], groups["file"])
        # list patterns may be absent: file must still come after existing (checked) ; reset first
        resets = [n for n in g.nodes if n.kind == "stmt" and isinstance(n.ast, ast.Assign) and "_ignore_list" in norm(n.ast.targets[0]) and isinstance(n.ast.value, ast.List) and not n.ast.value.elts]
        ok = ok and len(resets) == 1 and all(g.dominates(resets[0], x) for grp in groups.values() for x in grp)
    r4.check(ok, sp, sp.node, "set_patterns does not apply [previous or defaults] -> [-i list] -> [-ii file] in that order after a reset", construct="set_patterns order")
    # each source is applied under a test of ITS OWN parameter only: the pattern file must not depend on whether -i patterns were given, and so on
    own_param = {"existing": sp.params[1], "list": sp.params[2], "file": sp.params[3]}
    for grp, nodes_ in groups.items():
        for nd in nodes_:
            foreign = []
            for t_, l_ in g.necessary_branches(nd):
                for a_, l2 in atomic_deps(t_.ast, l_):
                    base_ = a_.replace(" is None", "")
                    if base_ in sp.params and base_ != own_param[grp] and base_ != "self":
                        foreign.append((a_, l2))
            r4.check(not foreign, sp, nd.ast, f"the {'-ii pattern file' if grp == 'file' else ('-i patterns' if grp == 'list' else 'previous patterns')} are only applied when `{foreign[0][0] if foreign else ''}` is {'true' if foreign and foreign[0][1] == 'T' else 'false'}: `-ii FILE` without `-i` (or the reverse) is silently dropped - the patterns are neither used for this run nor written into the new generation", construct=f"set_patterns: {grp} source under a test of another option")
    # which base list is taken: evaluated over the three cases of the 'existing patterns' argument
    from sa.absint import UNKNOWN, Evaluator, Obj, Val

    class _NonEmpty(Obj):
        pass

    class _SP(Evaluator):
        def __init__(self):
            self.taken = []
            super().__init__(self._hook, sp.qual)

        def _hook(self, e, env):
            if isinstance(e, ast.Call) and "default_ignore_list" in norm(e.func):
                return Val("<defaults>")
            return None

        def step(self, st, env):
            if isinstance(st, ast.Expr) and isinstance(st.value, ast.Call) and isinstance(st.value.func, ast.Attribute) and st.value.func.attr.startswith("_append_patterns") and st.value.args:
                a = st.value.args[0]
                if isinstance(a, ast.BoolOp) and isinstance(a.op, ast.Or):
                    v = UNKNOWN
                    for x in a.values:
                        v = self.eval(x, env)
                        if v is UNKNOWN or v:
                            break
                else:
                    v = self.eval(a, env)
                env.setdefault("__taken", [])
                env["__taken"] = env["__taken"] + [v]
                return [(env, None)]
            return super().step(st, env)

    cases = [("a non-empty list", _NonEmpty(), False), ("an empty list", [], True), ("None", None, True)]
    okd, whyd = True, ""
    for desc, val, want_defaults in cases:
        ev = _SP()
        try:
            outs = ev.run(sp.node.body, {sp.params[1]: val, sp.params[2]: None, sp.params[3]: None})
        except AnalysisError as e:
            raise AnalysisError(f"set_patterns: {e}")
        for e2, o in outs:
            taken = e2.get("__taken", [])
            got_defaults = "<defaults>" in [t for t in taken if isinstance(t, str)]
            got_existing = any(t is val for t in taken) if val is not None and not isinstance(val, list) else any(isinstance(t, list) and t == [] for t in taken) if isinstance(val, list) else False
            if any(t is UNKNOWN for t in taken):
                raise AnalysisError("set_patterns: cannot tell which base list is appended")
            if got_defaults != want_defaults:
                okd, whyd = False, f"with {desc} as the existing patterns the defaults are {'NOT ' if want_defaults else ''}applied"
            if not want_defaults and not got_existing:
                okd, whyd = False, f"with {desc} as the existing patterns they are not carried over"
    r4.check(okd, sp, sp.node, f"set_patterns: {whyd}: a generation without recorded patterns (or with an empty list) must fall back to the defaults (.DS_Store, the ascmhl folder), otherwise those are hashed, recorded and reported", construct="base list of set_patterns (existing or defaults)")

    # mutation sites of the pattern list
    for mq, m in spec.methods.items():
        for n in walk_no_nested(m.node):
            if isinstance(n, ast.Call) and isinstance(n.func, ast.Attribute) and "_ignore_list" in norm(n.func.value):
                meth = n.func.attr
                if meth in ("copy", "__len__", "index", "count"):
                    continue
                r4.instance(m, n, norm(n)[:100])
                if meth == "extend" and n.args and isinstance(n.args[0], ast.GeneratorExp):
                    ge = n.args[0]
                    dd = len(ge.generators) == 1 and len(ge.generators[0].ifs) == 1 and norm(ge.generators[0].ifs[0]) == f"{norm(ge.elt)} not in {norm(n.func.value)}" and norm(ge.elt) == norm(ge.generators[0].target)
                    r4.check(dd, m, n, "patterns are appended without the `not in` de-duplication filter")
                elif meth == "extend" and n.args and isinstance(n.args[0], ast.ListComp) and any("not in" in norm(i) for g_ in n.args[0].generators for i in g_.ifs):
                    r4.check(False, m, n, "the batch is filtered with `not in` while it is built as a list, i.e. BEFORE any of it is appended: a pattern that occurs twice in one batch (`-i X -i X`, a repeated line of a pattern file) is appended twice (a generator given to extend() is consumed lazily and sees the elements already appended)", construct="de-duplication filter evaluated before the batch is appended")
                elif meth == "append":
                    gg = cfg_of(m)
                    nn = gg.node_for(n)
                    guards = [t for t in gg.nodes if t.kind == "test" and gg.dominates(t, nn) and "not in" in norm(t.ast) and "_ignore_list" in norm(t.ast)]
                    r4.check(bool(guards), m, n, "pattern appended without a `not in` de-duplication guard")
                elif meth in ("sort", "reverse", "remove", "pop", "clear", "insert", "__delitem__"):
                    r4.check(False, m, n, f"the pattern list is modified by .{meth}(): order / accumulation of recorded patterns is not preserved")
                else:
                    raise AnalysisError(f"{m.loc(n)}: unrecognised operation on the pattern list: {norm(n)[:80]}")
            if isinstance(n, ast.AugAssign) and "_ignore_list" in norm(n.target):
                r4.instance(m, n, norm(n)[:100])
                v = n.value
                if isinstance(n.op, ast.Add) and isinstance(v, ast.GeneratorExp):
                    dd = len(v.generators) == 1 and len(v.generators[0].ifs) == 1 and norm(v.generators[0].ifs[0]) == f"{norm(v.elt)} not in {norm(n.target)}" and norm(v.elt) == norm(v.generators[0].target)
                    r4.check(dd, m, n, "patterns are appended without the `not in` de-duplication filter")
                elif isinstance(n.op, ast.Add) and isinstance(v, ast.ListComp) and any("not in" in norm(i) for g_ in v.generators for i in g_.ifs):
                    r4.check(False, m, n, "the batch is filtered with `not in` while it is built as a list, i.e. BEFORE any of it is appended: a pattern that occurs twice in one batch (`-i X -i X`, a repeated line of a pattern file) is appended twice (a generator given to extend() is consumed lazily and sees the elements already appended)", construct="de-duplication filter evaluated before the batch is appended")
                elif isinstance(n.op, ast.Add) and isinstance(v, (ast.List, ast.ListComp, ast.Name, ast.Call)):
                    r4.check(False, m, n, "patterns are appended without the `not in` de-duplication filter", construct="pattern list += without de-duplication")
                else:
                    raise AnalysisError(f"{m.loc(n)}: unrecognised in-place operation on the pattern list: {norm(n)[:80]}")
            if isinstance(n, ast.Assign) and any("_ignore_list" in norm(t) for t in n.targets):
                v = n.value
                vt = norm(v)
                if isinstance(v, ast.List) and not v.elts:
                    r4.check(True, m, n, "")
                elif vt.startswith("list(dict.fromkeys(") and "_ignore_list +" in vt:
                    r4.check(True, m, n, "")  # order-preserving de-duplication of old + new
                elif vt.startswith(("sorted(", "set(", "list(set(", "reversed(", "list(reversed(")) or (isinstance(v, ast.Subscript) and isinstance(v.slice, ast.Slice)):
                    r4.check(False, m, n, "the pattern list is re-assigned sorted / through a set / sliced: recorded order or content is not preserved")
                else:
                    raise AnalysisError(f"{m.loc(n)}: unrecognised re-assignment of the pattern list: {vt[:80]}")
    dfl = p.funcs.get("ascmhl.ignore.default_ignore_list")
    folder = p.module_const(p.modules["ascmhl.__version__"], "ascmhl_folder_name")
    dv = None
    if dfl is not None:
        rets = [n for n in walk_no_nested(dfl.node) if isinstance(n, ast.Return)]
        dv = p.fold(rets[0].value, dfl) if len(rets) == 1 else None
    r4.instance(dfl, dfl.node if dfl else None, f"defaults {dv}")
    r4.check(isinstance(dv, list) and ".DS_Store" in dv and folder in dv, dfl, dfl.node if dfl else None, "default patterns do not contain .DS_Store and the ascmhl folder name", construct="default_ignore_list")
    # latest patterns = last generation
    lip = p.funcs.get("ascmhl.history.MHLHistory.latest_ignore_patterns")
    if lip is None:
        raise AnalysisError("latest_ignore_patterns not found")
    last = [n for n in walk_no_nested(lip.node) if isinstance(n, ast.Subscript) and norm(n.value).endswith("hash_lists")]
    r4.instance(lip, lip.node, "latest generation selector")
    r4.check(len(last) == 1 and norm(last[0].slice) == "-1", lip, lip.node, "latest_ignore_patterns does not read the last (= highest) generation", construct="hash_lists[-1]")

    # ------------------------------------------------------------------ R12.8
    r8 = report.rule("R12.8", "a pattern file contributes one pattern per line, the line unchanged except for its line terminator (blank lines skipped): patterns containing spaces stay whole", 1)
    pf = spec.methods.get("_append_patterns_from_file")
    if pf is None:
        cands = [m for m in spec.methods.values() if any("builtin:open" in tg for _, tg in p.calls[m.qual])]
        pf = cands[0] if len(cands) == 1 else None
    if pf is None:
        raise AnalysisError("pattern-file reader of MHLIgnoreSpec not found")
    r8.instance(pf, pf.node, "pattern file reader")
    txt = norm(pf.node)
    handle = None
    for n in walk_no_nested(pf.node):
        if isinstance(n, ast.withitem) and n.optional_vars is not None and isinstance(n.context_expr, ast.Call) and norm(n.context_expr.func) == "open":
            handle = norm(n.optional_vars)
    if handle is None:
        raise AnalysisError(f"{pf.qual}: pattern file is not opened in a with statement (unrecognised idiom)")
    harmful = []
    recognised = False
    for n in walk_no_nested(pf.node):
        if isinstance(n, ast.Call) and isinstance(n.func, ast.Attribute):
            if n.func.attr == "split" and (not n.args or (isinstance(n.args[0], ast.Constant) and n.args[0].value in (" ", None))) and handle in norm(n.func.value):
                harmful.append((n, "split() on whitespace breaks a pattern that contains a space into several patterns"))
            if n.func.attr in ("strip", "lstrip") and not n.args and any(isinstance(a, (ast.comprehension, ast.For)) or True for a in [0]) and "line" in norm(n.func.value):
                harmful.append((n, f".{n.func.attr}() removes leading blanks that are significant in a pattern"))
            if n.func.attr in ("lower", "upper", "casefold", "replace") and "line" in norm(n.func.value):
                harmful.append((n, f".{n.func.attr}() alters the pattern text"))
        if isinstance(n, (ast.GeneratorExp, ast.ListComp)) and len(n.generators) == 1 and norm(n.generators[0].iter) == handle:
            elt = norm(n.elt).replace('"', "'")
            tgt = norm(n.generators[0].target)
            if elt in (f"{tgt}.rstrip('\\n')", f"{tgt}.rstrip('\\r\\n')", f"{tgt}.rstrip('\\n\\r')", f"{tgt}[:-1]"):
                recognised = True
        if isinstance(n, ast.Call) and isinstance(n.func, ast.Attribute) and n.func.attr == "splitlines" and handle in norm(n.func.value):
            recognised = True
    for n, why in harmful:
        r8.check(False, pf, n, "pattern file parsing: " + why, construct=f"pattern file: {norm(n)[:60]}")
    if not harmful:
        if not recognised:
            raise AnalysisError(f"{pf.qual}: pattern file parsing idiom not recognised")
        r8.check(True, pf, pf.node, "")

    # ------------------------------------------------------------------ R12.5
    r5 = report.rule("R12.5", "at commit every written hash list gets MHLIgnoreSpec(<that history>.latest_ignore_patterns(), <session spec>.get_pattern_list()) before it is written (nested histories receive the parent run's patterns)", 1)
    commits = [f for f in p.funcs.values() if f.cls and f.name == "commit" and any(t.endswith("write_new_generation") for _, tg in p.calls[f.qual] for t in tg)]
    if not commits:
        raise AnalysisError("session commit not found")
    for cm in commits:
        g = cfg_of(cm)
        wcalls = [c for c, tg in p.calls[cm.qual] if any(t.endswith("write_new_generation") for t in tg)]
        stores = [n for n in walk_no_nested(cm.node) if isinstance(n, ast.Assign) and any(isinstance(t, ast.Attribute) and t.attr == "ignore_spec" for t in n.targets)]
        for wc in wcalls:
            r5.instance(cm, wc, norm(wc))
            hist = norm(wc.func.value) if isinstance(wc.func, ast.Attribute) else None
            good = False
            for st in stores:
                v = st.value
                if isinstance(v, ast.Call) and "class:" + SPEC in p.resolve_call(v, cm) and len(v.args) >= 2:
                    a0, a1 = norm(v.args[0]), norm(v.args[1])
                    written = norm(wc.args[0]) if wc.args else None
                    # the object whose ignore_spec is set is <written list>.process_info (directly or through a local alias)
                    same_list = False
                    base = st.targets[0].value
                    wsigs = {sig(o, 4) for o in pr.origins(wc.args[0], cm)} if wc.args else set()
                    for o in pr.origins(base, cm):
                        if o[0] == "attr" and o[2] == "process_info" and sig(o[1], 4) in wsigs:
                            same_list = True
                    if norm(st.targets[0]).split(".process_info")[0] == written:
                        same_list = True
                    if a0 == f"{hist}.latest_ignore_patterns()" and a1.endswith("ignore_spec.get_pattern_list()") and a1.startswith(cm.params[0] + ".") and same_list and g.dominates(g.node_for(st), g.node_for(wc)):
                        good = True
            r5.check(good, cm, wc, "a generation is written without the accumulated patterns (its history's latest patterns + this run's spec)")

    # ------------------------------------------------------------------ R12.6
    r6 = report.rule("R12.6", "round trip: the writer emits every pattern of the list in list order; the reader appends every <pattern> in document order to the list the new spec is built from", 2)
    em, mdoc, cdoc, raw = documents(p)
    reps = []
    for el in walk_elems(mdoc):
        if el.tag == "ignore":
            for c in el.children:
                for r in ([c] if isinstance(c, Rep) else [x for x in getattr(c, "items", []) if isinstance(x, Rep)]):
                    reps.append((el, r))
    for el, r in reps:
        r6.instance(r.func, r.loop, f"<ignore> loop over {norm(r.loop.iter)}")
        it = r.loop.iter
        from .common import resolve_local_iterable

        it = resolve_local_iterable(r.func, it)
        plain = isinstance(it, ast.Call) and isinstance(it.func, ast.Attribute) and it.func.attr == "get_pattern_list" and not it.args
        body_ok = len(r.items) == 1 and isinstance(r.items[0], Elem) and r.items[0].tag == "pattern" and r.items[0].text is not None and norm(r.items[0].text[0]) == norm(r.loop.target)
        r6.check(plain and body_ok, r.func, r.loop, "the <ignore> writer does not emit each pattern of get_pattern_list() in order")
    # ------------------------------------------------------------------ R12.11
    r11 = report.rule(
        "R12.11",
        "every manifest carries its <ignore> element: in the writer's document model the element is emitted on every path (the schema allows to leave it out - a manifest "
        "without it is read back with the default patterns only, so the patterns in force are lost for whoever reads that manifest: the next generation, verify -pl of a packing list)",
        1,
    )

    def _must_emit(item, tag):
        if isinstance(item, Elem):
            return item.tag == tag or any(_must_emit(c, tag) for c in item.children)
        if isinstance(item, Alt):
            return all(any(_must_emit(c, tag) for c in br) for br in item.branches)
        if isinstance(item, (list, tuple)):
            return any(_must_emit(c, tag) for c in item)
        return False  # Opt / Rep: may be absent

    ign = [el for el in walk_elems(mdoc) if el.tag == "ignore"]
    for el in ign:
        r11.instance(el.func, el.node, "<ignore>")
    if ign:
        # the innermost optional wrapper that makes it avoidable, for the report
        def _why(item, trail):
            if isinstance(item, Elem):
                if item.tag == "ignore":
                    return trail
                for c in item.children:
                    w = _why(c, trail)
                    if w is not None:
                        return w
            elif isinstance(item, Opt):
                for c in item.items:
                    w = _why(c, trail + [item.guard.text()])
                    if w is not None:
                        return w
            elif isinstance(item, Rep):
                for c in item.items:
                    w = _why(c, trail + ["one iteration of " + norm(item.loop.iter)[:40]])
                    if w is not None:
                        return w
            elif isinstance(item, Alt):
                for i, br in enumerate(item.branches):
                    if not any(_must_emit(c, "ignore") for c in br):
                        return trail + [f"alternative {i + 1} of {len(item.branches)} of the builder has no <ignore>"]
            return None

        ok11 = _must_emit(mdoc, "ignore")
        w = None if ok11 else _why(mdoc, [])
        r11.check(ok11, ign[0].func, ign[0].node, f"the <ignore> element is only written under a condition ({'; '.join(w or ['?'])[:160]}): a manifest written when it does not hold has no ignore patterns, the reader substitutes the defaults and files the history deliberately ignores are reported as new (verify -pl on a packing list, the next create)", construct="<ignore> emitted conditionally")
    else:
        r11.check(False, None, None, "the manifest writer emits no <ignore> element at all", construct="no <ignore> element")
    gpl = spec.methods.get("get_pattern_list")
    rets = [n for n in walk_no_nested(gpl.node) if isinstance(n, ast.Return)] if gpl else []
    r6.check(len(rets) == 1 and norm(rets[0].value) in ("self._ignore_list.copy()", "self._ignore_list", "list(self._ignore_list)"), gpl, gpl.node if gpl else None, "get_pattern_list does not return the list as it is", construct="get_pattern_list")
    rd = p.funcs.get("ascmhl.hashlist_xml_parser.parse")
    if rd is None:
        raise AnalysisError("manifest reader not found")
    apps = [n for n in walk_no_nested(rd.node) if isinstance(n, ast.Call) and isinstance(n.func, ast.Attribute) and n.func.attr == "append" and n.args and "element.text" in norm(n.args[0]) and "pattern" in norm(_enclosing_if(n))]
    if not apps:
        elsewhere = [f_ for f_ in p.funcs.values() if f_.module is rd.module and f_ is not rd and any(isinstance(n, ast.Call) and isinstance(n.func, ast.Attribute) and n.func.attr == "append" and n.args and "element.text" in norm(n.args[0]) for n in walk_no_nested(f_.node))]
        if elsewhere:
            raise AnalysisError(f"manifest reader: <pattern> texts are collected in {elsewhere[0].qual}, not in the reader's event loop; reader structure not modelled")
    r6.instance(rd, apps[0] if apps else rd.node, "reader pattern append")
    if apps:
        # the text of an EMPTY element is None for lxml: a pattern list must never receive None (the writer hands every pattern to E.pattern(), which
        # accepts strings only - the next create would abort while writing its manifest, for ever)
        a0_ = apps[0].args[0]
        none_safe = (isinstance(a0_, ast.BoolOp) and isinstance(a0_.op, ast.Or) and isinstance(a0_.values[-1], ast.Constant) and isinstance(a0_.values[-1].value, str)) or (isinstance(a0_, ast.IfExp) and "element.text" in norm(a0_.test))
        if not none_safe:
            from .common import atomic_deps as _ad12

            g12 = cfg_of(rd)
            none_safe = any((a_ == "element.text" and l_ == "T") or (a_ == "element.text is None" and l_ == "F") for t_, lb_ in g12.necessary_branches(g12.node_for(apps[0])) for a_, l_ in _ad12(t_.ast, lb_))
        r6.check(none_safe, rd, apps[0], "the reader appends `element.text` of a <pattern> element as it is: for an empty element (`create -i \"\"`, or a manifest of another tool with <pattern/>) that is None, the list of patterns of the latest generation then contains None and EVERY later create aborts with TypeError while writing its manifest (a .mhl.tmp is left behind each time)", construct="reader puts None into the pattern list for an empty <pattern>")
    ok = len(apps) == 1
    if ok:
        lst = norm(apps[0].func.value)
        uses = [n for n in walk_no_nested(rd.node) if isinstance(n, ast.Call) and "class:" + SPEC in p.resolve_call(n, rd) and n.args and norm(n.args[0]) == lst]
        ok = len(uses) == 1 and isinstance(parent(uses[0]), ast.Assign) and "ignore_spec" in norm(parent(uses[0]).targets[0])
    r6.check(ok, rd, apps[0] if apps else rd.node, "the reader does not collect every <pattern> text in document order into the spec of the parsed hash list", construct="reader patterns")

    # ------------------------------------------------------------------ R12.7
    r7 = report.rule("R12.7", "an ignored name reaches nothing: in the traversal's listing loop every iteration that does not add the name to the yielded children took the ignore-match branch", 1)
    for t in travs:
        g = cfg_of(t)
        for n in g.nodes:
            if n.kind == "loop" and isinstance(n.ast, ast.For):
                sinks = [x for s in n.ast.body for x in ast.walk(s) if isinstance(x, ast.Call) and isinstance(x.func, ast.Attribute) and x.func.attr == "append"]
                if not sinks or not any("match_file" in norm(s) for s in n.ast.body):
                    continue
                r7.instance(t, n.ast, f"for {norm(n.ast.target)} in {norm(n.ast.iter)}")
                sink_ids = {g.node_for(s).id for s in sinks}
                from .common import resolved_path_conditions

                for kind, conds, trail in loop_iteration_paths(g, n):
                    passed = any(x.id in sink_ids for x in trail)
                    # names bound on the path (the result variable of an inlined `is ignored` helper) are put back; contradictory paths are no paths
                    conds, feasible = resolved_path_conditions(g, trail)
                    if not feasible:
                        continue
                    if kind == "back" and not passed:
                        took_match = any("match_file" in norm(c) and l == "T" for c, l in conds if not isinstance(c, (ast.For, ast.While)))
                        r7.check(took_match, t, trail[-2].ast if len(trail) > 1 else n.ast, "a listed name is dropped from the traversal although it did not match the ignore patterns", witness=g.fmt_path(trail), construct=f"drop: {[ (norm(c)[:50], l) for c, l in conds if not isinstance(c, (ast.For, ast.While))]}")
                    elif kind == "back":
                        took_match = any("match_file" in norm(c) and l == "T" for c, l in conds if not isinstance(c, (ast.For, ast.While)))
                        r7.check(not took_match, t, n.ast, "a name that matched the ignore patterns is still added to the traversal", witness=g.fmt_path(trail), construct="ignored name kept")
                    elif kind != "raise":
                        r7.check(False, t, trail[-2].ast if len(trail) > 1 else n.ast, f"the listing loop can be left early ({kind})", witness=g.fmt_path(trail))

    # ---- rules shared with other properties (same mechanism, same rule, reported under every property it can break)
    include_rules(report, p, 'c02', ['R2.1'], 'ignored names are dropped (and only those) inside the traversal')
    include_rules(report, p, 'c03', ['R3.10'], 'the latest generation and its spec are looked up with presence tests; a class that gains __len__ turns them into emptiness tests and recorded patterns are dropped')
    include_rules(report, p, 'c13', ['R13.2'], 'patterns are matched against the path relative to the sealed root (not to the working directory or a sub-folder), in the traversal and in the missing-file filter alike')
    report.not_decided += ["pathspec matching semantics for concrete patterns", "that ignored entries are absent from concrete record sets / directory hashes at run time"]


def _ancestors12(n):
    x = parent(n)
    while x is not None:
        yield x
        x = parent(x)


def _enclosing_if(n):
    x = parent(n)
    while x is not None and not isinstance(x, ast.If):
        x = parent(x)
    return x.test if x is not None else ast.Constant(value=None)


def _in(node, func):
    x = node
    while x is not None:
        if x is func.node:
            return True
        x = parent(x)
    return False


def _missing_report_stages(p, pr, r9):
    """def-use chain from MHLHistory.set_of_file_paths() to the collection that is reported as missing; stages SOURCE / RENAME / FILTER / MINUS / MAP"""
    from sa.flow import defs_of

    reporters = [f for f in p.funcs.values() if f.module.name.endswith("commands") and any(isinstance(n, ast.Call) and norm(n.func).endswith("CompletenessCheckFailedException") for n in walk_no_nested(f.node)) and "missing file" in norm(f.node)]
    if len(reporters) != 1:
        raise AnalysisError(f"function reporting missing files not found: {[f.qual for f in reporters]}")
    rep = reporters[0]

    def comp_stage(comp):
        st = []
        gen = comp.generators[0]
        if any("match_file" in norm(i) for i in gen.ifs):
            st.append("FILTER")
        elt = comp.elt if not isinstance(comp, ast.DictComp) else comp.value
        if any(isinstance(x, ast.Call) and isinstance(x.func, ast.Attribute) and x.func.attr == "get" for x in ast.walk(elt)) or any(isinstance(x, ast.Subscript) for x in ast.walk(elt)):
            st.append("RENAME")
        if not st and norm(elt) != norm(gen.target):
            st.append("MAP")
        return st

    def chain(f, e, node, binding, depth):
        """list of alternative stage lists (source first)"""
        if depth > 12:
            return [["?depth"]]
        if isinstance(e, ast.Name):
            if e.id in f.params + f.kwonly and not [d for d in defs_of(f).reaching(e.id, node) if d[2] != "param"] if node is not None else False:
                pass
            dd = defs_of(f)
            g = cfg_of(f)
            try:
                cands = dd.reaching(e.id, node) if node is not None else []
            except Exception:
                cands = []
            out = []
            for (nm, nid, kind, value, pth, idx) in cands:
                dn = g.nodes[nid] if isinstance(nid, int) and nid < len(g.nodes) else None
                if kind == "param" or value is None and e.id in f.params:
                    if binding is not None and e.id in binding:
                        cf, arg, cn = binding[e.id]
                        out += chain(cf, arg, cn, None, depth + 1)
                    else:
                        for cq, call in p.callers.get(f.qual, []):
                            cf = p.funcs[cq]
                            arg = p.bind_args(f, call).get(e.id)
                            if arg is not None and any(arg is x for x in list(call.args) + [k.value for k in call.keywords]):
                                out += chain(cf, arg, cfg_of(cf).node_for(call), None, depth + 1)
                    continue
                if value is None:
                    out.append(["?" + kind])
                    continue
                st = dn.ast if dn is not None else None
                if isinstance(st, ast.AugAssign):
                    out += [c + ["MINUS"] for c in chain(f, st.target, _prev(g, dn), binding, depth + 1)]
                    continue
                out += chain(f, value, dn, binding, depth + 1)
            return out or [["?undefined " + e.id]]
        if isinstance(e, (ast.SetComp, ast.ListComp, ast.GeneratorExp)):
            if len(e.generators) != 1:
                return [["?comprehension"]]
            return [c + comp_stage(e) for c in chain(f, e.generators[0].iter, node, binding, depth + 1)]
        if isinstance(e, ast.BinOp) and isinstance(e.op, ast.Sub):
            return [c + ["MINUS"] for c in chain(f, e.left, node, binding, depth + 1)]
        if isinstance(e, ast.Call):
            nm = norm(e.func)
            if nm.endswith(".set_of_file_paths"):
                return [["SOURCE"]]
            if nm in ("list", "set", "sorted", "tuple", "frozenset") and len(e.args) == 1:
                return chain(f, e.args[0], node, binding, depth + 1)
            tg = [t for c2, ts in p.calls.get(f.qual, []) if c2 is e for t in ts if t in p.funcs]
            if len(tg) == 1:
                h = p.funcs[tg[0]]
                b = {pn: (f, arg, node) for pn, arg in p.bind_args(h, e).items() if arg is not None and any(arg is x for x in list(e.args) + [k.value for k in e.keywords])}
                out = []
                for rt in [n for n in walk_no_nested(h.node) if isinstance(n, ast.Return) and n.value is not None]:
                    out += chain(h, rt.value, cfg_of(h).node_for(rt), b, depth + 1)
                return out or [["?no return"]]
        return [["?" + norm(e)[:40]]]

    def _prev(g, dn):
        return dn

    # the collection that is reported: iterable of the loop that logs the paths, inside the reporter
    loops = [n for n in walk_no_nested(rep.node) if isinstance(n, ast.For) and any(isinstance(x, ast.Call) and norm(x.func).endswith("logger.error") for x in ast.walk(n))]
    if len(loops) != 1:
        raise AnalysisError(f"{rep.qual}: loop logging the missing paths not found")
    r9.instance(rep, loops[0], f"reported collection `{norm(loops[0].iter)}` in {rep.name}")
    chains = chain(rep, loops[0].iter, cfg_of(rep).node_for(loops[0].iter), None, 0)
    seen = set()
    for c in chains:
        key = tuple(c)
        if key in seen:
            continue
        seen.add(key)
        r9.instance(rep, loops[0], " -> ".join(c))
        if any(x.startswith("?") for x in c):
            if not any(rr.findings for rr in [r9]):
                raise AnalysisError(f"{rep.qual}: cannot follow the reported collection back to the recorded paths: {' -> '.join(c)}")
            continue
        has_f = "FILTER" in c
        r9.check(has_f, rep, loops[0], f"recorded paths reach the 'missing file(s)' report without passing the ignore filter ({' -> '.join(c)}): ignored paths are reported as missing", construct=f"no ignore filter on chain {' -> '.join(c)}")
        if has_f:
            after = c[c.index("FILTER") + 1:]
            r9.check("RENAME" not in after, rep, loops[0], f"the rename rewrite is applied after the ignore filter ({' -> '.join(c)}): a file renamed to an ignored name is filtered under its OLD name, comes back under the new one and is reported as missing", construct="rename rewrite after the ignore filter")


def _single_def(f, name):
    binds = [n for n in walk_no_nested(f.node) if isinstance(n, ast.Assign) and len(n.targets) == 1 and isinstance(n.targets[0], ast.Name) and n.targets[0].id == name]
    return binds[0].value if len(binds) == 1 else None


def _maps_all(f, e, param, depth=0) -> bool:
    """`e` enumerates every element of parameter `param`, possibly mapped one-to-one (comprehension without `if`, list/tuple/sorted/map)"""
    if depth > 4:
        return False
    if isinstance(e, ast.Name):
        if e.id == param:
            return True
        v = _single_def(f, e.id)
        return v is not None and _maps_all(f, v, param, depth + 1)
    if isinstance(e, (ast.ListComp, ast.GeneratorExp)) and len(e.generators) == 1 and not e.generators[0].ifs:
        return _maps_all(f, e.generators[0].iter, param, depth + 1)
    if isinstance(e, ast.Call) and norm(e.func) in ("list", "tuple", "sorted", "iter") and len(e.args) == 1:
        return _maps_all(f, e.args[0], param, depth + 1)
    if isinstance(e, ast.Call) and norm(e.func) == "map" and len(e.args) == 2:
        return _maps_all(f, e.args[1], param, depth + 1)
    return False


def _feeds(f, name_node, it) -> bool:
    """the read of the parameter is the one inside the one-to-one mapping that feeds the filter"""
    x = parent(name_node)
    while x is not None and not isinstance(x, ast.stmt):
        x = parent(x)
    return isinstance(it, ast.Name) and isinstance(x, ast.Assign) and len(x.targets) == 1 and isinstance(x.targets[0], ast.Name) and x.targets[0].id == it.id


def finish(report):
    return report.finish(
        level="other",
        explanation="provenance of the spec handed to every traversal and to the missing-file filter, dead-option detection for -i/-ii, CFG order and mutation-site "
        "enumeration of the pattern accumulation, dominance of propagation over the write in commit, writer/reader loop coverage for <ignore>.",
    )
