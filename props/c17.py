"""C17 - renamed files keep their identity when rename detection is on (structural clauses)."""
from __future__ import annotations

import ast

from sa.cfg import cfg_of
from sa.emit import Elem, Opt, walk_elems
from sa.flow import show, sig, subterms
from sa.model import AnalysisError, norm, parent, walk_no_nested

from .common import atomic_deps, rename_rewrite_ok, rename_rewrite_sites, alts, callers_of, commands, is_call, is_plain_iter, need, prov
from .c03 import pipeline_funcs, tfm_func, traversal_loop
from .xmlcommon import documents


def run(report, p):
    pr = prov(p)
    cmds = commands(p)
    report.assume("pairwise distinct file contents among the renamed files (the property's premise)")
    from .common import include_rules as _inc17

    _inc17(report, p, 'c03', ['R3.1'], 'after create -dr accepted a tree, verify / diff / create must expect each renamed file under its NEW name: the expected set of all three is the recorded paths of the whole history rewritten through the history-wide rename map')

    # ------------------------------------------------------------------ R17.1
    r1 = report.rule("R17.1", "persistence: a set previous path is written as <previousPath> (POSIX), parsed back into previous_path, and the record is indexed under both its path and its previous path", 3)
    em, mdoc, cdoc, raw = documents(p)
    n_prev = 0
    for el in walk_elems(mdoc):
        if el.tag in ("hash", "directoryhash"):
            for c in el.children:
                if isinstance(c, Opt) and any(isinstance(x, Elem) and x.tag == "previousPath" for x in c.items):
                    n_prev += 1
                    pe = next(x for x in c.items if isinstance(x, Elem) and x.tag == "previousPath")
                    r1.instance(pe.func, pe.node, f"<{el.tag}>/<previousPath> under {c.guard.text()}")
                    okg = c.guard.polarity and norm(c.guard.test).endswith(".previous_path") or norm(c.guard.test).endswith(".previous_path is not None")
                    okt = pe.text is not None and norm(pe.text[0]).replace(" ", "") == f"convert_local_path_to_posix({norm(c.guard.test).split(' ')[0]})"
                    r1.check(okg and okt, pe.func, pe.node, "<previousPath> is not written exactly when previous_path is set, from previous_path converted to POSIX", construct=f"<{el.tag}>/<previousPath>")
                elif isinstance(c, Elem) and c.tag == "previousPath":
                    r1.check(False, c.func, c.node, "<previousPath> is written unconditionally", construct=f"<{el.tag}>/<previousPath> unconditional")
    if n_prev < 2:
        r1.check(False, None, None, "the writers do not emit <previousPath> for renamed records", construct="previousPath emission")
    rd = p.funcs.get("ascmhl.hashlist_xml_parser.parse")
    st = [n for n in walk_no_nested(rd.node) if isinstance(n, ast.Assign) and isinstance(n.targets[0], ast.Attribute) and n.targets[0].attr == "previous_path"]
    r1.instance(rd, st[0] if st else rd.node, "reader previous path")
    okr = len(st) == 1 and norm(st[0].value) == "convert_posix_to_local_path(element.text)"
    if okr:
        deps = [(norm(t.ast).replace('"', "'"), l) for t, l in cfg_of(rd).control_deps(cfg_of(rd).node_for(st[0]), transitive=False) if t.kind == "test"]
        okr = deps == [("tag == 'previousPath'", "T")]
    r1.check(okr, rd, st[0] if st else rd.node, "the reader does not assign the text of <previousPath> (converted to local form) to previous_path", construct="reader previousPath")
    ah = p.funcs.get("ascmhl.hashlist.MHLHashList.append_hash")
    if ah is None:
        raise AnalysisError("MHLHashList.append_hash not found")
    r1.instance(ah, ah.node, "index")
    stores = [n for n in walk_no_nested(ah.node) if isinstance(n, ast.Assign) and isinstance(n.targets[0], ast.Subscript) and "path_map" in norm(n.targets[0].value)]
    keys = sorted(norm(n.targets[0].slice) for n in stores)
    mh = ah.params[1]
    r1.check(keys == sorted([f"{mh}.path", f"{mh}.previous_path or {mh}.path"]) and all(norm(n.value) == mh for n in stores) and all(not [t for t, l in cfg_of(ah).control_deps(cfg_of(ah).node_for(n)) if t.kind == "test"] for n in stores), ah, ah.node, f"a record is not indexed under both its path and its previous path (keys {keys})", construct="path map keys")
    for name in ("ascmhl.hashlist.MHLHashList.renamed_path_with_previous_path", "ascmhl.history.MHLHistory.renamed_path_with_previous_path"):
        f = p.funcs.get(name)
        if f is None:
            raise AnalysisError(name + " not found")
        for n in walk_no_nested(f.node):
            if isinstance(n, ast.For):
                r1.instance(f, n, f"for {norm(n.target)} in {norm(n.iter)}")
                r1.check(is_plain_iter(p, n.iter), f, n.iter, "the rename map is built from a slice / filtered view", construct=n.iter)
        if name.endswith("MHLHistory.renamed_path_with_previous_path"):
            its = [norm(n.iter) for n in walk_no_nested(f.node) if isinstance(n, ast.For)]
            r1.check(any(x.endswith("hash_lists") for x in its) and any(x.endswith("child_histories") for x in its), f, f.node, "the rename map does not cover all generations and all child histories", construct="rename map coverage")
            # members of the returned map: whole per-generation maps and whole child maps; a single value written into it must be a path
            # (an element of such a map, or a lookup with a path default) - never a lookup that yields None for an absent key
            for rt in [n for n in walk_no_nested(f.node) if isinstance(n, ast.Return) and n.value is not None]:
                for o in pr.origins(rt.value, f):
                    for a in alts(o):
                        if not (a[0] == "op" and a[1] == "collect-dict"):
                            raise AnalysisError(f"{f.loc(rt)}: the history-level rename map is not a dict filled in this function: {show(a)[:100]}")
                        for m in a[2]:
                            if m[0] == "op" and m[1] == "allof":
                                okm = all(x[0] == "call" and x[1].endswith("renamed_path_with_previous_path") for x in m[2])
                                r1.check(okm, f, rt, f"the rename map is merged with something that is not a per-generation / child rename map: {show(m)[:100]}", construct="rename map member")
                                continue
                            vals = m[2] if (m[0] == "op" and m[1] == "elemof") else [m]
                            for v in vals:
                                for vv in alts(v):
                                    if vv[0] == "call" and vv[1].split(".")[-1] in ("get", "pop") and (vv[1].startswith(("extm:", "unk:", "builtinm:")) or "dict" in vv[1]):
                                        if len(vv[2]) < 2:
                                            r1.check(False, f, rt, f"a value of the rename map comes from `{show(vv)[:80]}`, which is None for a path that was not renamed again: the expected-path rewrite then yields None instead of a path", construct="rename map value can be None (.get without default)")
                                        continue
                                    if vv[0] == "elem" or (vv[0] == "call" and vv[1] == "ext:os.path.join"):
                                        continue
                                    raise AnalysisError(f"{f.loc(rt)}: a value written into the rename map has a source this checker does not model: {show(vv)[:120]}")
        else:
            # {join(root, previous path): join(root, current path)} as a filling loop or as a dict comprehension
            st2 = [n for n in walk_no_nested(f.node) if isinstance(n, ast.Assign) and isinstance(n.targets[0], ast.Subscript)]
            comps = [n for n in walk_no_nested(f.node) if isinstance(n, ast.DictComp)]
            pairs = [(n.targets[0].slice, n.value, n) for n in st2] + [(c.key, c.value, c) for c in comps]
            ok = len(pairs) == 1 and "previous_path" in norm(pairs[0][0]) and norm(pairs[0][1]).endswith(".path)") and "previous_path" not in norm(pairs[0][1])
            r1.check(ok, f, pairs[0][2] if pairs else f.node, "the rename map is not {previous path -> current path}", construct="rename map direction")
            for c in comps:
                gen = c.generators[0]
                r1.instance(f, c, f"for {norm(gen.target)} in {norm(gen.iter)} (comprehension)")
                r1.check(len(c.generators) == 1 and is_plain_iter(p, gen.iter), f, gen.iter, "the rename map is built from a slice / filtered view", construct=gen.iter)
                okf = all(norm(i).replace(" ", "") in (f"{norm(gen.target)}.previous_pathisnotNone", f"{norm(gen.target)}.previous_path!=None", f"{norm(gen.target)}.previous_path") for i in gen.ifs)
                r1.check(okf, f, c, "records are left out of the rename map by a condition other than 'has no previous path'", construct="rename map filter")

    # the three path spellings must agree: elements of the expected set, keys and values of the rename map are built by the same expression
    # over (root, record path) - otherwise a lookup of an expected path in the rename map misses for roots that are not in normal form
    hl_set = p.funcs.get("ascmhl.hashlist.MHLHashList.set_of_file_paths")
    hl_ren = p.funcs.get("ascmhl.hashlist.MHLHashList.renamed_path_with_previous_path")
    if hl_set is None or hl_ren is None:
        raise AnalysisError("MHLHashList.set_of_file_paths / renamed_path_with_previous_path not found")

    def canon_expr(f, e, loop_var, field_from=None):
        t = ast.parse(norm(e), mode="eval").body
        for n in ast.walk(t):
            if isinstance(n, ast.Name) and n.id == loop_var:
                n.id = "REC"
            elif isinstance(n, ast.Name) and n.id in f.params[1:2]:
                n.id = "ROOT"
            if field_from and isinstance(n, ast.Attribute) and n.attr == field_from:
                n.attr = "path"
        return norm(t)

    def loop_var_of(f, node):
        for a in _anc(node):
            if isinstance(a, ast.For):
                return norm(a.target)
            if isinstance(a, (ast.SetComp, ast.DictComp, ast.ListComp, ast.GeneratorExp)):
                return norm(a.generators[0].target)
        return None

    elems = []
    for n in walk_no_nested(hl_set.node):
        if isinstance(n, ast.Call) and isinstance(n.func, ast.Attribute) and n.func.attr == "add" and n.args:
            elems.append((n.args[0], loop_var_of(hl_set, n)))
        if isinstance(n, ast.SetComp):
            elems.append((n.elt, norm(n.generators[0].target)))
    pairs2 = []
    for n in walk_no_nested(hl_ren.node):
        if isinstance(n, ast.Assign) and isinstance(n.targets[0], ast.Subscript):
            pairs2.append((n.targets[0].slice, n.value, loop_var_of(hl_ren, n)))
        if isinstance(n, ast.DictComp):
            pairs2.append((n.key, n.value, norm(n.generators[0].target)))
    r1.instance(hl_ren, hl_ren.node, "path spelling: expected set vs rename map")
    if len(elems) != 1 or len(pairs2) != 1 or elems[0][1] is None or pairs2[0][2] is None:
        raise AnalysisError("expected-set element / rename-map entry expressions not found in their single form")
    e_txt = canon_expr(hl_set, elems[0][0], elems[0][1])
    k_txt = canon_expr(hl_ren, pairs2[0][0], pairs2[0][2], "previous_path")
    v_txt = canon_expr(hl_ren, pairs2[0][1], pairs2[0][2])
    r1.check(e_txt == k_txt == v_txt, hl_ren, pairs2[0][0], f"expected paths are spelled `{e_txt}` but rename-map keys `{k_txt}` / values `{v_txt}`: for a root that is not in normal form ('.', './x', 'a/../x') the rewrite of the expected set misses and renamed files are reported missing", construct="path spelling differs between expected set and rename map")

    # ------------------------------------------------------------------ R17.2 (sibling rewrite; shared with C03 R3.1)
    r2 = report.rule("R17.2", "one rewrite, three commands: create, verify and diff map the expected set through the same {p -> renamed[p] if renamed else p} comprehension over history.renamed_path_with_previous_path()", 3)
    tfm = tfm_func(p)
    n_ok = 0
    for f, call in pipeline_funcs(p, tfm):
        sites = rename_rewrite_sites(p, pr, f)
        r2.instance(f, sites[0][1] if sites else f.node, f.name)
        arg0 = call.args[0] if call.args else None
        direct = arg0 is not None and any(is_call(o, "set_of_file_paths") for o in pr.origins(arg0, f))
        if not sites and direct:
            r2.check(False, f, call, "the recorded paths go to the missing-file check without being mapped through the rename map: every file renamed under -dr is reported missing by this command", construct="expected set without rename rewrite")
            continue
        if len(sites) != 1:
            raise AnalysisError(f"{f.qual}: expected exactly one rename rewrite of the expected set, found {len(sites)}")
        okrw, why = rename_rewrite_ok(p, pr, sites[0][0], sites[0][1])
        n_ok += 1
        r2.check(okrw, sites[0][0], sites[0][1], "the expected set is not rewritten as {new path of p if p was renamed, else p}: " + why, construct="rename rewrite shape")
    r2.check(n_ok >= 3, None, None, "not every one of create / verify / diff rewrites its expected set through the rename map", construct="sibling rewrite")

    # ------------------------------------------------------------------ R17.3
    r3 = report.rule("R17.3", "verify (and diff) follow the previous path: for the record whose path equals the traversed file's path the lookup of the original entry uses `previous_path or path`", 2)
    for f, call in pipeline_funcs(p, tfm):
        if "detect_renaming" in f.params:
            continue
        g = cfg_of(f)
        lk = [c for c, tg in p.calls[f.qual] if any(t.endswith("find_original_hash_entry_for_path") for t in tg)]
        for c in lk:
            r3.instance(f, c, norm(c)[:80])
            v = norm(c.args[0])
            upd = [n for n in walk_no_nested(f.node) if isinstance(n, ast.Assign) and norm(n.targets[0]) == v and isinstance(n.value, ast.BoolOp) and isinstance(n.value.op, ast.Or)]
            ok = len(upd) == 1 and norm(upd[0].value.values[0]).endswith(".previous_path") and norm(upd[0].value.values[1]) == v
            if ok:
                rec = norm(upd[0].value.values[0]).rsplit(".", 1)[0]
                deps = [(norm(t.ast), l) for t, l in g.control_deps(g.node_for(upd[0]), transitive=False) if t.kind == "test"]
                ok = deps in ([(f"{rec}.path != {v}", "F")], [(f"{rec}.path == {v}", "T")]) and g.node_for(c).id in g.reachable_from([g.node_for(upd[0])])
                lp = next((a for a in _anc(upd[0]) if isinstance(a, ast.For)), None)
                ok = ok and lp is not None and norm(lp.iter).endswith(".media_hashes") and is_plain_iter(p, lp.iter)
                # ... of every generation: the record that carries the previous path can be in any of them
                gl_ = next((a for a in _anc(lp) if isinstance(a, ast.For)), None) if lp is not None else None
                if ok and gl_ is not None and norm(gl_.iter).endswith(".hash_lists") or (ok and gl_ is not None and "hash_lists" in norm(gl_.iter)):
                    r3.check(is_plain_iter(p, gl_.iter), f, gl_.iter, f"the record that carries the previous path is searched in `{norm(gl_.iter)[:50]}` only, not in every generation: a rename recorded in a generation outside it is not followed and the file is reported as new", construct="previous-path search over part of the generations")
                    # ... of the history the path is relative to: the path was routed to `<history>`, whose lookup is called; the records of another
                    # history (the root's, for a file of a nested history) carry names relative to that other history
                    owner = norm(c.func.value) if isinstance(c.func, ast.Attribute) else None
                    if owner is not None and is_plain_iter(p, gl_.iter) and norm(gl_.iter).endswith(".hash_lists"):
                        searched = norm(gl_.iter)[: -len(".hash_lists")]
                        r3.check(searched == owner, f, gl_.iter, f"the record that carries the previous path is searched in the generations of `{searched}`, but the path is relative to `{owner}` (whose original entry is then looked up): for a file of a nested history the root's records are matched by a path that means another file there - a root file renamed to the same relative name (root/b.txt from c.txt, N/b.txt) makes verify / diff look up `c.txt` in N and report N/b.txt as a new file", construct="previous-path search in another history than the lookup")
            r3.check(ok, f, c, "the original entry is looked up without following the record's previous path (a renamed file would be reported as new / never verified against its first digest)", construct="lookup follows previous_path")

    # ------------------------------------------------------------------ R17.4
    r4 = report.rule(
        "R17.4",
        "a previous path is only ever assigned under -dr and under equality of two digests of the SAME format: the not-found record's first entry versus the new record's entry of that format, "
        "or versus a digest of the new file computed right there in that format (not a cached value); the matched old path is taken out of the missing set - "
        "and whenever it is, the previous path is recorded (extra conditions on the store may only select which record receives it)",
        1,
    )
    cf = next((f for f, _ in pipeline_funcs(p, tfm) if "detect_renaming" in f.params), None)
    if cf is None:
        raise AnalysisError("create folder command not found")
    g = cfg_of(cf)
    stores = [n for n in walk_no_nested(cf.node) if isinstance(n, ast.Assign) and isinstance(n.targets[0], ast.Attribute) and n.targets[0].attr == "previous_path"]
    if len(stores) < 1:
        raise AnalysisError("create: previous_path assignments not found")
    for st in stores:
        r4.instance(cf, st, norm(st)[:90])
        sn = g.node_for(st)
        deps = [(t.ast, l) for t, l in g.control_deps(sn) if t.kind == "test"]
        texts = [(norm(t), l) for t, l in deps]
        r4.check(any(t == "detect_renaming" and l == "T" for t, l in texts), cf, st, "previous_path is assigned outside rename detection (-dr)", construct="previous_path without -dr")
        eqs = [(t, l) for t, l in deps if isinstance(t, ast.Compare) and len(t.ops) == 1 and isinstance(t.ops[0], (ast.Eq, ast.NotEq)) and "hash_string" in norm(t)]
        ok = False
        why = "no digest equality test guards the assignment"
        for t, l in eqs:
            if not ((isinstance(t.ops[0], ast.Eq) and l == "T") or (isinstance(t.ops[0], ast.NotEq) and l == "F")):
                why = "the digest comparison guards the assignment with the wrong polarity"
                continue
            sides = [t.left, t.comparators[0]]
            old = next((s for s in sides if norm(s).endswith(".hash_string") and any(o[0] == "attr" and o[2] == "hash_string" and is_call(o[1], "find_first_hash_entry_for_path") for o in pr.origins(s, cf))), None)
            new = next((s for s in sides if s is not old), None)
            if old is None or new is None:
                why = "the comparison is not against the not-found record's first recorded digest"
                continue
            old_entry = norm(old).rsplit(".", 1)[0]
            good = True
            for o in pr.origins(new, cf):
                if o[0] == "attr" and o[2] == "hash_string" and is_call(o[1], "find_hash_entry_for_format"):
                    fa = o[1][2][0] if o[1][2] else None
                    if not (fa is not None and fa[0] == "attr" and fa[2] == "hash_format" and any(is_call(x, "find_first_hash_entry_for_path") for x in subterms(fa))):
                        good, why = False, "the new record's entry is not selected by the old entry's format"
                elif is_call(o, "hasher.hash_file") and len(o[2]) >= 2:
                    fa = o[2][1]
                    if not (fa[0] == "attr" and fa[2] == "hash_format" and any(is_call(x, "find_first_hash_entry_for_path") for x in subterms(fa))):
                        good, why = False, "the new file is re-hashed in a format other than the old entry's"
                else:
                    good = False
                    why = f"the digest compared for the new path is `{show(o)[:120]}`: not a digest of the new file computed here in the old entry's format (a value cached per path can belong to another format)"
            ok = ok or good
        r4.check(ok, cf, st, "previous_path is assigned although " + why, construct=f"previous_path guard: {why[:80]}")
        # the matched old path leaves the missing set
        adds = [g.node_for(c) for c, tg in p.calls[cf.qual] if isinstance(c.func, ast.Attribute) and c.func.attr == "add" and "found" in norm(c.func.value)]
        stops = {h.id for h in g.nodes if h.kind == "loop"} | {g.exit.id}
        path = g.find_path(sn, stops, avoid={a.id for a in adds})
        r4.check(bool(adds) and path is None, cf, st, "a detected rename does not take the old path out of the set of missing files", witness=g.fmt_path(path) if path else None, construct="matched path not subtracted")
        # ... and conversely: whenever the match takes the old path out of the missing set, the previous path is recorded. The store may sit under
        # additional tests that only select WHICH record receives it (root entry of a nested history / that record exists), nothing else
        def iter_atoms(node):
            out = []
            for t, l in g.control_deps(node, through_loops=False):
                if t.kind == "test":
                    out += [(a, t.ast) for a in atomic_deps(t.ast, l)]
            return out

        st_atoms = iter_atoms(sn)
        best = None
        for a in adds:
            if a.id not in g.reachable_from([sn]):
                continue
            a_atoms = {x for x, _ in iter_atoms(a)}
            extra = [(x, tast) for x, tast in st_atoms if x not in a_atoms]
            if best is None or len(extra) < len(best):
                best = extra
        for (txt, lab), tast in best or []:
            if txt.endswith(".path == '.'"):
                continue
            # `X` is true  ==  `X is None` is false, for the record objects selected here (no __bool__ / __len__)
            if txt.endswith(" is None") and lab == "F":
                txt, lab = txt[: -len(" is None")], "T"
            nm = next((x for x in ast.walk(tast) if isinstance(x, ast.Name) and x.id == txt), None)
            if nm is not None and lab == "T" and any(any(is_call(x, "find_media_hash_for_path") or is_call(x, "find_or_create_media_hash_for_path") for x in subterms(o)) for o in pr.origins(nm, cf)):
                continue
            r4.check(False, cf, st, f"the match takes the old path out of the missing set unconditionally, but the previous path is only recorded when `{txt}` is {'true' if lab == 'T' else 'false'}: a rename for which it is not leaves no trace (the file shows up as new and its old name silently disappears from the history)", construct=f"previous_path recorded only when {txt} is {lab}")
    sub = [n for n in walk_no_nested(cf.node) if isinstance(n, ast.Assign) and isinstance(n.value, ast.BinOp) and isinstance(n.value.op, ast.Sub) and "found" in norm(n.value.right)]
    tcall = g.node_for(next(c for f2, c in pipeline_funcs(p, tfm) if f2 is cf))
    oksub = len(sub) == 1 and all(g.find_path(g.node_for(st), {tcall.id}, avoid={g.node_for(sub[0]).id}) is None for st in stores)
    r4.check(oksub, cf, sub[0] if sub else cf.node, "matched renames are not subtracted from the missing set before the missing-file check", construct="subtract before check")

    # ------------------------------------------------------------------ R17.5
    r5 = report.rule(
        "R17.5",
        "rename candidates: the collection the -dr matching loop iterates over is filled from the traversal, and whether a traversed path becomes a candidate is decided "
        "against every generation of the history (a loop / comprehension over the full generation list), never against a single generation or a slice",
        1,
    )
    cand_loops = [n for n in walk_no_nested(cf.node) if isinstance(n, ast.For) and any(_inside_node(st, n) for st in stores) and isinstance(n.iter, ast.Name)]
    # outermost loop of the matching block
    cand_loops = [n for n in cand_loops if not any(_inside_node(n, m) for m in cand_loops if m is not n)]
    if len(cand_loops) != 1:
        raise AnalysisError(f"create: rename matching loop over the candidate collection not found ({len(cand_loops)})")
    cand = cand_loops[0].iter.id
    adds = [c for c, tg in p.calls[cf.qual] if isinstance(c.func, ast.Attribute) and c.func.attr in ("add", "append", "update") and norm(c.func.value) == cand]
    if not adds:
        raise AnalysisError(f"create: no site fills the rename candidate collection `{cand}`")
    for a in adds:
        r5.instance(cf, a, norm(a)[:70])
        an = g.node_for(a)
        full_cover, partial = False, None
        enclosing = [x for x in _anc(a) if isinstance(x, ast.For)]
        for lp in enclosing:
            for o in pr.origins(lp.iter, cf):
                if o[0] == "attr" and o[2] == "hash_lists":
                    full_cover = True
                for t in subterms(o):
                    if (t[0] == "elem" and t[1][0] == "attr" and t[1][2] == "hash_lists" and t[2] is not None) or (t[0] == "op" and t[1] == "slice" and t[2] and t[2][0][0] == "attr" and t[2][0][2] == "hash_lists"):
                        partial = show(t)[:80]
        for t, l in g.control_deps(an, through_loops=False):
            if t.kind != "test":
                continue
            for nm in [x for x in ast.walk(t.ast) if isinstance(x, ast.Name) and isinstance(x.ctx, ast.Load)]:
                for o in pr.origins(nm, cf):
                    for st_ in subterms(o):
                        if st_[0] == "elem" and st_[1][0] == "attr" and st_[1][2] == "hash_lists":
                            if st_[2] is None:
                                full_cover = True
                            else:
                                partial = show(st_)[:80]
                        if st_[0] == "op" and st_[1] == "slice" and st_[2] and st_[2][0][0] == "attr" and st_[2][0][2] == "hash_lists":
                            partial = show(st_)[:80]
        if partial:
            r5.check(False, cf, a, f"whether a traversed path becomes a rename candidate is decided against `{partial}` only, not against every generation: a new name that the latest generation already lists (after a plain create or -sf) is no candidate any more and its old name stays missing", construct="rename candidates judged against one generation")
        elif not full_cover:
            raise AnalysisError(f"{cf.loc(a)}: cannot relate the condition under which `{cand}` is filled to the generation list")
        else:
            r5.check(True, cf, a, "")

    # ------------------------------------------------------------------ R17.7
    r7 = report.rule(
        "R17.7",
        "chains of renames: the history's rename map (old path -> current path) is composed generation by generation - before a generation's renames are merged in, every "
        "earlier entry whose current name is renamed by that generation is advanced to the new name - so a file renamed A -> B and later B -> C maps A to C "
        "(a plain dict.update leaves A -> B, and B, which no longer exists, is reported missing for ever)",
        1,
    )
    hm = p.funcs.get("ascmhl.history.MHLHistory.renamed_path_with_previous_path")
    if hm is None:
        raise AnalysisError("MHLHistory.renamed_path_with_previous_path not found")
    gen_loops = [n for n in walk_no_nested(hm.node) if isinstance(n, ast.For) and norm(n.iter).endswith(".hash_lists")]
    if len(gen_loops) != 1:
        raise AnalysisError("rename map: loop over the generations not found")
    gl_ = gen_loops[0]
    r7.instance(hm, gl_, f"for {norm(gl_.target)} in {norm(gl_.iter)}")
    r7.check(is_plain_iter(p, gl_.iter), hm, gl_.iter, "the rename map is not built from every generation in order", construct="rename map generations")
    merges = [c for st in gl_.body for c in ast.walk(st) if isinstance(c, ast.Call) and isinstance(c.func, ast.Attribute) and c.func.attr == "update" and isinstance(c.func.value, ast.Name)]
    if len(merges) != 1:
        raise AnalysisError("rename map: the merge of one generation's renames into the map was not found")
    acc = merges[0].func.value.id
    # the composition step: inside the generation loop, before the merge, an assignment  acc[<k>] = <gen map>[<v>]  in a loop over acc's items under `<v> in <gen map>`
    comp = []
    for st in gl_.body:
        for lp in [x for x in ast.walk(st) if isinstance(x, ast.For)]:
            if acc not in norm(lp.iter):
                continue
            for a in [x for x in ast.walk(lp) if isinstance(x, ast.Assign)]:
                t = a.targets[0]
                is_get = isinstance(a.value, ast.Call) and isinstance(a.value.func, ast.Attribute) and a.value.func.attr == "get" and a.value.args
                if isinstance(t, ast.Subscript) and isinstance(t.value, ast.Name) and t.value.id == acc and (isinstance(a.value, ast.Subscript) or is_get):
                    comp.append((lp, a))
    ghm = cfg_of(hm)
    okc = bool(comp) and all(ghm.node_for(merges[0]).id in ghm.reachable_from([ghm.node_for(a)]) for _, a in comp)
    if comp and okc:
        lp, a = comp[0]
        tv = lp.target.elts if isinstance(lp.target, ast.Tuple) else []
        if isinstance(a.value, ast.Subscript):
            looked_up = norm(a.value.slice)  # acc[k] = gen[v]   (under `v in gen`)
        else:
            looked_up = norm(a.value.args[0])  # acc[k] = gen.get(v, v): the default keeps the entries this generation does not rename (a missing default is R17.1's business)
        okc = len(tv) == 2 and norm(a.targets[0].slice) == norm(tv[0]) and looked_up == norm(tv[1]) and norm(lp.iter) == f"{acc}.items()"
    r7.check(okc, hm, merges[0], f"each generation's renames are merged into the map with `{norm(merges[0])[:60]}` without advancing the entries that already point at a path this generation renames: after A -> B and, a generation later, B -> C the map still says A -> B, the expected set contains B, and verify / diff / create report B as missing although `create -dr` accepted the tree", construct="rename map not composed across generations")

    # ------------------------------------------------------------------ R17.6
    r6 = report.rule(
        "R17.6",
        "the matching is exhaustive: inside the -dr matching loops no `break` (or `return`) is taken because two digests DIFFER - a pair that does not match only ends that pair, "
        "every other missing path is still compared with the candidate",
        1,
    )
    gcf = cfg_of(cf)
    r6.instance(cf, cand_loops[0], f"matching loop over {cand}")
    for n in ast.walk(cand_loops[0]):
        if not isinstance(n, (ast.Break, ast.Return)):
            continue
        atoms = []
        for t, l in gcf.control_deps(gcf.node_for(n), through_loops=False):
            if t.kind == "test":
                atoms += atomic_deps(t.ast, l)
        differ = [(a, l) for a, l in atoms if "hash_string" in a and " == " in a and l == "F"]
        r6.check(not differ, cf, n, f"the matching loop is left by `{'break' if isinstance(n, ast.Break) else 'return'}` when `{differ[0][0][:70] if differ else ''}` is false: after the first missing path that does not match, the remaining missing paths are never compared with this candidate - of several simultaneous renames at most one is detected, the others are reported missing", construct="matching loop left on a digest mismatch")

    # ------------------------------------------------------------------ R17.8
    r8 = report.rule(
        "R17.8",
        "every pair (candidate new path, missing recorded path) reaches a comparison of digests: no path through one iteration of the pair loop goes on to the next pair without "
        "passing a digest comparison (or a test that only tells directories from files / selects the record); file size, dates or names do not decide whether a pair is compared",
        1,
    )
    all_loops = [n for n in walk_no_nested(cf.node) if isinstance(n, ast.For) and all(_inside_node(st, n) for st in stores)]
    pair_loops = [n for n in all_loops if not any(_inside_node(m, n) for m in all_loops if m is not n)]
    if len(pair_loops) != 1:
        raise AnalysisError(f"create: the pair loop of the rename matching was not found ({len(pair_loops)})")
    pl = pair_loops[0]
    r8.instance(cf, pl, f"for {norm(pl.target)} in {norm(pl.iter)[:40]}")

    def _compares_digests(fn_qual):
        for q in p.reachable([fn_qual]):
            for n in walk_no_nested(p.funcs[q].node):
                if isinstance(n, ast.Compare) and "hash_string" in norm(n):
                    return True
        return False

    heads = {h.id for h in gcf.nodes if h.kind == "loop" and h.ast in all_loops}
    passing = set()
    for t in gcf.nodes:
        if t.kind != "test" or not _inside_node(t.ast, pl):
            continue
        calls_ = [tq for x in ast.walk(t.ast) if isinstance(x, ast.Call) for tq in p.resolve_call(x, cf) if tq in p.funcs]
        if any(isinstance(x, ast.Compare) and "hash_string" in norm(x) for x in ast.walk(t.ast)):
            passing.add(t.id)
        elif any(_compares_digests(tq) for tq in calls_):
            passing.add(t.id)

    def _alts_of(e, lab, fn, depth=0):
        """what taking branch `lab` of test `e` (in function `fn`) says about the pair, as a list of alternatives, each a list of (kind, test, label):
        'just' (sizes differ: the pair cannot be a renamed file of equal content), 'dir' (a directory - justified where the file would have to be read),
        'fmt0' (the new record has no digest in the recorded format), 'neutral', 'ret' (result variable of an inlined helper), 'foreign' (anything else)"""
        flip = {"T": "F", "F": "T"}
        while isinstance(e, ast.UnaryOp) and isinstance(e.op, ast.Not):
            e, lab = e.operand, flip[lab]
        if isinstance(e, ast.BoolOp):
            subs = [_alts_of(v, lab, fn, depth) for v in e.values]
            if (isinstance(e.op, ast.Or) and lab == "F") or (isinstance(e.op, ast.And) and lab == "T"):
                out = [[]]
                for sa_ in subs:  # all hold
                    out = [x + y for x in out for y in sa_]
                return out
            return [a_ for sa_ in subs for a_ in sa_]  # one of them holds, unknown which
        one = lambda k: [[(k, e, lab)]]
        txt = norm(e)
        if isinstance(e, ast.Call):
            tqs = [tq for tq in p.resolve_call(e, fn) if tq in p.funcs and not p.funcs[tq].cls]
            if len(tqs) == 1 and depth < 2:
                return _helper_alts(p.funcs[tqs[0]], lab, depth + 1)
        if "is_directory" in txt or "isdir(" in txt:
            return one("dir" if lab == "T" else "neutral")
        if isinstance(e, ast.Compare) and len(e.ops) == 1 and "file_size" in norm(e.left) and "file_size" in norm(e.comparators[0]):
            differs = (isinstance(e.ops[0], ast.NotEq) and lab == "T") or (isinstance(e.ops[0], ast.Eq) and lab == "F")
            return one("just" if differs else "neutral")
        if isinstance(e, ast.Compare) and len(e.ops) == 1 and isinstance(e.ops[0], (ast.Is, ast.IsNot)) and "file_size" in norm(e.left):
            return one("neutral")
        core = e.left if isinstance(e, ast.Compare) and len(e.ops) == 1 and isinstance(e.ops[0], (ast.Is, ast.IsNot)) and norm(e.comparators[0]) == "None" else e
        if isinstance(core, ast.Name):
            if core.id.startswith("__ret__"):
                return one("ret")
            try:
                os_ = pr.origins(core, fn)
            except AnalysisError:
                os_ = []
            if os_ and all(o == ("const", None) or is_call(o, "find_first_hash_entry_for_path") or is_call(o, "find_original_hash_entry_for_path") for o in os_):
                # the MISSING path's record has no digest at all (a folder recorded with -n): nothing to compare
                absent_ = lab == "F" if core is e else ((isinstance(e.ops[0], ast.Is) and lab == "T") or (isinstance(e.ops[0], ast.IsNot) and lab == "F"))
                return one("just" if absent_ else "neutral")
            if os_ and all(o == ("const", None) or is_call(o, "find_hash_entry_for_format") for o in os_):
                absent = lab == "F" if core is e else ((isinstance(e.ops[0], ast.Is) and lab == "T") or (isinstance(e.ops[0], ast.IsNot) and lab == "F"))
                return one("fmt0" if absent else "neutral")
            if os_ and all(o == ("const", None) or is_call(o, "find_media_hash_for_path") or is_call(o, "find_or_create_media_hash_for_path") for o in os_):
                return one("neutral")
        return one("foreign")

    def _helper_alts(hf, lab, depth):
        """the ways in which the helper `hf` returns a true (lab T) / false (lab F) value: one alternative per returning path"""
        hg = cfg_of(hf)
        out = []
        for end, conds, trail in hg.paths([(hg.entry, None, [])], {hg.exit.id}, limit=4000):
            if end.kind == "raise":
                continue
            ret = next((n.ast for n in reversed(trail) if n.ast is not None and isinstance(n.ast, ast.Return)), None)
            val = ret.value if ret is not None else None
            cur = [[]]
            for tast, l_ in conds:
                if l_ in ("T", "F"):
                    cur = [x + y for x in cur for y in _alts_of(tast, l_, hf, depth)]
            if val is None or isinstance(val, ast.Constant):
                truth = bool(val.value) if val is not None else False
                if truth != (lab == "T"):
                    continue
            else:
                cur = [x + y for x in cur for y in _alts_of(val, lab, hf, depth)]
            out += cur
            if len(out) > 400:
                raise AnalysisError(f"{hf.loc()}: too many ways through the helper that decides whether a pair of the rename matching is compared")
        return out

    first = gcf.node_for(pl.body[0])
    bad_path = None
    n_paths = 0
    if first.id not in passing:
        for end, conds, trail in gcf.paths([(first, None, [])], heads | passing | {gcf.exit.id}, limit=20000):
            if end.id in passing or end.kind == "raise":
                continue
            n_paths += 1
            cur = [[]]
            for tast, lab in conds:
                if lab in ("T", "F"):
                    cur = [x + y for x in cur for y in _alts_of(tast, lab, cf)]
                    if len(cur) > 400:
                        raise AnalysisError(f"{cf.loc(pl)}: too many alternatives on a path of the pair loop")
            for alt_ in cur:
                ks = {k for k, _, _ in alt_}
                if "just" in ks or ("dir" in ks and "fmt0" in ks):
                    continue
                foreign = [(norm(t_)[:70], l_) for k, t_, l_ in alt_ if k in ("foreign", "dir")]
                if not foreign and "ret" in ks:
                    raise AnalysisError(f"{cf.loc(pl)}: a pair of the rename matching is skipped on the result of an inlined helper that could not be related to its tests")
                if bad_path is None or len(foreign) > len(bad_path[0]):
                    bad_path = (foreign, trail)
    r8.note(f"{n_paths} path(s) through one iteration of the pair loop reach the next pair without a digest comparison")
    if bad_path is not None:
        foreign, trail = bad_path
        gate = "; ".join(f"`{t}` is {'true' if l == 'T' else 'false'}" for t, l in foreign) or "no test at all decides it"
        r8.check(False, cf, pl, f"a pair of a new path and a missing recorded path is dropped without comparing any digest, and not because the pair cannot match (a directory that would have to be read as a file, two different sizes): {gate}. The property holds for every rename that keeps the content - a renamed file whose bookkeeping differs (touched, copied back, dates recorded by another tool) is then reported missing and recorded as new", witness=gcf.fmt_path(trail), construct="pair skipped without digest comparison")
    else:
        r8.check(True, cf, pl, "")

    # ------------------------------------------------------------------ R17.9
    r9 = report.rule(
        "R17.9",
        "in the pair loop a new path is read as a file (hash_file) only when it is not a directory: every path to the call passes a test that the new path is no directory "
        "(a new folder without a digest in the recorded format - another -h than the recorded one, -n, a folder inside a nested history - made create -dr abort with "
        "IsADirectoryError before anything was written)",
        1,
    )
    for call, tg in p.calls[cf.qual]:
        if not _inside_node(call, pl) or not any(t.split(".")[-1] == "hash_file" for t in tg):
            continue
        r9.instance(cf, call, norm(call)[:70])
        atoms = []
        for t, l in gcf.necessary_branches(gcf.node_for(call)):
            if _inside_node(t.ast, pl):
                atoms += atomic_deps(t.ast, l)
        no_dir = [a for a, l in atoms if (("isdir(" in a or "is_directory" in a) and l == "F") or ("isfile(" in a and l == "T")]
        if not no_dir:
            opaque = [a for a, l in atoms if a.startswith("__ret__") or any(q.split(".")[-1] + "(" in a and any("isdir" in norm(n) or "is_directory" in norm(n) for n in ast.walk(p.funcs[q].node)) for q in p.funcs if not p.funcs[q].cls)]
            if opaque:
                raise AnalysisError(f"{cf.loc(call)}: whether `{norm(call)[:50]}` is kept away from directories is decided in `{opaque[0][:50]}`, which this rule does not evaluate")
        r9.check(bool(no_dir), cf, call, f"`{norm(call)[:60]}` reads the new path as a file for every pair that has no digest in the recorded format, also when the new path is a directory: a tree with a renamed file and a new folder (create -dr with another hash format than the recorded one, or with -n, or any folder inside a nested history) aborts with IsADirectoryError and no generation is written", construct="hash_file on a directory in the rename matching")

    # ------------------------------------------------------------------ R17.11
    r11 = report.rule(
        "R17.11",
        "a recorded path may have no hash entry at all (a folder recorded with -n): in the matching loop the result of `find_first_hash_entry_for_path` / "
        "`find_original_hash_entry_for_path` for the missing path is dereferenced only under a test that it is not None (the pair is skipped otherwise) - "
        "create -dr -n after a move that emptied and removed a folder aborted with AttributeError, nothing written",
        1,
    )
    for asg in [n for n in ast.walk(pl) if isinstance(n, ast.Assign) and len(n.targets) == 1 and isinstance(n.targets[0], ast.Name) and isinstance(n.value, ast.Call) and isinstance(n.value.func, ast.Attribute) and n.value.func.attr in ("find_first_hash_entry_for_path", "find_original_hash_entry_for_path")]:
        nm_ = asg.targets[0].id
        uses = [n for n in ast.walk(pl) if isinstance(n, ast.Attribute) and isinstance(n.value, ast.Name) and n.value.id == nm_ and isinstance(n.ctx, ast.Load)]
        r11.instance(cf, asg, f"{nm_} = {norm(asg.value)[:60]} ({len(uses)} dereference(s))")
        bad_use = None
        for u in uses:
            guarded = False
            for t_, l_ in gcf.necessary_branches(gcf.node_for(u)):
                if not _inside_node(t_.ast, pl):
                    continue
                for a_, l2 in atomic_deps(t_.ast, l_):
                    if (a_ == nm_ and l2 == "T") or (a_ == f"{nm_} is None" and l2 == "F"):
                        guarded = True
            # short-circuit in the same expression
            x_, up_ = u, parent(u)
            while up_ is not None and not isinstance(up_, ast.stmt):
                if isinstance(up_, ast.BoolOp) and isinstance(up_.op, ast.And):
                    idx_ = next((i_ for i_, v_ in enumerate(up_.values) if any(y is x_ for y in ast.walk(v_))), 0)
                    for v_ in up_.values[:idx_]:
                        if any((a_ == nm_ and l2 == "T") or (a_ == f"{nm_} is None" and l2 == "F") for a_, l2 in atomic_deps(v_, "T")):
                            guarded = True
                x_, up_ = up_, parent(up_)
            if not guarded and bad_use is None:
                bad_use = u
        r11.check(bad_use is None, cf, bad_use if bad_use is not None else asg, f"`{norm(bad_use)[:50] if bad_use is not None else ''}` dereferences the first recorded entry of the missing path without a test that there is one: a folder recorded without directory hashes (-n) has no entry, so `create -dr -n` on a tree where a recorded folder was removed (its file moved elsewhere) aborts with AttributeError instead of reporting the folder missing", construct=f"{nm_} dereferenced without None test")

    # ------------------------------------------------------------------ R17.12
    r12 = report.rule(
        "R17.12",
        "a previous path is stored relative to the history that records the file: the value of every `.previous_path = ...` in the rename matching is the second "
        "component of `find_history_for_path(<missing path>)` (the routed, history-relative path) - not the root-relative path it was routed from (for a file inside "
        "a nested history the two differ: verify / diff / create then look the old name up under a path the nested history never recorded)",
        1,
    )
    for st in stores:
        r12.instance(cf, st, norm(st)[:80])
        os_ = [x for o in pr.origins(st.value, cf) for x in alts(o)]
        routed = bool(os_) and all(o[0] == "elem" and is_call(o[1], "find_history_for_path") and o[2] == ("const", 1) for o in os_)
        r12.check(routed, cf, st, f"`{norm(st)[:70]}` stores `{show(os_[0])[:90] if os_ else norm(st.value)}` as previous path, which is not the history-relative component of the routing of the missing path: for a file renamed inside a nested history (re-hashed because the run uses another format than the record) the nested manifest gets a root-relative <previousPath>, and verify / diff / create report the old name missing afterwards", construct="previous_path not the routed history-relative path")

    # ------------------------------------------------------------------ R17.10
    r10 = report.rule(
        "R17.10",
        "a name that was given up by a rename can be taken by another file: a lookup of the history that goes through the generations and answers with the FIRST record found "
        "under a name looks at the record's own path / previous path (the per-manifest index lists a renamed record under its former name too: a hit whose own path differs from "
        "the name asked for is the record of the file that was renamed AWAY - the records of earlier generations under that name belong to that file, not to the file that "
        "carries the name now)",
        2,
    )
    hist_cls = next((cq for cq in p.classes if cq.endswith("history.MHLHistory")), None)
    if hist_cls is None:
        raise AnalysisError("class MHLHistory not found")
    for mname, mf in sorted(p.classes[hist_cls].methods.items()):
        for lp in [n for n in walk_no_nested(mf.node) if isinstance(n, ast.For) and norm(n.iter).endswith("hash_lists")]:
            looks = [n for n in ast.walk(lp) if isinstance(n, ast.Call) and isinstance(n.func, ast.Attribute) and n.func.attr == "find_media_hash_for_path" and n.args and isinstance(n.args[0], ast.Name) and n.args[0].id in mf.params]
            first_hit = [n for n in ast.walk(lp) if isinstance(n, ast.Return) and n.value is not None and not (isinstance(n.value, ast.Constant) and n.value.value is None)]
            if not looks or not first_hit:
                continue
            r10.instance(mf, lp, f"{mname}: first record under `{looks[0].args[0].id}` through the generations")
            recs = {norm(a.targets[0]) for a in ast.walk(lp) if isinstance(a, ast.Assign) and a.value in looks}
            aware = [n for n in ast.walk(mf.node) if isinstance(n, ast.Attribute) and n.attr in ("path", "previous_path") and norm(n.value) in recs]
            # any other way of knowing about renames (the rename map, a helper that reads previous_path) counts as well
            aware += [n for q in p.reachable([mf.qual]) if p.funcs[q].module.name.endswith(("history", "hashlist")) for n in ast.walk(p.funcs[q].node) if isinstance(n, ast.Attribute) and n.attr == "previous_path" and isinstance(n.ctx, ast.Load) and p.funcs[q].name not in ("append_hash", "log", "log_hash_entry")]
            r10.check(bool(aware), mf, lp, f"{mname} answers with the first record indexed under the name in any generation and never looks at the record's own path or previous path: after a.txt was renamed to b.txt (create -dr) and, one generation later, x.txt was renamed to a.txt, the new a.txt is judged against generation 1's record of the OLD a.txt - create -dr reports a hash mismatch (exit 11) on an unchanged file", construct="first hit by name ignores that the name changed hands")

    # ------------------------------------------------------------------ R17.13
    r13 = report.rule(
        "R17.13",
        "recorded paths are made absolute with the root of the HISTORY that is asked (the root the command was given), never with a root derived from the place where "
        "the manifest file lies: a packing list read with `verify -pl` lies in the flatten destination, its records describe the tree of the root",
        2,
    )
    hl_cls = next((cq for cq in p.classes if cq.endswith("hashlist.MHLHashList")), None)
    if hl_cls is None:
        raise AnalysisError("class MHLHashList not found")
    n13 = 0
    from .common import unshipped_modules as _unshipped, reach_from as _reach_from

    # the model classes, and whatever `verify` (the command that can be handed a packing list) reaches; `info` only ever loads manifests from <root>/ascmhl
    reach13 = set(_reach_from(p, [need(commands(p), "verify").qual]))

    for fq, fn_ in sorted(p.funcs.items()):
        if fn_.module.name in _unshipped(p) or not (fn_.module.name.endswith(("hashlist", "history")) or fq in reach13):
            continue
        for c, tg in p.calls[fq]:
            if "ext:os.path.join" not in tg or len(c.args) < 2:
                continue
            if not any(isinstance(a, ast.Attribute) and a.attr in ("path", "previous_path") for a in c.args[1:]):
                continue
            owner_ok = False
            for a in c.args[1:]:
                if isinstance(a, ast.Attribute) and a.attr in ("path", "previous_path"):
                    t_ = p.etype(a.value, fn_)
                    owner_ok = owner_ok or (t_ is not None and t_[0] == "C" and t_[1].endswith("MHLMediaHash")) or (t_ is None and "media_hash" in norm(a.value))
            if not owner_ok:
                continue
            n13 += 1
            r13.instance(fn_, c, norm(c)[:80])
            bad13 = []
            stack13 = [(o, fn_, 0) for o in pr.origins(c.args[0], fn_)]
            while stack13:
                o, where, depth = stack13.pop()
                for s_ in subterms(o):
                    if s_[0] == "call" and s_[1].endswith("MHLHashList.get_root_path"):
                        bad13.append("MHLHashList.get_root_path()")
                    if s_[0] == "attr" and s_[2] == "file_path" and len(s_) > 3 and str(s_[3]).endswith("MHLHashList"):
                        bad13.append("the manifest's own file_path")
                    if s_[0] == "param" and depth < 2 and s_[1] in p.funcs:
                        callee = p.funcs[s_[1]]
                        for caller, call in callers_of(p, s_[1]):
                            try:
                                bound = p.bind_args(callee, call)
                            except Exception:
                                bound = {}
                            arg = bound.get(s_[2])
                            if arg is not None:
                                stack13 += [(o2, caller, depth + 1) for o2 in pr.origins(arg, caller)]
            r13.check(not bad13, fn_, c, f"`{norm(c)[:70]}` joins a recorded path with {sorted(set(bad13))}: for a manifest that does not lie in <root>/ascmhl (a packing list written by flatten) every recorded file is looked for below the wrong folder and reported missing", construct=f"{fn_.name}: recorded path joined with the manifest's location")
    if n13 < 2:
        raise AnalysisError("fewer than 2 places where a recorded path is made absolute (anchor vanished)")

    from .common import include_rules

    include_rules(report, p, 'c04', ['R4.9'], 'verify and diff find a renamed file through the `original` entry recorded under its new name: the rename matching must not relabel it')

    report.not_decided += ["the pairing produced for concrete sets of simultaneous renames", "renames of folders that contain nested histories"]


def _inside_node(n, container):
    x = n
    while x is not None:
        if x is container:
            return True
        x = parent(x)
    return False


def _anc(n):
    x = parent(n)
    while x is not None:
        yield x
        x = parent(x)


def finish(report):
    return report.finish(
        level="other",
        explanation="emission/reader agreement for <previousPath>, index keys, sibling equality of the rename rewrite, guard extraction for every previous_path assignment (control dependence + provenance "
        "of the compared digests), subtraction of matched paths. Rename scenarios are not executed.",
    )
