"""C01 - file digests are the standard algorithms over the exact file bytes (structural clauses)."""
from __future__ import annotations

import ast

from sa.cfg import cfg_of
from sa.effects import open_mode
from sa.flow import show, sig, subterms
from sa.model import AnalysisError, norm, parent, walk_no_nested

from .common import alts, callers_of, commands, is_call, is_const, is_plain_iter, prov, unshipped_modules
from .xmlcommon import format_domain

BASE58 = "123456789ABCDEFGHJKLMNPQRSTUVWXYZabcdefghijkmnopqrstuvwxyz"
FORMAT_TABLE = {
    "md5": {"hashlib.md5"},
    "sha1": {"hashlib.sha1"},
    "xxh32": {"xxhash.xxh32"},
    "xxh64": {"xxhash.xxh64"},
    "xxh3": {"xxhash.xxh3_64", "xxhash.xxh3_64_digest"} - {"xxhash.xxh3_64_digest"},
    "xxh128": {"xxhash.xxh3_128", "xxhash.xxh128"},
    "c4": {"hashlib.sha512"},
}
DIGEST_LIBS = ("hashlib", "xxhash", "zlib", "binascii", "hmac", "blake3", "crc32c")


def read_loop_funcs(p):
    out = []
    for fq, f in p.funcs.items():
        reads = [c for c, tg in p.calls[fq] if any(t in ("extm:open().read", "extm:open().readinto") for t in tg)]
        if reads and f.module.name.endswith("hasher"):
            out.append((f, reads))
    return out


def run(report, p):
    pr = prov(p)
    cmds = commands(p)
    unshipped = unshipped_modules(p)
    report.assume("hashlib / xxhash compute the standard algorithms")
    report.assume("base-58 arithmetic of Python integers; only constants, direction and encoder/decoder agreement are checked")

    # ------------------------------------------------------------------ R1.1
    r1 = report.rule(
        "R1.1",
        "read-loop completeness: the file is opened in binary read mode; every chunk returned by read() reaches update() of every hasher before the next read or the function's exit, "
        "unless it is the empty chunk that ends the loop; the loop has no other exit; read size is a positive constant; no seek",
        2,
    )
    loops = read_loop_funcs(p)
    for f, reads in loops:
        g = cfg_of(f)
        r1.instance(f, reads[0], f"{f.qual}: {len(reads)} read site(s)")
        # open mode
        opens = [c for c, tg in p.calls[f.qual] if "builtin:open" in tg]
        for oc in opens:
            m = open_mode(p, oc, f)
            r1.check(m in ("rb", "br"), f, oc, f"file opened with mode {m!r}: text mode / write mode does not deliver the exact bytes", construct=f"open mode {m!r}")
        handle = None
        for oc in opens:
            par = parent(oc)
            if isinstance(par, ast.withitem) and par.optional_vars is not None:
                handle = norm(par.optional_vars)
            elif isinstance(par, ast.Assign):
                handle = norm(par.targets[0])
        chunk_vars = set()
        read_nodes = []
        for rc in reads:
            st = _stmt(rc)
            size = rc.args[0] if rc.args else None
            if isinstance(rc.func, ast.Attribute) and rc.func.attr == "readinto":
                size = None
            if size is not None:
                sv = p.fold(size, f)
                r1.check(isinstance(sv, int) and not isinstance(sv, bool) and sv > 0, f, rc, f"read size `{norm(size)}` is not a positive constant (folded: {sv!r})", construct=f"read size {norm(size)}")
            if isinstance(st, ast.Assign) and len(st.targets) == 1 and isinstance(st.targets[0], ast.Name) and st.value is rc:
                chunk_vars.add(st.targets[0].id)
                read_nodes.append(g.node_for(rc))
            elif isinstance(parent(rc), ast.NamedExpr):
                chunk_vars.add(parent(rc).target.id)
                read_nodes.append(g.node_for(rc))
            else:
                raise AnalysisError(f"{f.loc(rc)}: read() result is not bound to a chunk variable (idiom outside: priming read / walrus / read-in-loop)")
        if len(chunk_vars) != 1:
            raise AnalysisError(f"{f.qual}: more than one chunk variable {chunk_vars}")
        chunk = next(iter(chunk_vars))
        # readinto(buffer): the variable is the byte COUNT; the data is buffer[:count]
        buffers = {norm(rc.args[0]) for rc in reads if isinstance(rc.func, ast.Attribute) and rc.func.attr == "readinto" and rc.args}
        if buffers and any(isinstance(rc.func, ast.Attribute) and rc.func.attr == "read" for rc in reads):
            raise AnalysisError(f"{f.qual}: read() and readinto() mixed in one loop (unrecognised idiom)")
        if len(buffers) > 1:
            raise AnalysisError(f"{f.qual}: several readinto buffers")
        buffer = next(iter(buffers)) if buffers else None
        for c, tg in p.calls[f.qual]:
            if isinstance(c.func, ast.Attribute) and c.func.attr in ("seek", "truncate", "readline", "readlines") and norm(c.func.value) == handle:
                r1.check(False, f, c, f"the file position / content is manipulated with .{c.func.attr}(): not every byte is hashed exactly once")
        # update nodes: hasher.update(chunk) directly, or a for-loop whose body is exactly one update on each element of a collection
        upd_single, upd_loops = [], []
        for c, tg in p.calls[f.qual]:
            if isinstance(c.func, ast.Attribute) and c.func.attr == "update" and len(c.args) == 1 and buffer is not None:
                a = c.args[0]
                mentions = any(isinstance(x, ast.Name) and x.id == buffer for x in ast.walk(a))
                if not mentions:
                    continue
                base = a.value if isinstance(a, ast.Subscript) else None
                if isinstance(base, ast.Call) and norm(base.func) == "memoryview" and base.args:
                    base = base.args[0]
                good = isinstance(a, ast.Subscript) and isinstance(a.slice, ast.Slice) and a.slice.lower is None and a.slice.step is None and a.slice.upper is not None and norm(a.slice.upper) == chunk and base is not None and norm(base) == buffer
                if not good:
                    r1.check(False, f, c, f"update() is fed `{norm(a)}`: with readinto() only the first `{chunk}` bytes of the reused buffer are file content, the rest is the stale tail of an earlier chunk (files whose size is not a multiple of the buffer get a wrong digest)", construct=f"update({norm(a)}) after readinto")
                    continue
                lp = parent(_stmt(c))
                if isinstance(lp, ast.For) and len(lp.body) == 1 and _stmt(c) is lp.body[0] and not lp.orelse:
                    upd_loops.append((c, lp))
                else:
                    upd_single.append(c)
                continue
            if isinstance(c.func, ast.Attribute) and c.func.attr == "update" and len(c.args) == 1:
                if not (isinstance(c.args[0], ast.Name) and c.args[0].id == chunk):
                    if any(isinstance(x, ast.Name) and x.id == chunk for x in ast.walk(c.args[0])):
                        r1.check(False, f, c, f"update() is fed `{norm(c.args[0])}` instead of the chunk as read", construct=f"update({norm(c.args[0])})")
                    continue
                lp = parent(_stmt(c))
                if isinstance(lp, ast.For) and len(lp.body) == 1 and _stmt(c) is lp.body[0] and not lp.orelse:
                    upd_loops.append((c, lp))
                elif isinstance(lp, ast.For) and any(isinstance(x, ast.stmt) and x is not _stmt(c) for x in lp.body) and _loop_over_hashers(lp, c):
                    r1.check(False, f, lp, "the loop that feeds the chunk to the hashers does more than update each hasher (a hasher can be skipped)", construct="conditional update loop")
                else:
                    upd_single.append(c)
        hashers = set()
        avoid = set()
        for c in upd_single:
            hashers.add(norm(c.func.value))
            avoid.add(g.node_for(c).id)
        for c, lp in upd_loops:
            coll = norm(lp.iter)
            key = norm(lp.target)
            recv = norm(c.func.value)
            okl = recv in (key, f"{coll}[{key}]") or (coll.endswith(".values()") and recv == key)
            r1.check(okl and is_plain_iter(p, lp.iter), f, lp, "the update loop does not feed every hasher of the collection", construct=f"for {key} in {coll}: {recv}.update")
            hashers.add(coll.replace(".values()", ""))
            avoid.add(g.by_ast[id(lp)].id)
        r1.check(bool(avoid), f, reads[0], "no hasher is fed with the chunks that are read", construct="no update")
        # EOF edges: (test `chunk`, F) and (test `not chunk`, T) are the legitimate loop exits
        def follow(n, m, l):
            if n.kind == "test":
                t = norm(n.ast)
                if (t == chunk or t == f"{chunk} := {handle}.read({norm(reads[0].args[0]) if reads[0].args else ''})" or (isinstance(n.ast, ast.NamedExpr))) and l == "F":
                    return False
                if t in (f"len({chunk}) > 0", f"{chunk} != b''", f"len({chunk}) != 0") and l == "F":
                    return False
                if t in (f"len({chunk}) == 0", f"{chunk} == b''") and l == "T":
                    return False
            return True
        targets = {n.id for n in read_nodes} | {g.exit.id}
        for rn in read_nodes:
            # search from the successors of the read node, not crossing update nodes or EOF edges
            seen, work, hit = set(), [m for m, l in rn.succ if follow(rn, m, l)], None
            prev = {}
            while work and hit is None:
                n = work.pop()
                if n.id in seen or n.id in avoid:
                    continue
                seen.add(n.id)
                if n.id in targets:
                    hit = n
                    break
                for m, l in n.succ:
                    if follow(n, m, l) and m.id not in seen:
                        prev.setdefault(m.id, n.id)
                        work.append(m)
            if hit is not None:
                trail = [hit]
                x = hit.id
                while x in prev:
                    x = prev[x]
                    trail.append(g.nodes[x])
                trail.append(rn)
                what = "the end of the function" if hit is g.exit else "the next read()"
                r1.check(False, f, rn.ast, f"a chunk that was read can reach {what} without being hashed by every hasher (file content beyond it does not influence the digest)", witness=g.fmt_path(list(reversed(trail))), construct=f"chunk from {norm(rn.ast)[:40]} may skip update -> {what}")
            else:
                r1.check(True, f, rn.ast, "")
        # the function can only finish after read() returned the empty chunk: without the EOF edges the exit is unreachable
        for rn in read_nodes[:1]:
            seen, work, prev = set(), [m for m, l in rn.succ if follow(rn, m, l)], {}
            hit = None
            while work and hit is None:
                n = work.pop()
                if n.id in seen:
                    continue
                seen.add(n.id)
                if n is g.exit:
                    hit = n
                    break
                for m, l in n.succ:
                    if follow(n, m, l) and m.id not in seen:
                        prev.setdefault(m.id, n.id)
                        work.append(m)
            trail = []
            if hit is not None:
                x = hit.id
                trail = [hit]
                while x in prev:
                    x = prev[x]
                    trail.append(g.nodes[x])
                trail.append(rn)
            r1.check(hit is None, f, rn.ast, "the function can return a digest without read() ever having returned the empty chunk: bytes after the last chunk read are not hashed", witness=g.fmt_path(list(reversed(trail))) if trail else None, construct="exit reachable without EOF")
        # the digest(s) returned come from the hashers that were updated
        rets = [n for n in walk_no_nested(f.node) if isinstance(n, ast.Return)]
        for rt in rets:
            ok = False
            v = rt.value
            if isinstance(v, ast.Call) and isinstance(v.func, ast.Attribute) and v.func.attr == "string_digest":
                ok = norm(v.func.value) in hashers
            elif isinstance(v, ast.Name):
                # dict filled from the same collection with the same key
                fills = [n for n in walk_no_nested(f.node) if isinstance(n, ast.Assign) and any(isinstance(t, ast.Subscript) and norm(t.value) == v.id for t in n.targets)]
                ok = bool(fills)
                for fl in fills:
                    t = fl.targets[0]
                    lp = parent(fl)
                    val = fl.value
                    ok = ok and isinstance(lp, ast.For) and is_plain_iter(p, lp.iter) and norm(lp.iter).replace(".keys()", "") in hashers and isinstance(val, ast.Call) and isinstance(val.func, ast.Attribute) and val.func.attr == "string_digest" and norm(val.func.value) == f"{norm(lp.iter).replace('.keys()', '')}[{norm(t.slice)}]" and norm(t.slice) == norm(lp.target)
            r1.check(ok, f, rt, "the digest returned is not taken from the hasher(s) that were fed with the file's bytes (or keys are crossed)", construct=f"return {norm(v)[:60]}")

    # ------------------------------------------------------------------ R1.6 multi-format construction
    r6 = report.rule("R1.6", "the read-once multi-format path builds one hasher per requested format, keyed by that format, through the same factory as the single-format path", 1)
    fac = p.funcs.get("ascmhl.hasher.new_hasher_for_hash_type")
    if fac is None:
        raise AnalysisError("hasher factory not found")
    for f, reads in loops:
        fills = [n for n in walk_no_nested(f.node) if isinstance(n, ast.Assign) and isinstance(n.value, ast.Call) and fac.qual in p.resolve_call(n.value, f)]
        news = [n for n in walk_no_nested(f.node) if isinstance(n, ast.Assign) and isinstance(n.value, ast.Call) and norm(n.value.func) == "cls"]
        if not fills and not news:
            r6.check(False, f, f.node, "hashers are not created by the factory / cls()", construct="hasher construction")
        for n in fills:
            lp = parent(n)
            r6.instance(f, n, norm(n)[:80])
            key_ok = isinstance(lp, ast.For) and is_plain_iter(p, lp.iter) and isinstance(lp.iter, ast.Name) and lp.iter.id in f.params and norm(n.value.args[0]) == norm(lp.target)
            store = [s for s in lp.body if isinstance(s, ast.Assign) and any(isinstance(t, ast.Subscript) for t in s.targets)] if isinstance(lp, ast.For) else []
            st_ok = any(norm(s.targets[0].slice) == norm(lp.target) for s in store) if store else (isinstance(n.targets[0], ast.Subscript) and norm(n.targets[0].slice) == norm(lp.target))
            r6.check(key_ok and st_ok, f, n, "hashers are not built for every requested format / stored under their own format")
    # factory: lookup by member name, instantiate the member's class
    r6.instance(fac, fac.node, "factory")
    ft = norm(fac.node)
    r6.check("HashType[hash_format]" in ft and ".value()" in ft, fac, fac.node, "the factory does not look the format up by name in the format table and instantiate its class", construct="factory lookup")

    # ------------------------------------------------------------------ R1.2
    r2 = report.rule("R1.2", "format table: each supported format name resolves to the standard algorithm (md5, sha1, xxh32, xxh64, xxh3 -> XXH3-64, xxh128 -> XXH3-128, c4 -> SHA-512); every CLI format has a hasher", 7)
    ht = next((cq for cq in p.classes if cq.endswith("hasher.HashType")), None)
    if ht is None:
        raise AnalysisError("HashType enum not found")
    members = p.enum_members(ht)
    for name, want in FORMAT_TABLE.items():
        r2.instance(None, None, f"{name} -> {sorted(want)}")
        v = members.get(name)
        cq = p.resolve_name_expr(v, p.classes[ht].module) if v is not None else None
        got = None
        if cq in p.classes:
            mq = p.find_method(cq, "hashlib_type")
            if mq:
                rets = [n for n in walk_no_nested(p.funcs[mq].node) if isinstance(n, ast.Return)]
                if len(rets) == 1:
                    got = p.resolve_name_expr(rets[0].value, p.funcs[mq].module)
        r2.check(got in want, None, None, f"format {name} is computed with {got}, the property requires {sorted(want)}", construct=f"format {name} -> {got}")
    dom = format_domain(p)
    r2.check(set(dom) <= set(members), None, None, f"supported formats {dom} without a hasher: {sorted(set(dom) - set(members))}", construct="supported formats have hashers")
    base = next((cq for cq in p.classes if cq.endswith("hasher.Hasher")), None)
    init = p.classes[base].methods.get("__init__")
    it = norm(init.node) if init else ""
    r2.check("self.hasher = self.hashlib_type()()" in it, init, init.node if init else None, "the wrapped library hasher is not created fresh and unseeded from hashlib_type()", construct="Hasher.__init__")
    upd = p.classes[base].methods.get("update")
    r2.check(upd is not None and any(isinstance(n, ast.Call) and norm(n) == f"self.hasher.update({upd.params[1]})" for n in walk_no_nested(upd.node)), upd, upd.node if upd else None, "Hasher.update does not pass the data unchanged to the library hasher", construct="Hasher.update")

    # ------------------------------------------------------------------ R1.3
    r3 = report.rule("R1.3", "hex text form: string_digest is hexdigest() of the same library hasher that update() feeds, without case change / slicing; the decoder is unhexlify", 1)
    hexh = next((cq for cq in p.classes if cq.endswith("hasher.HexHasher")), None)
    sd = p.classes[hexh].methods.get("string_digest")
    rets = [n for n in walk_no_nested(sd.node) if isinstance(n, ast.Return)]
    r3.instance(sd, sd.node, "HexHasher.string_digest")
    r3.check(len(rets) == 1 and norm(rets[0].value) == "self.hasher.hexdigest()", sd, rets[0] if rets else sd.node, "hex digests are not the library's hexdigest() as is (lower-case, full length)", construct=f"string_digest returns {norm(rets[0].value) if rets else '-'}")
    bd = p.classes[hexh].methods.get("bytes_from_string_digest")
    rets = [n for n in walk_no_nested(bd.node) if isinstance(n, ast.Return)]
    r3.check(len(rets) == 1 and norm(rets[0].value) in (f"binascii.unhexlify({bd.params[1]})", f"bytes.fromhex({bd.params[1]})"), bd, rets[0] if rets else bd.node, "hex digests are not decoded with unhexlify / bytes.fromhex", construct="hex decoder")
    # no class overrides string_digest except the hex and c4 implementations
    impls = [cq for cq, c in p.classes.items() if "string_digest" in c.methods and c.module.name.endswith("hasher")]
    r3.check(len(impls) == 3, None, None, f"string_digest is implemented by {impls}: a format-specific override changes the text form", construct="string_digest implementations")

    # ------------------------------------------------------------------ R1.4
    r4 = report.rule("R1.4", "c4 codec: alphabet is the base-58 C4 alphabet, every radix constant equals its length (58), width 90 with prefix 'c4', left padding with the zero digit, decoder mirrors the encoder, 64 bytes big-endian", 2)
    c4 = next((cq for cq in p.classes if cq.endswith("hasher.C4")), None)
    enc, dec = p.classes[c4].methods.get("string_digest"), p.classes[c4].methods.get("bytes_from_string_digest")
    if enc is None or dec is None:
        raise AnalysisError("C4 codec methods not found")
    alpha = None
    for s in p.classes[c4].node.body:
        if isinstance(s, ast.Assign) and isinstance(s.value, ast.Constant) and isinstance(s.value.value, str) and len(s.value.value) > 40:
            alpha = s.value.value
            alpha_name = s.targets[0].id
    r4.instance(enc, enc.node, "encoder")
    r4.instance(dec, dec.node, "decoder")
    r4.check(alpha == BASE58, None, None, "the C4 alphabet is not the 58-character base-58 alphabet (no 0, O, I, l)", construct="c4 alphabet")
    for f in (enc, dec):
        for n in walk_no_nested(f.node):
            if isinstance(n, ast.BinOp) and isinstance(n.op, (ast.Mod, ast.FloorDiv, ast.Mult)):
                rv = p.fold(n.right, f)
                lv = p.fold(n.left, f)
                cands = [v for v in (rv, lv) if isinstance(v, int)]
                r4.check(58 in cands, f, n, f"radix constant in `{norm(n)}` is not 58", construct=f"radix in {norm(n)}")
            if isinstance(n, ast.Call) and norm(n.func) == "divmod":
                raise AnalysisError(f"{f.loc(n)}: codec rewritten with divmod (unrecognised style)")
    et = norm(enc.node)
    r4.check("int(sha512_string, 16)" in et.replace(norm(_first_assign_name(enc)), "sha512_string") or "int(" in et and ", 16)" in et, enc, enc.node, "the digest is not parsed as a base-16 integer", construct="int(hexdigest, 16)")
    r4.check("self.hasher.hexdigest()" in et, enc, enc.node, "c4 is not derived from the full SHA-512 hexdigest", construct="c4 source digest")
    # prepend digits
    pre = [n for n in walk_no_nested(enc.node) if isinstance(n, ast.Assign) and isinstance(n.value, ast.BinOp) and isinstance(n.value.op, ast.Add) and isinstance(n.value.left, ast.Subscript) and norm(n.value.left.value).endswith(alpha_name)]
    r4.check(len(pre) == 1 and norm(pre[0].value.right) == norm(pre[0].targets[0]), enc, pre[0] if pre else enc.node, "base-58 digits are not prepended (most significant digit first)", construct="digit order")
    pads = [n for n in walk_no_nested(enc.node) if isinstance(n, ast.Call) and isinstance(n.func, ast.Attribute) and n.func.attr in ("rjust", "ljust", "zfill", "center")]
    okp = len(pads) == 1 and pads[0].func.attr == "rjust" and len(pads[0].args) == 2
    if okp:
        width, fill = p.fold(pads[0].args[0], enc), p.fold(pads[0].args[1], enc)
        par = parent(pads[0])
        prefix = p.fold(par.left, enc) if isinstance(par, ast.BinOp) and isinstance(par.op, ast.Add) else None
        okp = prefix == "c4" and isinstance(width, int) and width + len(prefix) == 90 and fill == BASE58[0]
        r4.check(okp, enc, pads[0], f"c4 text form is not 'c4' + 88 digits left-padded with '1' (prefix {prefix!r}, width {width}, fill {fill!r})", construct=f"padding {norm(pads[0])}")
    else:
        r4.check(False, enc, pads[0] if pads else enc.node, "c4 digits are not left-padded with rjust(width, zero digit)", construct=f"padding {norm(pads[0]) if pads else 'none'}")
    dt = norm(dec.node)
    starts = [n for n in walk_no_nested(dec.node) if isinstance(n, ast.Assign) and isinstance(n.targets[0], ast.Name) and isinstance(n.value, ast.Constant) and isinstance(n.value.value, int)]
    idxvar = next((n.targets[0].id for n in starts if n.value.value == 2), None)
    wl = [n for n in walk_no_nested(dec.node) if isinstance(n, ast.While)]
    okd = idxvar is not None and len(wl) == 1 and isinstance(wl[0].test, ast.Compare) and norm(wl[0].test.left) == idxvar and isinstance(wl[0].test.ops[0], ast.Lt) and p.fold(wl[0].test.comparators[0], dec) == 90
    r4.check(okd, dec, wl[0] if wl else dec.node, "the decoder does not read the digits at positions [2, 90)", construct="decoder bounds")
    acc = [n for n in walk_no_nested(dec.node) if isinstance(n, ast.Assign) and isinstance(n.value, ast.BinOp) and isinstance(n.value.op, ast.Add) and isinstance(n.value.left, ast.BinOp) and isinstance(n.value.left.op, ast.Mult)]
    r4.check(len(acc) == 1 and norm(acc[0].value.left.left) == norm(acc[0].targets[0]), dec, acc[0] if acc else dec.node, "the decoder does not accumulate result * 58 + digit left to right", construct="decoder accumulation")
    r4.check(f"{alpha_name}.index(" in dt, dec, dec.node, "the decoder does not look digits up in the same alphabet", construct="decoder alphabet")
    tb = [n for n in walk_no_nested(dec.node) if isinstance(n, ast.Call) and isinstance(n.func, ast.Attribute) and n.func.attr == "to_bytes"]
    okb = len(tb) == 1 and p.fold(tb[0].args[0], dec) == 64 and any(k.arg == "byteorder" and p.fold(k.value, dec) == "big" for k in tb[0].keywords) or (len(tb) == 1 and len(tb[0].args) == 2 and p.fold(tb[0].args[1], dec) == "big" and p.fold(tb[0].args[0], dec) == 64)
    r4.check(okb, dec, tb[0] if tb else dec.node, "the decoded value is not rendered as 64 bytes big-endian", construct="decoder to_bytes")

    # ------------------------------------------------------------------ R1.5
    r5 = report.rule("R1.5", "single implementation: digest libraries are imported only by the hasher module, and from every command file digests are computed only through the two read loops", 4)
    for m in p.modules.values():
        if m.name in unshipped:
            continue
        for n in ast.walk(m.tree):
            names = []
            if isinstance(n, ast.Import):
                names = [a.name.split(".")[0] for a in n.names]
            elif isinstance(n, ast.ImportFrom) and n.level == 0 and n.module:
                names = [n.module.split(".")[0]]
            for nm in names:
                if nm in DIGEST_LIBS:
                    r5.instance(None, n, f"{m.name} imports {nm}")
                    r5.check(m.name.endswith("hasher"), None, n, f"digest library {nm} is imported by {m.name}: a second hashing implementation next to the hasher module", construct=f"{m.name} imports {nm}")
    loop_q = {f.qual for f, _ in loops}
    # entry points route through the loops
    for ep in ("hash_file", "multiple_format_hash_file"):
        f = p.funcs.get("ascmhl.hasher." + ep)
        if f is None:
            raise AnalysisError(f"hasher.{ep} not found")
        r5.instance(f, f.node, f"entry point {ep}")
        r5.check(any(q in p.reachable([f.qual]) for q in loop_q), f, f.node, f"hasher.{ep} does not reach a read loop", construct=f"{ep} routing")

    report.not_decided += ["that hashlib/xxhash implement the standard algorithms", "the base-58 conversion for all 512-bit values (only its constants, direction and encoder/decoder agreement)", "digests of concrete files"]


def _loop_over_hashers(lp, c):
    return norm(lp.target) in norm(c.func.value)


def _first_assign_name(f):
    for n in walk_no_nested(f.node):
        if isinstance(n, ast.Assign) and isinstance(n.targets[0], ast.Name) and "hexdigest" in norm(n.value):
            return n.targets[0]
    return ast.Name(id="sha512_string")


def _stmt(n):
    x = n
    while x is not None and not isinstance(x, ast.stmt):
        x = parent(x)
    return x


def finish(report):
    return report.finish(
        level="other",
        explanation="CFG path rule on both read loops (no chunk can bypass a hasher, no exit but EOF), agreement of the format table with the property's table, constants/direction of the c4 codec "
        "and encoder/decoder agreement, who-may-import the digest libraries. Numeric results are not computed.",
    )
