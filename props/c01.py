"""C01 - file digests are the standard algorithms over the exact file bytes (structural clauses)."""
from __future__ import annotations

import ast

from sa.cfg import cfg_of
from sa.effects import open_mode
from sa.flow import show, sig, subterms
from sa.model import AnalysisError, norm, parent, walk_no_nested

from .common import include_rules, alts, callers_of, commands, is_call, is_const, is_plain_iter, prov, unshipped_modules
from .xmlcommon import format_domain

BASE58 = "123456789ABCDEFGHJKLMNPQRSTUVWXYZabcdefghijkmnopqrstuvwxyz"
FORMAT_TABLE = {
    "md5": {"hashlib.md5"},
    "sha1": {"hashlib.sha1"},
    "xxh32": {"xxhash.xxh32"},
    "xxh64": {"xxhash.xxh64"},
    "xxh3": {"xxhash.xxh3_64", "xxhash.xxh3_64_digest"} - {"xxhash.xxh3_64_digest"},
    "xxh128": {"xxhash.xxh3_128", "xxhash.xxh128"},
    "c4": {"hashlib.sha512"},
}
DIGEST_LIBS = ("hashlib", "xxhash", "zlib", "binascii", "hmac", "blake3", "crc32c")


def read_loop_funcs(p):
    out = []
    for fq, f in p.funcs.items():
        reads = [c for c, tg in p.calls[fq] if any(t in ("extm:open().read", "extm:open().readinto") for t in tg)]
        if reads and f.module.name.endswith("hasher"):
            out.append((f, reads))
    return out


def run(report, p):
    pr = prov(p)
    cmds = commands(p)
    unshipped = unshipped_modules(p)
    report.assume("hashlib / xxhash compute the standard algorithms")
    report.assume("base-58 arithmetic of Python integers; only constants, direction and encoder/decoder agreement are checked")

    # ------------------------------------------------------------------ R1.1 / R1.6 (props/readloops.py)
    r1 = report.rule(
        "R1.1",
        "read-loop completeness: the file is opened in binary read mode; every chunk returned by read() reaches update() of every hasher (directly, or through a chunk generator whose "
        "every consumer feeds every hasher) before the next read or the function's exit, unless it is the empty chunk that ends the loop; the loop has no other exit; read size is a positive constant; no seek",
        2,
    )
    r6 = report.rule("R1.6", "every hasher is built fresh: cls() for the single-format path, one factory call per requested format stored under that format for the read-once multi-format path", 2)
    from .readloops import analyse

    loops, owners = analyse(p, pr, r1, r6)

    # ------------------------------------------------------------------ R1.2
    r2 = report.rule("R1.2", "format table: each supported format name resolves to the standard algorithm (md5, sha1, xxh32, xxh64, xxh3 -> XXH3-64, xxh128 -> XXH3-128, c4 -> SHA-512); every CLI format has a hasher", 7)
    ht = next((cq for cq in p.classes if cq.endswith("hasher.HashType")), None)
    if ht is None:
        raise AnalysisError("HashType enum not found")
    members = p.enum_members(ht)
    for name, want in FORMAT_TABLE.items():
        r2.instance(None, None, f"{name} -> {sorted(want)}")
        v = members.get(name)
        cq = p.resolve_name_expr(v, p.classes[ht].module) if v is not None else None
        got = None
        if cq in p.classes:
            mq = p.find_method(cq, "hashlib_type")
            if mq:
                rets = [n for n in walk_no_nested(p.funcs[mq].node) if isinstance(n, ast.Return)]
                if len(rets) == 1:
                    got = p.resolve_name_expr(rets[0].value, p.funcs[mq].module)
        r2.check(got in want, None, None, f"format {name} is computed with {got}, the property requires {sorted(want)}", construct=f"format {name} -> {got}")
    dom = format_domain(p)
    r2.check(set(dom) <= set(members), None, None, f"supported formats {dom} without a hasher: {sorted(set(dom) - set(members))}", construct="supported formats have hashers")
    base = next((cq for cq in p.classes if cq.endswith("hasher.Hasher")), None)
    init = p.classes[base].methods.get("__init__")
    it = norm(init.node) if init else ""
    r2.check("self.hasher = self.hashlib_type()()" in it, init, init.node if init else None, "the wrapped library hasher is not created fresh and unseeded from hashlib_type()", construct="Hasher.__init__")
    upd = p.classes[base].methods.get("update")
    r2.check(upd is not None and any(isinstance(n, ast.Call) and norm(n) == f"self.hasher.update({upd.params[1]})" for n in walk_no_nested(upd.node)), upd, upd.node if upd else None, "Hasher.update does not pass the data unchanged to the library hasher", construct="Hasher.update")

    # ------------------------------------------------------------------ R1.3
    r3 = report.rule("R1.3", "hex text form: string_digest is hexdigest() of the same library hasher that update() feeds, without case change / slicing; the decoder is unhexlify", 1)
    hexh = next((cq for cq in p.classes if cq.endswith("hasher.HexHasher")), None)
    sd = p.classes[hexh].methods.get("string_digest")
    rets = [n for n in walk_no_nested(sd.node) if isinstance(n, ast.Return)]
    r3.instance(sd, sd.node, "HexHasher.string_digest")
    r3.check(len(rets) == 1 and norm(rets[0].value) == "self.hasher.hexdigest()", sd, rets[0] if rets else sd.node, "hex digests are not the library's hexdigest() as is (lower-case, full length)", construct=f"string_digest returns {norm(rets[0].value) if rets else '-'}")
    bd = p.classes[hexh].methods.get("bytes_from_string_digest")
    rets = [n for n in walk_no_nested(bd.node) if isinstance(n, ast.Return)]
    r3.check(len(rets) == 1 and norm(rets[0].value) in (f"binascii.unhexlify({bd.params[-1]})", f"bytes.fromhex({bd.params[-1]})"), bd, rets[0] if rets else bd.node, "hex digests are not decoded with unhexlify / bytes.fromhex", construct="hex decoder")
    # no class overrides string_digest except the hex and c4 implementations
    impls = [cq for cq, c in p.classes.items() if "string_digest" in c.methods and c.module.name.endswith("hasher")]
    r3.check(len(impls) == 3, None, None, f"string_digest is implemented by {impls}: a format-specific override changes the text form", construct="string_digest implementations")

    # ------------------------------------------------------------------ R1.4
    r4 = report.rule("R1.4", "c4 codec: alphabet is the base-58 C4 alphabet, every radix constant equals its length (58), width 90 with prefix 'c4', left padding with the zero digit, decoder mirrors the encoder, 64 bytes big-endian", 2)
    c4 = next((cq for cq in p.classes if cq.endswith("hasher.C4")), None)
    enc, dec = p.classes[c4].methods.get("string_digest"), p.classes[c4].methods.get("bytes_from_string_digest")
    if enc is None or dec is None:
        raise AnalysisError("C4 codec methods not found")
    alpha = None
    for s in p.classes[c4].node.body:
        if isinstance(s, ast.Assign) and isinstance(s.value, ast.Constant) and isinstance(s.value.value, str) and len(s.value.value) > 40:
            alpha = s.value.value
            alpha_name = s.targets[0].id
    r4.instance(enc, enc.node, "encoder")
    r4.instance(dec, dec.node, "decoder")
    r4.check(alpha == BASE58, None, None, "the C4 alphabet is not the 58-character base-58 alphabet (no 0, O, I, l)", construct="c4 alphabet")
    for f in (enc, dec):
        for n in walk_no_nested(f.node):
            if isinstance(n, ast.BinOp) and isinstance(n.op, (ast.Mod, ast.FloorDiv, ast.Mult)):
                rv = p.fold(n.right, f)
                lv = p.fold(n.left, f)
                if isinstance(n.op, ast.Mult) and (isinstance(rv, str) or isinstance(lv, str)):
                    continue  # repetition of a string, not arithmetic in the radix
                cands = [v for v in (rv, lv) if isinstance(v, int)]
                r4.check(58 in cands, f, n, f"radix constant in `{norm(n)}` is not 58", construct=f"radix in {norm(n)}")
            if isinstance(n, ast.Call) and norm(n.func) == "divmod":
                ok = len(n.args) == 2 and p.fold(n.args[1], f) == 58
                r4.check(ok, f, n, f"radix in `{norm(n)}` is not 58", construct=f"radix in {norm(n)}")
                st = _stmt(n)
                # quotient must replace the running value, remainder is the digit
                okq = isinstance(st, ast.Assign) and isinstance(st.targets[0], ast.Tuple) and len(st.targets[0].elts) == 2 and norm(st.targets[0].elts[0]) == norm(n.args[0])
                r4.check(okq, f, st, "divmod result is not unpacked as (running value, digit)", construct="divmod unpacking")
    et = norm(enc.node)
    # the number that is rendered: int(<hexdigest()>, 16) or, equivalently, int.from_bytes(<digest()>, "big")
    conv = []
    for n in walk_no_nested(enc.node):
        if isinstance(n, ast.Call) and norm(n.func) == "int" and len(n.args) == 2:
            conv.append(("hex", n, p.fold(n.args[1], enc) == 16))
        if isinstance(n, ast.Call) and norm(n.func) == "int.from_bytes" and n.args:
            order = n.args[1] if len(n.args) > 1 else next((k.value for k in n.keywords if k.arg == "byteorder"), None)
            signed = next((k.value for k in n.keywords if k.arg == "signed"), None)
            conv.append(("bytes", n, order is not None and p.fold(order, enc) == "big" and (signed is None or p.fold(signed, enc) is False)))
    if len(conv) != 1:
        raise AnalysisError(f"{enc.qual}: conversion of the digest into the integer that is rendered not recognised ({len(conv)} candidates)")
    kind, cnode, okc = conv[0]
    r4.check(okc, enc, cnode, "the digest is not parsed as a base-16 integer" if kind == "hex" else "the digest bytes are not read as an unsigned big-endian integer", construct="int(hexdigest, 16)" if kind == "hex" else "int.from_bytes(digest, big)")
    want = "hexdigest" if kind == "hex" else "digest"
    src_ok = any(o[0] == "call" and o[1].endswith("." + want) and "hasher" in sig(o) for o in prov(p).origins(cnode.args[0], enc)) or f"self.hasher.{want}()" in norm(cnode.args[0]) or any(isinstance(a, ast.Assign) and norm(a.targets[0]) == norm(cnode.args[0]) and norm(a.value) == f"self.hasher.{want}()" for a in walk_no_nested(enc.node))
    r4.check(src_ok, enc, cnode, "c4 is not derived from the full SHA-512 hexdigest" if kind == "hex" else "c4 is not derived from the full SHA-512 digest", construct="c4 source digest")
    # digits are prepended
    pre = [n for n in walk_no_nested(enc.node) if isinstance(n, ast.Assign) and isinstance(n.value, ast.BinOp) and isinstance(n.value.op, ast.Add) and isinstance(n.value.left, ast.Subscript) and norm(n.value.left.value).endswith(alpha_name)]
    app = [n for n in walk_no_nested(enc.node) if isinstance(n, (ast.Assign, ast.AugAssign)) and isinstance(getattr(n, "value", None), (ast.BinOp, ast.Subscript)) and ((isinstance(n, ast.AugAssign) and isinstance(n.value, ast.Subscript) and norm(n.value.value).endswith(alpha_name)) or (isinstance(n, ast.Assign) and isinstance(n.value, ast.BinOp) and isinstance(n.value.right, ast.Subscript) and norm(n.value.right.value).endswith(alpha_name)))]
    if not pre and not app:
        raise AnalysisError(f"{enc.qual}: base-58 digit accumulation not recognised")
    r4.check(len(pre) == 1 and not app and norm(pre[0].value.right) == norm(pre[0].targets[0]), enc, (pre + app)[0], "base-58 digits are not prepended (most significant digit first)", construct="digit order")
    # the loop runs until the value is exhausted
    ewl = [n for n in walk_no_nested(enc.node) if isinstance(n, ast.While)]
    if len(ewl) != 1:
        raise AnalysisError(f"{enc.qual}: encoder loop not recognised")
    wt = norm(ewl[0].test).replace(" ", "")
    valname = wt.split("!=")[0].split(">")[0]
    r4.check(wt in (f"{valname}!=0", f"{valname}>0", valname), enc, ewl[0], f"the encoder loop `{norm(ewl[0].test)}` does not run until the value is used up", construct="encoder loop condition")
    pads = [n for n in walk_no_nested(enc.node) if isinstance(n, ast.Call) and isinstance(n.func, ast.Attribute) and n.func.attr in ("rjust", "ljust", "zfill", "center")]
    if not pads:
        # padding by repetition of the zero digit:  "c4" + zero * (88 - len(digits)) + digits
        reps = [n for n in walk_no_nested(enc.node) if isinstance(n, ast.BinOp) and isinstance(n.op, ast.Mult) and any(isinstance(p.fold(x, enc), str) and len(p.fold(x, enc)) == 1 for x in (n.left, n.right))]
        if len(reps) == 1 and pre:
            rp = reps[0]
            cnt = rp.right if isinstance(p.fold(rp.left, enc), str) else rp.left
            zero = p.fold(rp.left, enc) if isinstance(p.fold(rp.left, enc), str) else p.fold(rp.right, enc)
            seen_n = 0
            while isinstance(cnt, ast.Name) and seen_n < 4:
                b = [a for a in walk_no_nested(enc.node) if isinstance(a, ast.Assign) and len(a.targets) == 1 and norm(a.targets[0]) == cnt.id]
                if len(b) != 1:
                    break
                cnt, seen_n = b[0].value, seen_n + 1
            digits = norm(pre[0].targets[0])
            uses_len = any(isinstance(x, ast.Call) and norm(x.func) == "len" and x.args and norm(x.args[0]) == digits for x in ast.walk(cnt))
            widths = [x.value for x in ast.walk(cnt) if isinstance(x, ast.Constant) and isinstance(x.value, int) and not isinstance(x.value, bool)] + [p.fold(x, enc) for x in ast.walk(cnt) if isinstance(x, ast.Name) and isinstance(p.fold(x, enc), int)]
            if not uses_len:
                r4.check(False, enc, rp, f"the number of padding digits `{norm(cnt)[:70]}` does not depend on how many base-58 digits were produced: the c4 ID is a fixed-width 88-digit number, padded to that width whatever the leading bytes of the digest are", construct="c4 padding count independent of the digit count")
            else:
                r4.check(88 in widths and zero == BASE58[0], enc, rp, f"c4 text form is not padded with '1' to 88 digits ({norm(rp)[:60]})", construct=f"padding {norm(rp)[:40]}")
            pads = None
    if pads is not None and len(pads) != 1:
        raise AnalysisError(f"{enc.qual}: padding step not recognised")
    if pads is None:
        pads = []
    okp = bool(pads) and pads[0].func.attr == "rjust" and len(pads[0].args) == 2
    width = fill = prefix = None
    if okp:
        width, fill = p.fold(pads[0].args[0], enc), p.fold(pads[0].args[1], enc)
        par = parent(pads[0])
        prefix = p.fold(par.left, enc) if isinstance(par, ast.BinOp) and isinstance(par.op, ast.Add) else None
        okp = prefix == "c4" and isinstance(width, int) and width + len(prefix) == 90 and fill == BASE58[0]
    if pads:
      r4.check(okp, enc, pads[0], f"c4 text form is not 'c4' + 88 digits left-padded with '1' ({norm(pads[0])}; prefix {prefix!r}, width {width}, fill {fill!r})", construct=f"padding {norm(pads[0])}")
    # decoder
    dt = norm(dec.node)
    wl = [n for n in walk_no_nested(dec.node) if isinstance(n, ast.While)]
    fl = [n for n in walk_no_nested(dec.node) if isinstance(n, ast.For)]
    if len(wl) + len(fl) != 1:
        raise AnalysisError(f"{dec.qual}: decoder loop not recognised")
    if wl:
        starts = [n for n in walk_no_nested(dec.node) if isinstance(n, ast.Assign) and isinstance(n.targets[0], ast.Name) and isinstance(p.fold(n.value, dec), int) and not isinstance(p.fold(n.value, dec), bool) and not _inside_node(n, wl[0])]
        t = wl[0].test
        idxvar = norm(t.left) if isinstance(t, ast.Compare) else None
        start = next((p.fold(n.value, dec) for n in starts if n.targets[0].id == idxvar), None)
        okd = idxvar is not None and isinstance(t.ops[0], ast.Lt) and p.fold(t.comparators[0], dec) == 90 and start == 2
        incs = [n for n in ast.walk(wl[0]) if (isinstance(n, ast.AugAssign) and norm(n.target) == idxvar and isinstance(n.op, ast.Add) and p.fold(n.value, dec) == 1) or (isinstance(n, ast.Assign) and norm(n.targets[0]) == idxvar and norm(n.value).replace(" ", "") in (f"{idxvar}+1", f"1+{idxvar}"))]
        okd = okd and len(incs) == 1
        r4.check(okd, dec, wl[0], "the decoder does not read the digits at positions [2, 90) one by one", construct="decoder bounds")
        loopnode = wl[0]
    else:
        it = fl[0].iter
        direct = False
        if isinstance(it, ast.Subscript) and isinstance(it.slice, ast.Slice) and isinstance(it.value, ast.Name) and it.value.id in dec.params:
            # for ch in text[2:] / text[2:90]: the characters themselves, in order (same digits for every canonical 90-character id)
            sl = it.slice
            okd = p.fold(sl.lower, dec) == 2 and (sl.upper is None or p.fold(sl.upper, dec) == 90) and sl.step is None
            direct = True
        else:
            okd = isinstance(it, ast.Call) and norm(it.func) == "range" and len(it.args) in (2, 3) and p.fold(it.args[0], dec) == 2 and p.fold(it.args[1], dec) == 90 and (len(it.args) == 2 or p.fold(it.args[2], dec) == 1)
        r4.check(okd, dec, fl[0], "the decoder does not read the digits at positions [2, 90) one by one", construct="decoder bounds")
        idxvar = norm(fl[0].target)
        loopnode = fl[0]
    acc = [n for n in ast.walk(loopnode) if isinstance(n, ast.Assign) and isinstance(n.value, ast.BinOp) and isinstance(n.value.op, ast.Add) and isinstance(n.value.left, ast.BinOp) and isinstance(n.value.left.op, ast.Mult)]
    if len(acc) != 1:
        raise AnalysisError(f"{dec.qual}: decoder accumulation not recognised")
    r4.check(norm(acc[0].value.left.left) == norm(acc[0].targets[0]), dec, acc[0], "the decoder does not accumulate result * 58 + digit left to right", construct="decoder accumulation")
    r4.check(f"{alpha_name}.index(" in dt and (f"[{idxvar}]" in dt or (not wl and direct and f"{alpha_name}.index({idxvar})" in dt)), dec, dec.node, "the decoder does not look the digit at the running position up in the same alphabet", construct="decoder alphabet")
    tb = [n for n in walk_no_nested(dec.node) if isinstance(n, ast.Call) and isinstance(n.func, ast.Attribute) and n.func.attr == "to_bytes"]
    okb = len(tb) == 1 and len(tb[0].args) >= 1 and p.fold(tb[0].args[0], dec) == 64 and (any(k.arg == "byteorder" and p.fold(k.value, dec) == "big" for k in tb[0].keywords) or (len(tb[0].args) == 2 and p.fold(tb[0].args[1], dec) == "big"))
    r4.check(okb, dec, tb[0] if tb else dec.node, "the decoded value is not rendered as 64 bytes big-endian", construct="decoder to_bytes")

    # ------------------------------------------------------------------ R1.5
    r5 = report.rule("R1.5", "single implementation: digest libraries are imported only by the hasher module, and from every command file digests are computed only through the two read loops", 4)
    for m in p.modules.values():
        if m.name in unshipped:
            continue
        for n in ast.walk(m.tree):
            names = []
            if isinstance(n, ast.Import):
                names = [a.name.split(".")[0] for a in n.names]
            elif isinstance(n, ast.ImportFrom) and n.level == 0 and n.module:
                names = [n.module.split(".")[0]]
            for nm in names:
                if nm in DIGEST_LIBS:
                    r5.instance(None, n, f"{m.name} imports {nm}")
                    r5.check(m.name.endswith("hasher"), None, n, f"digest library {nm} is imported by {m.name}: a second hashing implementation next to the hasher module", construct=f"{m.name} imports {nm}")
    loop_q = {f.qual for f, _ in loops}
    # entry points route through the loops
    for ep in ("hash_file", "multiple_format_hash_file"):
        f = p.funcs.get("ascmhl.hasher." + ep)
        if f is None:
            raise AnalysisError(f"hasher.{ep} not found")
        r5.instance(f, f.node, f"entry point {ep}")
        r5.check(any(q in p.reachable([f.qual]) for q in loop_q), f, f.node, f"hasher.{ep} does not reach a read loop", construct=f"{ep} routing")

    # ------------------------------------------------------------------ R1.7
    r7 = report.rule(
        "R1.7",
        "no memoisation on the digest path: no function through which a file digest is obtained (every function from which a read loop is reachable, and the hasher module itself) "
        "is wrapped in a cache decorator - a digest must be computed from the bytes read now, not recalled by (path, size, mtime)",
        10,
    )
    for fq, f in sorted(p.funcs.items()):
        if f.module.name in unshipped:
            continue
        on_path = f.module.name.endswith("hasher") or any(q in loop_q for q in p.reachable([fq]))
        if not on_path:
            continue
        r7.instance(f, f.node, f.qual)
        r7.check(not f.memoised, f, f.node, f"{f.qual} is memoised ({', '.join(d for d in f.decorators)}): a file whose content was replaced without changing what the cache is keyed by (same size and modification time) gets the remembered digest instead of the digest of its bytes", construct=f"memoised digest function {f.name}")

    # hand-rolled caches: a module-level container that is created empty and filled inside a function on the digest path
    for m in p.modules.values():
        if m.name in unshipped:
            continue
        empties = {}
        for st in m.tree.body:
            if isinstance(st, (ast.Assign, ast.AnnAssign)) and st.value is not None:
                v = st.value
                if (isinstance(v, ast.Dict) and not v.keys) or (isinstance(v, ast.Call) and norm(v.func) in ("dict", "collections.OrderedDict", "OrderedDict", "collections.defaultdict", "defaultdict", "weakref.WeakValueDictionary") and not v.args):
                    for t in (st.targets if isinstance(st, ast.Assign) else [st.target]):
                        if isinstance(t, ast.Name):
                            empties[t.id] = st
        if not empties:
            continue
        for fq, f in sorted(p.funcs.items()):
            if f.module is not m or not (m.name.endswith("hasher") or any(q in loop_q for q in p.reachable([fq]))):
                continue
            for n in walk_no_nested(f.node):
                tgt = None
                if isinstance(n, ast.Assign):
                    for t in n.targets:
                        if isinstance(t, ast.Subscript) and isinstance(t.value, ast.Name) and t.value.id in empties:
                            tgt = t.value.id
                elif isinstance(n, ast.Call) and isinstance(n.func, ast.Attribute) and n.func.attr in ("setdefault", "update") and isinstance(n.func.value, ast.Name) and n.func.value.id in empties:
                    tgt = n.func.value.id
                if tgt is not None and tgt not in f.params and not any(isinstance(x, ast.Name) and isinstance(x.ctx, ast.Store) and x.id == tgt for x in walk_no_nested(f.node)):
                    r7.instance(f, n, f"module-level container {tgt} filled in {f.name}")
                    r7.check(False, f, n, f"{f.qual} fills the module-level container `{tgt}` (created empty at {m.name}:{empties[tgt].lineno}): results on the digest path are remembered across calls", construct=f"module-level cache {tgt} on the digest path")

    # ------------------------------------------------------------------ R1.8
    def _r18():
        r8 = report.rule(
            "R1.8",
            "entry points hand through: every module-level function of the hasher module that reaches a read loop returns that loop's own result for the path and format(s) it was given "
            "- the requested format list reaches the loop unfiltered, and no returned digest is cut out of / derived from the digest of another format",
            2,
        )
        hmod = next((m for m in p.modules.values() if m.name.endswith(".hasher")), None)
        for fq, f in sorted(p.funcs.items()):
            if f.module is not hmod or f.cls is not None or f.outer is not None or fq in loop_q:
                continue
            if not any(q in loop_q for q in p.reachable([fq])):
                continue
            rets = [n for n in walk_no_nested(f.node) if isinstance(n, ast.Return) and n.value is not None]
            if not rets:
                continue
            for rt in rets:
                r8.instance(f, rt, f"{f.name}: return {norm(rt.value)[:60]}")
                for o in pr.origins(rt.value, f):
                    for a in alts(o):
                        loop_calls = [t for t in subterms(a) if t[0] == "call" and (t[1] in loop_q or (t[1] in p.funcs and p.funcs[t[1]].module is hmod and t[1] != fq and any(q in loop_q for q in p.reachable([t[1]]))))]
                        if not loop_calls:
                            raise AnalysisError(f"{f.loc(rt)}: {f.name} returns `{show(a)[:100]}`, which is not built from a read loop's result")
                        for lc in loop_calls:
                            callee = p.funcs.get(lc[1])
                            cparams = [x for x in (callee.params if callee else []) if x not in ("self", "cls")]
                            bad_args = []
                            for i, x in enumerate(lc[2]):
                                if x[0] in ("param", "const"):
                                    continue
                                if x[0] == "call" and x[1] in ("ext:os.path.abspath", "ext:os.path.realpath", "ext:os.path.normpath", "builtin:str", "ext:os.fspath") and all(y[0] == "param" for y in x[2]):
                                    continue  # the same file, spelled absolutely
                                pname = cparams[i] if i < len(cparams) else ""
                                if "format" in pname:
                                    bad_args.append(x)
                                else:
                                    raise AnalysisError(f"{f.loc(rt)}: {f.name} passes `{show(x)[:80]}` as `{pname}` to the read loop, a form this checker does not model")
                            r8.check(not bad_args, f, rt, f"{f.name} does not hand the format list it was given to the read loop unchanged (`{show(bad_args[0])[:80] if bad_args else ''}`): formats are computed for another list than the requested one", construct=f"{f.name}: read loop format argument is not the caller's")
                        # a digest string must not be indexed / sliced: elem(elem(<loop result>, format), <index>)
                        cut = [t for t in subterms(a) if t[0] == "elem" and t[1][0] == "elem" and t[1][1][0] == "call" and t[1][1] in loop_calls]
                        r8.check(not cut, f, rt, f"{f.name} returns a value cut out of another digest (`{show(cut[0])[:110] if cut else ''}`): the digest of a format is not the standard algorithm's digest of the file's bytes", construct=f"{f.name}: digest derived from another format's digest")
                        if not cut and not (a[0] == "call" and any(a is lc for lc in loop_calls)):
                            # some other repackaging of the loop's result: must be recognisable as identity
                            if not r8.findings:
                                raise AnalysisError(f"{f.loc(rt)}: {f.name} repackages the read loop's result in a way this checker does not model: {show(a)[:120]}")


    # ------------------------------------------------------------------ R1.9
    r9 = report.rule(
        "R1.9",
        "argument roles at the hashing entry points: what is bound to a `*format*` parameter never originates from a path-typed command option / argument (click.Path), "
        "and what is bound to a path parameter never originates from a format option (click.Choice over the supported formats)",
        4,
    )
    from .common import commands as _cmds

    typed = {}
    for c in _cmds(p).values():
        for pn, o in p.click_options(c).items():
            d = norm(o["node"])
            typed[(c.qual, pn)] = "path" if "click.Path" in d else ("format" if "click.Choice(ascmhl_supported_hashformats)" in d else None)
    entry_q = [q for q in ("ascmhl.hasher.hash_file", "ascmhl.hasher.multiple_format_hash_file") if q in p.funcs]
    for fq, f in sorted(p.funcs.items()):
        if f.module.name in unshipped:
            continue
        for call, tg in p.calls[fq]:
            for eq in entry_q:
                if eq not in tg:
                    continue
                ef = p.funcs[eq]
                r9.instance(f, call, norm(call)[:80])
                for pn, arg in p.bind_args(ef, call).items():
                    if arg is None or not any(arg is x for x in list(call.args) + [k.value for k in call.keywords]):
                        continue
                    want = "format" if "format" in pn else "path"
                    kinds = set()
                    for o in pr.origins(arg, f):
                        full = pr.expand_params(o, depth=4)
                        work = [full]
                        while work:
                            t = work.pop()
                            if t[0] == "alt":
                                work += list(t[1])
                            elif t[0] == "elem":
                                work.append(t[1])  # an element of a multi-valued option
                            elif t[0] == "call" and t[1] in ("ext:os.path.join", "ext:os.path.abspath", "builtin:sorted", "builtin:list") and t[2]:
                                work += list(t[2])  # the value itself, made absolute / ordered
                            elif t[0] == "param" and typed.get((t[1], t[2])):
                                kinds.add(typed[(t[1], t[2])])
                    wrong = kinds - {want}
                    r9.check(not (wrong and want not in kinds), f, call, f"`{norm(arg)}` is passed as `{pn}` of {ef.name} but originates from a {'/'.join(sorted(wrong))}-typed command option: path and format are swapped", construct=f"{ef.name}: {pn} <- {'/'.join(sorted(wrong))}-typed option")

    try:
        _r18()
    except AnalysisError as e:
        # an unmodelled entry-point shape is an analysis error only if nothing else was already found (a violation is reported first)
        if any(rr.findings for rr in report.rules):
            report.rules[-1].note(f"R1.8 not evaluated further: {e}")
        else:
            raise

    include_rules(report, p, 'c13', ['R13.3'], 'a digest is recorded for the file it was computed from: record keys are the exact relative paths (no normalisation that lets two files share one key)')
    include_rules(report, p, 'c10', ['R10.3'], 'paths are converted separator-only on the way out and in: two files whose names differ only in normal form keep separate records')
    report.not_decided += ["that hashlib/xxhash implement the standard algorithms", "the base-58 conversion for all 512-bit values (only its constants, direction and encoder/decoder agreement)", "digests of concrete files"]


def _inside_node(n, container):
    x = n
    while x is not None:
        if x is container:
            return True
        x = parent(x)
    return False


def _loop_over_hashers(lp, c):
    return norm(lp.target) in norm(c.func.value)


def _first_assign_name(f):
    for n in walk_no_nested(f.node):
        if isinstance(n, ast.Assign) and isinstance(n.targets[0], ast.Name) and "hexdigest" in norm(n.value):
            return n.targets[0]
    return ast.Name(id="sha512_string")


def _stmt(n):
    x = n
    while x is not None and not isinstance(x, ast.stmt):
        x = parent(x)
    return x


def finish(report):
    return report.finish(
        level="other",
        explanation="CFG path rule on both read loops (no chunk can bypass a hasher, no exit but EOF), agreement of the format table with the property's table, constants/direction of the c4 codec "
        "and encoder/decoder agreement, who-may-import the digest libraries. Numeric results are not computed.",
    )
