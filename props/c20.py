"""C20 - the background update check can never change or stall a command (structural clauses)."""
from __future__ import annotations

import ast

from sa.cfg import cfg_of
from sa.effects import classify
from sa.model import AnalysisError, norm, parent, walk_no_nested

from .common import alts as _alts2, commands, module_roots, prov

MAX_JOIN_S = 1.5


def updater_classes(p):
    out = [cq for cq in p.classes if any(b.endswith("threading.Thread") for b in p.ext_bases(cq))]
    if not out:
        raise AnalysisError("no threading.Thread subclass found (update checker)")
    return out


def _is_updater_expr(p, e, f, ucs):
    t = p.etype(e, f)
    return bool(t and t[0] == "C" and t[1] in ucs)


def run(report, p):
    ucs = updater_classes(p)
    # ------------------------------------------------------------------ R20.8 (evaluated first: it needs nothing but the class table)
    r8 = report.rule(
        "R20.8",
        "nothing around the command can swallow its exit: no `__exit__` in the package returns a value that can be true (a truthy return suppresses the "
        "ClickException / Exit raised by the command, turning a failure exit code into 0), and the CLI groups do not wrap command invocation in try/except",
        1,
    )
    n_exit = 0
    for cq, c in sorted(p.classes.items()):
        ex = c.methods.get("__exit__")
        if ex is None:
            continue
        n_exit += 1
        r8.instance(ex, ex.node, f"{cq}.__exit__")
        for rt in [n for n in walk_no_nested(ex.node) if isinstance(n, ast.Return) and n.value is not None]:
            v = rt.value
            harmless = isinstance(v, ast.Constant) and not v.value
            r8.check(harmless, ex, rt, f"`{cq.split('.')[-1]}.__exit__` returns `{norm(v)[:60]}`: when that is true the exception of the command (its exit code) is suppressed and the process exits 0", construct=f"__exit__ of {cq.split('.')[-1]} can return a true value")
    r8.instance(None, None, f"{n_exit} __exit__ method(s) in the package")
    for mq, m in sorted(p.modules.items()):
        if not mq.startswith("ascmhl.cli"):
            continue
        for n in ast.walk(m.tree):
            if isinstance(n, ast.FunctionDef) and n.name in ("invoke", "main", "__call__"):
                for t in [x for x in ast.walk(n) if isinstance(x, ast.Try) and x.handlers]:
                    broad = [h for h in t.handlers if h.type is None or norm(h.type) in ("Exception", "BaseException", "click.ClickException", "ClickException", "SystemExit", "click.exceptions.Exit")]
                    swallow = [h for h in broad if not any(isinstance(x, ast.Raise) for x in ast.walk(h))]
                    r8.instance(None, t, f"{mq}.{n.name}: try/except")
                    r8.check(not swallow, None, t, f"{mq}.{n.name} catches the command's exception without re-raising it", construct=f"{mq}.{n.name} swallows exceptions")
    r8.check(True, None, None, "")
    eps = p.entry_points()
    cmds = commands(p)
    report.assume("a daemon thread cannot delay interpreter shutdown (CPython semantics)")
    report.assume("click invokes a group's result callback after the sub-command returned and not at all when it raised")

    # ------------------------------------------------------------------ R20.1
    r1 = report.rule("R20.1", "the checker thread is marked daemon on every path before start(); daemon is never set to anything but True", 1)
    for uc in ucs:
        c = p.classes[uc]
        starts = []
        for fq, f in p.funcs.items():
            for call, tg in p.calls[fq]:
                if any(t.endswith("threading.Thread.start") for t in tg) and isinstance(call.func, ast.Attribute) and _is_updater_expr(p, call.func.value, f, ucs):
                    starts.append((f, call))
        if not starts:
            raise AnalysisError(f"{uc}: no start() call found")
        for f, call in starts:
            r1.instance(f, call, f"start of {uc}")
            g = cfg_of(f)
            sn = g.node_for(call)
            daemon_nodes = []
            for n in g.nodes:
                a = n.ast
                if n.kind == "stmt" and isinstance(a, ast.Assign):
                    for t in a.targets:
                        if isinstance(t, ast.Attribute) and t.attr == "daemon" and norm(t.value) == norm(call.func.value) and p.fold(a.value, f) is True:
                            daemon_nodes.append(n)
                if n.kind == "stmt" and isinstance(a, ast.Expr) and isinstance(a.value, ast.Call):
                    cc = a.value
                    if isinstance(cc.func, ast.Attribute) and cc.func.attr == "__init__" and any(k.arg == "daemon" and p.fold(k.value, f) is True for k in cc.keywords):
                        daemon_nodes.append(n)
            # constructor keyword at the creation site: Updater(daemon=True) is not used by this repo; only the two forms above
            ok = any(g.dominates(d, sn) and d is not sn for d in daemon_nodes)
            r1.check(ok, f, call, "start() is reachable without the thread having been marked daemon: a hanging update check would keep the process alive")
        for fq, f in p.funcs.items():
            for n in walk_no_nested(f.node):
                if isinstance(n, ast.Assign):
                    for t in n.targets:
                        if isinstance(t, ast.Attribute) and t.attr == "daemon" and _is_updater_expr(p, t.value, f, ucs):
                            r1.check(p.fold(n.value, f) is True, f, n, "daemon flag of the update checker is set to something other than True")

    # ------------------------------------------------------------------ R20.11
    r11 = report.rule(
        "R20.11",
        "the checker is the only concurrency in the package and nothing registers work for interpreter exit: no executor (concurrent.futures joins its worker threads in an exit hook "
        "WITHOUT a timeout, whatever the daemon flag of the thread that submitted the work), no further Thread / Timer / Process that is not marked daemon, no atexit handler, "
        "no sub-process that is waited for - each of them can hold the finished command open for as long as the update server stays silent",
        1,
    )
    _CONC = {
        "concurrent.futures.ThreadPoolExecutor": "its worker threads are joined without a timeout by an interpreter-exit hook (threading._register_atexit)",
        "concurrent.futures.ProcessPoolExecutor": "its worker processes are joined without a timeout at interpreter exit",
        "concurrent.futures.thread.ThreadPoolExecutor": "its worker threads are joined without a timeout by an interpreter-exit hook",
        "multiprocessing.Pool": "its workers are joined at exit",
        "multiprocessing.pool.ThreadPool": "its workers are joined at exit",
        "multiprocessing.Process": "a non-daemon process is joined at interpreter exit",
        "threading.Timer": "a Timer is a non-daemon thread unless marked, and is joined at interpreter exit",
        "atexit.register": "an exit handler runs after the command finished, unbounded",
        "asyncio.run": "the event loop waits for its tasks",
        "subprocess.run": "the sub-process is waited for",
        "subprocess.call": "the sub-process is waited for",
        "subprocess.check_call": "the sub-process is waited for",
        "subprocess.check_output": "the sub-process is waited for",
    }
    n_calls = 0
    for fq, f in p.funcs.items():
        for call, tg in p.calls[fq]:
            n_calls += 1
            for t in tg:
                t0 = t[4:] if t.startswith("ext:") else (t[6:] if t.startswith("class:") else t)
                if t0 in _CONC:
                    r11.instance(f, call, norm(call)[:60])
                    r11.check(False, f, call, f"`{norm(call)[:60]}`: {_CONC[t0]} - with a server that accepts the connection and never answers, the command prints its result and then never terminates (the daemon flag and the bounded join of the checker do not cover it)", construct=f"{t0} in the package")
                elif t0 == "threading.Thread" and not any(k.arg == "daemon" and p.fold(k.value, f) is True for k in call.keywords):
                    r11.instance(f, call, norm(call)[:60])
                    r11.check(False, f, call, f"`{norm(call)[:60]}` creates a further thread that is not marked daemon: it is joined at interpreter exit without a timeout", construct="non-daemon thread in the package")
    for mq, m in sorted(p.modules.items()):
        for n in ast.walk(m.tree):
            if isinstance(n, (ast.Import, ast.ImportFrom)):
                mods = [a.name for a in n.names] if isinstance(n, ast.Import) else [n.module or ""]
                for mod_ in mods:
                    if mod_.split(".")[0] in ("concurrent", "multiprocessing", "asyncio", "atexit", "subprocess", "sched"):
                        r11.instance(None, n, f"{mq}: import {mod_}")
                        # a use at module level (outside any function) is not in p.calls
                        top = [x for x in ast.walk(m.tree) if isinstance(x, ast.Call) and id(x) not in p.func_of_node and any(isinstance(y, ast.Name) and y.id in [a.asname or a.name.split(".")[0] for a in n.names] for y in ast.walk(x.func))]
                        for x in top:
                            r11.check(False, None, x, f"`{norm(x)[:60]}` at import time of {mq} uses {mod_}: work registered there outlives the command", construct=f"{mod_} used at import time")
    r11.instance(None, None, f"{n_calls} resolved call sites of the package scanned for executors, threads, processes and exit hooks")
    r11.check(True, None, None, "")

    # ------------------------------------------------------------------ R20.2
    r2 = report.rule("R20.2", f"every join on the checker thread has a constant timeout <= {MAX_JOIN_S}s; no loop polls the checker's state", 2)
    for fq, f in p.funcs.items():
        for call, tg in p.calls[fq]:
            if isinstance(call.func, ast.Attribute) and call.func.attr == "join" and _is_updater_expr(p, call.func.value, f, ucs):
                r2.instance(f, call, norm(call))
                to = None
                if call.args:
                    to = p.fold(call.args[0], f)
                for k in call.keywords:
                    if k.arg == "timeout":
                        to = p.fold(k.value, f)
                ok = isinstance(to, (int, float)) and not isinstance(to, bool) and 0 <= to <= MAX_JOIN_S
                r2.check(ok, f, call, f"join on the update checker is unbounded or longer than {MAX_JOIN_S}s (timeout={to!r}): a hanging server stalls the command")
        for n in walk_no_nested(f.node):
            if isinstance(n, ast.While) and f.cls not in ucs:
                for x in ast.walk(n.test):
                    if isinstance(x, ast.Attribute) and _is_updater_expr(p, x.value, f, ucs):
                        r2.check(False, f, n, "loop polling the update checker's state (busy wait) in main-thread code", construct=n.test)
            if isinstance(n, ast.Call) and norm(n.func) in ("time.sleep", "sleep") and f.module.name.startswith("ascmhl.cli") and f.cls not in ucs:
                r2.check(False, f, n, "sleep in CLI main-thread code delays termination")

    # ------------------------------------------------------------------ R20.3
    r3 = report.rule("R20.3", "network calls are reachable only through the checker thread's run(); run() is invoked only by start()", 1)
    net_funcs = set()
    for fq, f in p.funcs.items():
        for call, tg in p.calls[fq]:
            for t in tg:
                if classify(p, call, t, f)[0] == "NET":
                    net_funcs.add(fq)
                    r3.instance(f, call, f"network call {t}")
    if not net_funcs:
        raise AnalysisError("no network call site found (update check vanished?)")
    runs = [p.classes[uc].methods["run"].qual for uc in ucs if "run" in p.classes[uc].methods]
    if not runs:
        raise AnalysisError("update checker has no run()")
    roots = [c.qual for c in cmds.values()] + module_roots(p)
    for d in eps.values():
        roots += [cb.qual for cb in d["callbacks"]]
    # every public function of the package is a potential main-thread root except run itself
    reach_wo_run = p.reachable([r for r in roots if r not in runs], stop=set(runs))
    for nf in net_funcs:
        hit = nf in reach_wo_run and nf not in runs
        r3.check(not hit, p.funcs[nf], p.funcs[nf].node, f"network code {nf} is reachable from the main thread without going through the checker thread's run()", construct=f"{nf} reachable outside run()", witness=" -> ".join(p.witness(reach_wo_run, nf)) if hit else None)
    for rq in runs:
        for caller, call in p.callers.get(rq, []):
            direct = isinstance(call.func, ast.Attribute) and call.func.attr == "run"
            r3.check(not direct, p.funcs[caller], call, "run() of the update checker is called synchronously instead of through start()")

    # ------------------------------------------------------------------ R20.7
    r7 = report.rule(
        "R20.7",
        "the checker thread is silent: nothing reachable from its run() writes to stdout / stderr (print, click.echo / secho, sys.stdout / sys.stderr, the package logger, logging, warnings) "
        "- the only output of the update check is the callback's hint on the main thread",
        1,
    )
    OUT_EXT = ("ext:click.echo", "ext:click.secho", "ext:click.echo_via_pager", "ext:sys.stdout.write", "ext:sys.stderr.write", "ext:warnings.warn", "ext:traceback.print_exc", "ext:traceback.print_exception", "ext:sys.stdout.flush")
    for rq in runs:
        rr = p.reachable([rq])
        r7.instance(p.funcs[rq], p.funcs[rq].node, f"{rq}: {len(rr)} function(s) reachable")
        for fq in sorted(rr):
            f = p.funcs[fq]
            for call, tg in p.calls[fq]:
                outs = [t for t in tg if t == "builtin:print" or t in OUT_EXT or t.startswith("ext:logging.") or (t.startswith("extm:") and ("sys.stdout" in t or "sys.stderr" in t)) or (t.startswith("extm:logging.") and t.split(".")[-1] in ("debug", "info", "warning", "error", "critical", "exception", "log"))]
                if outs:
                    r7.check(False, f, call, f"the update-check thread can write to the command's output through {outs[0].split(':')[-1]} (reached from {rq} via {' -> '.join(p.witness(rr, fq))}): a line from the background check lands in the middle of the command's own stdout/stderr", construct=f"output from the checker thread: {norm(call)[:60]}")
        r7.check(True, p.funcs[rq], p.funcs[rq].node, "")

    # ------------------------------------------------------------------ R20.4
    r4 = report.rule(
        "R20.4",
        "outside the checker class its state is read only inside group result callbacks and only after the bounded join; the callback cannot raise or exit "
        "and prints only under needs_update; latest_version is only ever None or a parsed version",
        2,
    )
    callbacks = [cb for d in eps.values() for cb in d["callbacks"]]
    if len(callbacks) < 2:
        raise AnalysisError(f"expected a result callback on both CLI groups, found {[c.qual for c in callbacks]}")
    cbq = {c.qual for c in callbacks}
    for fq, f in p.funcs.items():
        if f.cls in ucs:
            continue
        for n in walk_no_nested(f.node):
            if isinstance(n, ast.Attribute) and _is_updater_expr(p, n.value, f, ucs) and not (isinstance(parent(n), ast.Call) and parent(n).func is n and n.attr in ("join",)):
                from .common import callers_of as _callers_of

                cs_ = _callers_of(p, fq)
                only_from_callbacks = (bool(cs_) and all(cf_.qual in cbq for cf_, _ in cs_)) or (not cs_ and getattr(p, 'inline_from', None) is not None and any(cf_.qual in cbq for cf_, _ in _callers_of(p.inline_from, fq)) and all(cf_.qual in cbq for cf_, _ in _callers_of(p.inline_from, fq)))
                if fq not in cbq and not only_from_callbacks:
                    r4.check(False, f, n, f"update checker state `{norm(n)}` is used outside a result callback (main thread could act on it before/while the command runs)")
                else:
                    g = cfg_of(f)
                    joins = [g.node_for(c) for c, tg in p.calls[fq] if isinstance(c.func, ast.Attribute) and c.func.attr == "join" and _is_updater_expr(p, c.func.value, f, ucs)]
                    nn = g.node_for(n)
                    r4.check(any(g.dominates(j, nn) and j is not nn for j in joins), f, n, f"`{norm(n)}` is read before the bounded join")
    for m in p.modules.values():
        # module-level use of the updater other than creating it
        for s in m.tree.body:
            if isinstance(s, (ast.FunctionDef, ast.ClassDef, ast.Import, ast.ImportFrom)):
                continue
            for x in ast.walk(s):
                if isinstance(x, ast.Attribute) and isinstance(x.value, ast.Name):
                    # updater.<something> at import time
                    for s2 in m.tree.body:
                        if isinstance(s2, ast.Assign) and isinstance(s2.value, ast.Call) and any(isinstance(t, ast.Name) and t.id == x.value.id for t in s2.targets):
                            q = p.resolve_name_expr(s2.value.func, m)
                            if q in ucs:
                                r4.check(False, None, x, f"update checker touched at import time in {m.name}: `{norm(x)}`", construct=f"{m.name}: {norm(x)}")
    for cb in callbacks:
        r4.instance(cb, cb.node, "result callback")
        g = cfg_of(cb)
        for n in walk_no_nested(cb.node):
            if isinstance(n, ast.Raise):
                r4.check(False, cb, n, "result callback raises: the command's exit code would change")
            if isinstance(n, ast.Call):
                nm = norm(n.func)
                if nm in ("sys.exit", "exit", "quit", "os._exit", "os.abort") or nm.endswith((".exit", ".abort", ".fail")):
                    r4.check(False, cb, n, "result callback exits/aborts: the command's exit code would change")
                if nm in ("click.echo", "click.secho", "print", "logger.info", "logger.error", "sys.stdout.write", "sys.stderr.write"):
                    nn = g.node_for(n)
                    guards = [t for t in g.nodes if t.kind == "test" and g.dominates(t, nn) and "needs_update" in norm(t.ast)]
                    ok = bool(guards) and all(any(m is nn or g.dominates(m, nn) for m, l in t.succ if l == "T") for t in guards)
                    r4.check(ok, cb, n, "output in the result callback is not confined to the needs_update branch")
            if isinstance(n, ast.Return) and n.value is not None and not (isinstance(n.value, ast.Constant) and n.value.value is None):
                r4.check(False, cb, n, "result callback returns a value: click uses it as the command's result")
        for call, tg in p.calls[cb.qual]:
            for t in tg:
                if t in p.funcs and p.funcs[t].cls not in ucs:
                    r4.check(False, cb, call, f"result callback calls package code {t}")
    for uc in ucs:
        for f, v in prov(p).field_stores(uc, "latest_version"):
            ok = (isinstance(v, ast.Constant) and v.value is None) or (isinstance(v, ast.Call) and norm(v.func).endswith("version.parse"))
            if not ok and isinstance(v, (ast.Name, ast.Call)):
                # a local that holds the parsed version / a helper of the package that returns it
                from .common import alts as _alts

                pr_ = prov(p)
                os_ = [a for o in pr_.origins(v, f) for a in _alts(pr_.inline(o, depth=2))]
                ok = bool(os_) and all((o[0] == "const" and o[1] is None) or (o[0] == "call" and o[1].endswith("version.parse")) for o in os_)
            r4.instance(f, v, f"latest_version = {norm(v)}")
            if not ok:
                # a violation needs a value that is visibly not a parsed version (the server's raw answer, a string); a value this rule cannot trace is not one
                raw_like = isinstance(v, ast.Constant) or any(isinstance(x, ast.Call) and isinstance(x.func, ast.Attribute) and x.func.attr in ("json", "get", "text", "strip", "decode", "format") for x in ast.walk(v)) or (isinstance(v, ast.Subscript))
                try:
                    os2 = [a for o in prov(p).origins(v, f) for a in _alts2(prov(p).inline(o, depth=2))] if isinstance(v, (ast.Name, ast.Call)) else []
                except AnalysisError:
                    os2 = []
                raw_like = raw_like or any((o[0] == "const" and o[1] is not None) or (o[0] == "call" and o[1].split(".")[-1] in ("json", "get", "str", "strip", "decode", "format")) or (o[0] == "attr" and o[2] in ("text", "content")) for o in os2)
                if not raw_like:
                    raise AnalysisError(f"{f.loc(v)}: cannot tell what `{norm(v)[:60]}` stores into latest_version (neither None / version.parse(...) nor visibly the server's raw answer)")
            r4.check(ok, f, v, "latest_version is assigned something other than None or version.parse(...)", construct=f"latest_version = {norm(v)}")
        nu = p.classes[uc].methods.get("needs_update")
        if nu is None or not nu.is_property:
            raise AnalysisError(f"{uc}.needs_update property not found")
        for call, tg in p.calls[nu.qual]:
            for t in tg:
                cls = classify(p, call, t, nu)[0]
                r4.check(cls in ("PURE", "INTERNAL") and t not in net_funcs, nu, call, f"needs_update performs {cls} work ({t}) on the main thread")
        for n in walk_no_nested(nu.node):
            if isinstance(n, ast.Raise):
                r4.check(False, nu, n, "needs_update can raise on the main thread")

    # ------------------------------------------------------------------ R20.6
    r6 = report.rule(
        "R20.6",
        "everything the server sent is parsed in the checker thread: on the main thread (result callbacks and what they reach) conversions that can raise "
        "(version.parse, int(), json decoding, indexing of the response) are applied to package constants only, never to state the thread filled from the network",
        1,
    )
    main_roots = [cb.qual for cb in callbacks]
    # properties of the checker that a callback reads run on the main thread too (an attribute access, not a call)
    for cb in callbacks:
        for n in walk_no_nested(cb.node):
            if isinstance(n, ast.Attribute) and _is_updater_expr(p, n.value, cb, ucs):
                for uc in ucs:
                    m = p.classes[uc].methods.get(n.attr)
                    if m is not None and m.is_property and m.qual not in main_roots:
                        main_roots.append(m.qual)
    main_reach = p.reachable(main_roots, stop=set(runs))
    pr = prov(p)
    from sa.flow import subterms as _subterms

    thread_fields = set()
    for uc in ucs:
        for rq in runs:
            for q in p.reachable([rq]):
                f2 = p.funcs.get(q)
                if f2 is None or f2.cls != uc:
                    continue
                for n in walk_no_nested(f2.node):
                    if isinstance(n, (ast.Assign, ast.AugAssign, ast.AnnAssign)):
                        for t in (n.targets if isinstance(n, ast.Assign) else [n.target]):
                            if isinstance(t, ast.Attribute) and isinstance(t.value, ast.Name) and t.value.id == "self":
                                thread_fields.add(t.attr)
    for fq in sorted(main_reach):
        f = p.funcs[fq]
        if f.cls not in ucs:
            continue
        # indexing / unpacking of something computed from what the thread stored: an IndexError / KeyError on the main thread
        gm = cfg_of(f)
        for n in walk_no_nested(f.node):
            if isinstance(n, ast.Subscript) and isinstance(n.ctx, ast.Load) and not isinstance(n.slice, ast.Slice):
                derived = False
                for o in pr.origins(n.value, f):
                    for sub in _subterms(o):
                        if sub[0] == "attr" and sub[2] in thread_fields:
                            derived = True
                if not derived:
                    continue
                r6.instance(f, n, f"main-thread indexing {norm(n)[:60]}")
                nn = gm.node_for(n)
                vtxt = norm(n.value)
                guarded = any(t.kind == "test" and gm.dominates(t, nn) and (norm(t.ast) in (vtxt, f"len({vtxt}) > 0", f"len({vtxt}) != 0") ) and any((m is nn or gm.dominates(m, nn)) for m, l in t.succ if l == "T") for t in gm.nodes)
                # expression-level guards:  xs[0] if xs else d   /   xs and xs[0]
                x, par = n, parent(n)
                while par is not None and not isinstance(par, ast.stmt):
                    if isinstance(par, ast.IfExp) and x is par.body and norm(par.test) in (vtxt, f"len({vtxt}) > 0", f"len({vtxt}) != 0"):
                        guarded = True
                    if isinstance(par, ast.IfExp) and x is par.orelse and norm(par.test) in (f"not {vtxt}", f"len({vtxt}) == 0"):
                        guarded = True
                    if isinstance(par, ast.BoolOp) and isinstance(par.op, ast.And) and any(norm(v) == vtxt for v in par.values[: par.values.index(x)] if x in par.values):
                        guarded = True
                    x, par = par, parent(par)
                r6.check(guarded, f, n, f"`{norm(n)[:60]}` runs on the main thread (the result callback reads `{f.name}`) on a value computed from `{sorted(thread_fields)}`, which the checker thread filled from the server's answer: for some answers (a version with more or fewer components, an equal prefix) it is empty or shorter and the IndexError / KeyError replaces the command's exit code", construct=f"main-thread indexing of server-derived data: {norm(n)[:50]}")
        for call, tg in p.calls[fq]:
            risky = any(t.endswith(("version.parse", "version.Version")) or t in ("builtin:int", "builtin:float") or t.endswith(("json.loads",)) or t.startswith("extm:requests") for t in tg)
            if not risky:
                continue
            r6.instance(f, call, f"main-thread conversion {norm(call)[:60]}")
            bad = None
            for a in list(call.args) + [k.value for k in call.keywords]:
                for o in pr.origins(a, f):
                    full = pr.resolve(o, depth=2)
                    for sub in __import__("sa.flow", fromlist=["subterms"]).subterms(full):
                        if sub[0] in ("attr", "self", "param", "unknown") or (sub[0] == "call" and (sub[1].startswith("extm:requests") or sub[1].endswith(".get"))):
                            bad = norm(a)
            r6.check(bad is None, f, call, f"`{norm(call)[:60]}` runs on the main thread (reached from the group's result callback) on `{bad}`, which the checker thread filled from the server's answer: a malformed tag raises there and changes the command's exit code", construct=f"main-thread parse of server data: {norm(call)[:60]}")

    # ------------------------------------------------------------------ R20.12
    r12 = report.rule(
        "R20.12",
        "what the main thread reads may still be unset: a field of the checker that starts as None and is filled by the thread (the answer may come late or never: the join is "
        "bounded) is compared, dereferenced or computed with on the main-thread side only under a test of THAT field - otherwise a slow or silent server turns a successful "
        "command into a TypeError / AttributeError traceback with exit code 1",
        1,
    )
    from .common import atomic_deps as _atomic_deps

    none_fields = set()
    for uc in ucs:
        init = p.classes[uc].methods.get("__init__")
        if init is None:
            continue
        for n in walk_no_nested(init.node):
            if isinstance(n, (ast.Assign, ast.AnnAssign)) and isinstance(n.value, ast.Constant) and n.value.value is None:
                for t in (n.targets if isinstance(n, ast.Assign) else [n.target]):
                    if isinstance(t, ast.Attribute) and isinstance(t.value, ast.Name) and t.value.id == "self":
                        none_fields.add(t.attr)
    late = none_fields & thread_fields

    def _implies_set(g_, field):
        """property / method g_ of the checker yields a true value only when self.<field> is set: every return of something that can be true lies under a test of the field"""
        gg = cfg_of(g_)
        me_ = f"self.{field}"
        rets_ = [n for n in walk_no_nested(g_.node) if isinstance(n, ast.Return) and n.value is not None and not (isinstance(n.value, ast.Constant) and not n.value.value)]
        if not rets_:
            return False
        for rt in rets_:
            names_ = {me_} | {t_.id for a_ in walk_no_nested(g_.node) for t_ in ([a_.target] if isinstance(a_, ast.NamedExpr) else (a_.targets if isinstance(a_, ast.Assign) else [])) if isinstance(t_, ast.Name) and norm(a_.value) == me_}
            ok_ = False
            for t_, l_ in gg.necessary_branches(gg.node_for(rt)):
                for at_, l2 in _atomic_deps(t_.ast, l_):
                    if (at_ in names_ and l2 == "T") or (any(at_ == f"{x_} is None" for x_ in names_) and l2 == "F"):
                        ok_ = True
            if not ok_ and isinstance(rt.value, ast.BoolOp) and isinstance(rt.value.op, ast.And):
                for at_, l2 in _atomic_deps(rt.value.values[0], "T"):
                    if (at_ in names_ and l2 == "T") or (any(at_ == f"{x_} is None" for x_ in names_) and l2 == "F"):
                        ok_ = True
            if not ok_:
                return False
        return True

    def _read_sites_guarded(f_, field):
        """f_ (a property / method of the checker that uses the field unguarded) is itself only read where another member of the checker that implies the field is set was tested"""
        guards_ = {m_.name for uc_ in ucs for m_ in p.classes[uc_].methods.values() if m_ is not f_ and _implies_set(m_, field)}
        if not guards_:
            return False
        sites_ = []
        for q_ in list(main_reach) + [cb.qual for cb in callbacks]:
            h_ = p.funcs.get(q_)
            if h_ is None or h_ is f_:
                continue
            for n_ in walk_no_nested(h_.node):
                if isinstance(n_, ast.Attribute) and n_.attr == f_.name and isinstance(n_.ctx, ast.Load):
                    sites_.append((h_, n_))
        if not sites_:
            return False
        for h_, n_ in sites_:
            gh = cfg_of(h_)
            ok_ = False
            for t_, l_ in gh.necessary_branches(gh.node_for(n_)):
                for at_, l2 in _atomic_deps(t_.ast, l_):
                    if l2 == "T" and at_.split(".")[-1] in guards_ and norm(n_.value) == at_.rsplit(".", 1)[0]:
                        ok_ = True
            if not ok_:
                return False
        return True

    for fq in sorted(main_reach):
        f = p.funcs[fq]
        if f.cls not in ucs:
            continue
        gm = cfg_of(f)
        # the field itself and locals that hold a copy of it (`x = self.f`, `(x := self.f)`)
        subjects = []
        for n in walk_no_nested(f.node):
            if isinstance(n, ast.Attribute) and isinstance(n.value, ast.Name) and n.value.id == "self" and n.attr in late and isinstance(n.ctx, ast.Load):
                r12.instance(f, n, f"{f.name}: read of self.{n.attr}")
                subjects.append((n, f"self.{n.attr}", n.attr))
        aliases = {}
        for a_ in walk_no_nested(f.node):
            tgt_ = a_.target if isinstance(a_, ast.NamedExpr) else (a_.targets[0] if isinstance(a_, ast.Assign) and len(a_.targets) == 1 else None)
            if isinstance(tgt_, ast.Name) and isinstance(getattr(a_, "value", None), ast.Attribute) and isinstance(a_.value.value, ast.Name) and a_.value.value.id == "self" and a_.value.attr in late:
                aliases[tgt_.id] = a_.value.attr
        for n in walk_no_nested(f.node):
            if isinstance(n, ast.Name) and n.id in aliases and isinstance(n.ctx, ast.Load):
                subjects.append((n, n.id, aliases[n.id]))
        for n, me, field in subjects:
            par = parent(n)
            strict = None
            if isinstance(par, ast.Compare) and any(isinstance(op_, (ast.Lt, ast.LtE, ast.Gt, ast.GtE, ast.In, ast.NotIn)) for op_ in par.ops):
                strict = "ordered comparison"
            elif isinstance(par, ast.Attribute) and par.value is n:
                strict = f"attribute .{par.attr}"
            elif isinstance(par, ast.Subscript) and par.value is n:
                strict = "subscript"
            elif isinstance(par, (ast.BinOp, ast.UnaryOp)) and not isinstance(getattr(par, "op", None), ast.Not):
                strict = "arithmetic"
            elif isinstance(par, ast.Call) and par.func is n:
                strict = "call"
            elif isinstance(par, ast.Call) and any(a_ is n for a_ in par.args) and any(t_ in p.funcs for t_ in p.resolve_call(par, f)):
                strict = "handed to " + norm(par.func)[:40]  # a helper of the package works with it as with a set value
            if strict is None:
                continue
            r12.instance(f, n, f"{f.name}: {me} ({strict})")
            guarded = False

            def _is_guard(at_, l2):
                return (at_ == me and l2 == "T") or (at_ == f"{me} is None" and l2 == "F")

            # short-circuit inside the expression: `x and x > y`, `x is not None and ...`, `y if x else z`
            x, up = n, parent(n)
            while up is not None and not isinstance(up, ast.stmt):
                if isinstance(up, ast.BoolOp) and isinstance(up.op, ast.And):
                    idx = next((i_ for i_, v_ in enumerate(up.values) if any(y is x for y in ast.walk(v_))), None)
                    for v_ in up.values[: idx or 0]:
                        if any(_is_guard(a_, l_) for a_, l_ in _atomic_deps(v_, "T")):
                            guarded = True
                if isinstance(up, ast.IfExp) and any(y is x for y in ast.walk(up.body)):
                    if any(_is_guard(a_, l_) for a_, l_ in _atomic_deps(up.test, "T")):
                        guarded = True
                x, up = up, parent(up)
            try:
                node_ = gm.node_for(n)
            except Exception:
                node_ = None
            if node_ is not None:
                for t_, l_ in gm.necessary_branches(node_):
                    if any(_is_guard(a_, l2) for a_, l2 in _atomic_deps(t_.ast, l_)):
                        guarded = True
                    # `if not (x := self.f): return`: the test of the field IS the test of the copy made in it
                    if me in aliases and any(isinstance(w_, ast.NamedExpr) and isinstance(w_.target, ast.Name) and w_.target.id == me for w_ in ast.walk(t_.ast)):
                        if any((a_ == f"self.{field}" and l2 == "T") or (a_ == f"self.{field} is None" and l2 == "F") for a_, l2 in _atomic_deps(t_.ast, l_)):
                            guarded = True
            if not guarded and f.name != "needs_update" and _read_sites_guarded(f, field):
                guarded = True
            r12.check(guarded, f, n, f"`{norm(par)[:70]}` in {f.name} runs on the main thread (the result callback reads it) and uses `{me}` ({strict}) without a test of it: self.{field} is None until the checker thread has its answer, and the join gives up after its time-out - with a server that answers late or never the expression raises TypeError and the finished command exits 1 with a traceback", construct=f"{f.name}: self.{field} used unguarded ({strict})")
    r12.check(True, None, None, "")

    # ------------------------------------------------------------------ R20.13
    r13 = report.rule(
        "R20.13",
        "the result callback runs once per command, invoked by click: no package code calls a result callback itself or registers it (or a wrapper of it) for a second "
        "occasion (`ctx.call_on_close`, atexit, a finally block) - a second invocation joins the checker a second time (another second of delay with a silent server) "
        "and prints the update notice twice",
        2,
    )
    for cb in callbacks:
        r13.instance(cb, cb.node, f"{cb.qual}")
        for fq, f in sorted(p.funcs.items()):
            for call, tg in p.calls[fq]:
                if cb.qual in tg:
                    r13.check(False, f, call, f"`{norm(call)[:50]}` in {f.name} invokes the result callback {cb.name} a second time: click has already run it after the command returned (a successful command leaves the context with Exit(0), so a hook that fires `when an exception is active` fires on success as well) - the update notice is printed twice and a silent update server delays termination by two join time-outs", construct=f"{f.name}: result callback invoked by package code")
        for m in p.modules.values():
            if m.name != cb.module.name:
                continue
            for n in ast.walk(m.tree):
                if isinstance(n, ast.Call) and any(isinstance(a, ast.Name) and a.id == cb.name for a in n.args) and not (isinstance(n.func, ast.Attribute) and "result_callback" in n.func.attr):
                    r13.check(False, None, n, f"`{norm(n)[:60]}` hands the result callback {cb.name} to another hook: it runs a second time", construct=f"{cb.name} registered a second time")
    r13.check(True, None, None, "")

    # ------------------------------------------------------------------ R20.5
    r5 = report.rule("R20.5", "both CLI groups register an identical result callback and create the checker at import without joining", 2)
    dumps = {}
    for name, d in eps.items():
        for cb in d["callbacks"]:
            r5.instance(cb, cb.node, f"callback of {name}")
            body = ast.dump(ast.Module(body=cb.node.body, type_ignores=[]))
            dumps[cb.qual] = body
        m = p.modules[d["module"]]
        created = [s for s in m.tree.body if isinstance(s, ast.Assign) and isinstance(s.value, ast.Call) and p.resolve_name_expr(s.value.func, m) in ucs]
        r5.check(len(created) == 1, None, None, f"{d['module']} must create exactly one update checker at import", construct=f"{d['module']}: Updater()")
        r5.check(len(d["callbacks"]) == 1, None, None, f"{d['module']}: group {d['obj']} must have exactly one result callback", construct=f"{d['module']}: result_callback")
        # callback decorator belongs to the group that is the console script
        for s in m.tree.body:
            if not isinstance(s, (ast.FunctionDef, ast.ClassDef, ast.Import, ast.ImportFrom, ast.Assign)) and not (isinstance(s, ast.If)):
                for x in ast.walk(s):
                    if isinstance(x, ast.Call) and isinstance(x.func, ast.Attribute) and x.func.attr == "join":
                        r5.check(False, None, x, f"join at import time in {m.name}", construct=f"{m.name}: {norm(x)}")
    vals = list(dumps.values())
    r5.check(len(set(vals)) == 1, None, None, "the result callbacks of the two CLI groups differ", construct="callback bodies: " + " / ".join(sorted(dumps)))

    # ------------------------------------------------------------------ R20.9
    r9 = report.rule(
        "R20.9",
        "the main thread never waits for the checker except in the bounded join: what the result callbacks use of the checker (its properties and methods) acquires no lock, "
        "condition or semaphore without a timeout that the checker thread holds across a network call (a server that never answers would then block the command for ever), "
        "and calls no wait()/get()/join() without a timeout",
        1,
    )
    SYNC_CTORS = ("Lock", "RLock", "Condition", "Semaphore", "BoundedSemaphore", "threading.Lock", "threading.RLock", "threading.Condition", "threading.Semaphore", "threading.BoundedSemaphore")
    for uc in ucs:
        c = p.classes[uc]
        lock_fields = set()
        for attr in ("*",):
            for mq, m in c.methods.items():
                for n in walk_no_nested(m.node):
                    if isinstance(n, ast.Assign) and isinstance(n.value, ast.Call) and norm(n.value.func) in SYNC_CTORS:
                        for t in n.targets:
                            if isinstance(t, ast.Attribute) and isinstance(t.value, ast.Name) and t.value.id == "self":
                                lock_fields.add(t.attr)
        thread_side = set(p.reachable([c.methods["run"].qual])) if "run" in c.methods else set()
        # main side: every method of the checker the callbacks can use = all but those only the thread reaches; properties are read, not called
        main_methods = [m for m in c.methods.values() if m.name not in ("run", "__init__") and (m.is_property or m.qual not in thread_side or any(cq in cbq for cq, _ in p.callers.get(m.qual, [])))]

        def acquisitions(f):
            """[(field, with-node or call, held statements, has_timeout)]"""
            out = []
            for n in walk_no_nested(f.node):
                if isinstance(n, ast.With):
                    for it in n.items:
                        e = it.context_expr
                        if isinstance(e, ast.Attribute) and e.attr in lock_fields:
                            out.append((e.attr, n, n.body, False))
                if isinstance(n, ast.Call) and isinstance(n.func, ast.Attribute) and n.func.attr == "acquire" and isinstance(n.func.value, ast.Attribute) and n.func.value.attr in lock_fields:
                    timed = any(k.arg == "timeout" for k in n.keywords) or len(n.args) >= 2 or any(k.arg == "blocking" and isinstance(k.value, ast.Constant) and k.value.value is False for k in n.keywords) or (n.args and isinstance(n.args[0], ast.Constant) and n.args[0].value is False)
                    out.append((n.func.value.attr, n, f.node.body, timed))
            return out

        held_over_net = {}
        for fq in thread_side:
            f = p.funcs.get(fq)
            if f is None:
                continue
            for fld, node, held, _ in acquisitions(f):
                for st in held:
                    for x in ast.walk(st):
                        if isinstance(x, ast.Call):
                            for t in p.resolve_call(x, f):
                                if classify(p, x, t, f)[0] == "NET" or t in net_funcs or any(q in net_funcs for q in (p.reachable([t]) if t in p.funcs else [])) or norm(x.func) in ("time.sleep", "sleep"):
                                    held_over_net.setdefault(fld, (f, node, x))
        for m in main_methods:
            r9.instance(m, m.node, f"{m.qual}: main-thread side of the checker")
            for fld, node, held, timed in acquisitions(m):
                if timed:
                    continue
                if fld in held_over_net:
                    hf, hnode, hx = held_over_net[fld]
                    r9.check(False, m, node, f"`{m.name}` (used by the result callback on the main thread) acquires `self.{fld}` without a timeout while the checker thread holds it across `{norm(hx)[:60]}` ({hf.loc(hnode)}): when the update server does not answer, the command never terminates", construct=f"main thread blocks on self.{fld} held across a network call")
            for n in walk_no_nested(m.node):
                if isinstance(n, ast.Call) and isinstance(n.func, ast.Attribute) and n.func.attr in ("wait", "get", "join") and isinstance(n.func.value, ast.Attribute) and isinstance(n.func.value.value, ast.Name) and n.func.value.value.id == "self":
                    ctor = [v for f2, v in prov(p).field_stores(uc, n.func.value.attr)]
                    is_sync = any(isinstance(v, ast.Call) and norm(v.func).split(".")[-1] in ("Event", "Condition", "Queue", "SimpleQueue", "LifoQueue", "Thread", "Barrier") for v in ctor)
                    if is_sync and not (n.args or any(k.arg == "timeout" for k in n.keywords)):
                        r9.check(False, m, n, f"`{m.name}` (main thread) waits on `{norm(n.func.value)}` without a timeout: a server that never answers blocks the command for ever", construct=f"unbounded {n.func.attr}() on the main thread")
        r9.check(True, c.methods.get("run") or list(c.methods.values())[0], p.classes[uc].node, "")

    # ------------------------------------------------------------------ R20.10
    r10 = report.rule(
        "R20.10",
        "nothing the checker thread does with the server's answer can run for an unbounded time while holding the interpreter lock: regular expressions applied in code reachable from "
        "run() have no nested unbounded repetition whose inner repeat can split a run of characters in several ways (`(?:[a-z]+[-_/]?)*`): on a long non-matching tag such a pattern "
        "backtracks exponentially inside one C call, the GIL is never released, and join(timeout=1) on the main thread cannot even start to time out",
        1,
    )
    try:
        import re._parser as _sre
    except Exception:  # pragma: no cover
        import sre_parse as _sre

    def _nullable(item):
        op, av = str(item[0]), item[1]
        if op in ("MAX_REPEAT", "MIN_REPEAT"):
            return av[0] == 0 or all(_nullable(x) for x in av[2])
        if op == "SUBPATTERN":
            return all(_nullable(x) for x in av[3])
        if op == "BRANCH":
            return any(all(_nullable(x) for x in b) for b in av[1])
        if op in ("AT", "ASSERT", "ASSERT_NOT", "GROUPREF_EXISTS"):
            return True
        return False

    def _ambiguous(items):
        """an unbounded repeat whose body is `<unbounded repeat> <only optional things>` (possibly behind groups)"""
        for op, av in items:
            opn = str(op)
            if opn in ("MAX_REPEAT", "MIN_REPEAT"):
                lo, hi, body = av
                body = list(body)
                flat = body
                while len(flat) == 1 and str(flat[0][0]) == "SUBPATTERN":
                    flat = list(flat[0][1][3])
                if str(hi) == "MAXREPEAT":
                    for i, (iop, iav) in enumerate(flat):
                        if str(iop) in ("MAX_REPEAT", "MIN_REPEAT") and str(iav[1]) == "MAXREPEAT" and all(_nullable(x) for x in flat[:i]) and all(_nullable(x) for x in flat[i + 1:]):
                            return True
                if _ambiguous(body):
                    return True
            elif opn == "SUBPATTERN":
                if _ambiguous(list(av[3])):
                    return True
            elif opn == "BRANCH":
                if any(_ambiguous(list(b)) for b in av[1]):
                    return True
        return False

    for uc in ucs:
        c = p.classes[uc]
        if "run" not in c.methods:
            continue
        tside = [p.funcs[q] for q in p.reachable([c.methods["run"].qual]) if q in p.funcs]
        r10.instance(c.methods["run"], c.methods["run"].node, f"{len(tside)} function(s) on the thread side")
        pats = []
        for f in tside:
            for n in walk_no_nested(f.node):
                if isinstance(n, ast.Call) and norm(n.func).startswith("re.") and n.args:
                    pats.append((f, n, p.fold(n.args[0], f)))
                if isinstance(n, ast.Call) and isinstance(n.func, ast.Attribute) and n.func.attr in ("match", "search", "fullmatch", "sub", "findall", "finditer", "split") and isinstance(n.func.value, ast.Name):
                    # a module-level compiled pattern
                    mod = f.module
                    for st in mod.tree.body:
                        if isinstance(st, ast.Assign) and any(isinstance(t, ast.Name) and t.id == n.func.value.id for t in st.targets) and isinstance(st.value, ast.Call) and norm(st.value.func) == "re.compile" and st.value.args:
                            pats.append((f, n, p.fold(st.value.args[0], None, mod)))
        for f, n, pat in pats:
            r10.instance(f, n, f"pattern {pat!r}"[:80])
            if not isinstance(pat, str):
                raise AnalysisError(f"{f.loc(n)}: a regular expression that is not a constant is applied on the checker thread")
            try:
                tree = _sre.parse(pat)
            except Exception as e:
                raise AnalysisError(f"{f.loc(n)}: pattern {pat!r} does not compile: {e}")
            r10.check(not _ambiguous(list(tree)), f, n, f"the pattern {pat!r} repeats, without bound, a group that itself starts with an unbounded repeat and can end there (everything after it is optional): a run of n matching characters can be split in 2^n ways, all of which are tried when the match fails at the end - a long tag name from the server freezes the whole process (the regex engine holds the GIL)", construct=f"catastrophic backtracking pattern on the checker thread")
    r10.check(True, None, None, "")

    report.not_decided += [
        "thread interleavings as such (the rules make the main thread's contact with the checker a single bounded join followed by reads)",
        "stderr content when the checker thread dies with an uncaught parse error (non-JSON body, malformed version)",
        "that ~1 s is the wall-clock delay observed at run time",
    ]


def finish(report):
    return report.finish(
        level="other",
        explanation="typestate (daemon before start), constant bound on every join, who-may-call for network code, placement of every read of checker state "
        "(only in result callbacks, after the join), no raise/exit in the callback, sibling equality of the two CLI groups. Interleavings are not explored.",
    )
