"""C14 - Commands touch nothing beyond what they document.

Decided by over-approximation: call-graph reachability over the effects table (sa/effects.py) plus provenance
of the path argument of every file-system-mutating site."""
from __future__ import annotations

import ast

from sa.effects import classify, open_mode
from sa.flow import show, subterms
from sa.model import AnalysisError, norm

from .common import include_rules, all_alternatives, alts, commands, is_call, is_const, need, prov, reach_from, unshipped_modules

READ_ONLY = ["verify", "diff", "info", "hash", "xsd_schema_check"]

PATH_FUNCS = ("os.path.join", "os.path.dirname", "os.path.normpath", "os.path.abspath", "os.path.realpath", "os.path.relpath", "os.getcwd", "os.walk", "os.listdir", "os.path.expanduser")


def mutating_sites(p, reach):
    """(func, call, target, detail) for every FS-mutating site in reachable functions; raises on unclassified"""
    muts, unclassified, net = [], [], []
    for fq in reach:
        f = p.funcs[fq]
        for call, tg in p.calls.get(fq, []):
            for t in tg:
                cls, det = classify(p, call, t, f)
                if cls == "MUT":
                    muts.append((f, call, t, det))
                elif cls == "UNCLASSIFIED":
                    unclassified.append((f, call, t, det))
                elif cls == "NET":
                    net.append((f, call, t, det))
    return muts, unclassified, net


def no_separator(p, t) -> bool:
    """term denotes a single path component: every path-valued source sits under basename()"""
    if not isinstance(t, tuple):
        return True
    k = t[0]
    if k == "const":
        return not (isinstance(t[1], str) and ("/" in t[1] or "\\" in t[1] or t[1] in ("..", ".")))
    if k == "call":
        nm = t[1]
        if nm.endswith(("os.path.basename", "datetime.strftime", ".strftime")) or nm in ("builtin:int", "builtin:len"):
            return True
        if any(nm.endswith(x) for x in PATH_FUNCS):
            return False
        return all(no_separator(p, a) for a in t[2]) and all(no_separator(p, a) for a in t[3].values()) and (t[5] is None or no_separator(p, t[5]))
    if k == "param":
        return False
    if k == "unknown":
        raise AnalysisError(f"path component provenance not resolved: {t[1]}")
    if k == "attr":
        if t[2] in ("asc_mhl_path", "file_path", "path", "root_path"):
            return False
        if len(t) > 3 and t[3]:
            ft = p.field_type(t[3], t[2])
            if ft and ft[0] in ("int", "bool", "float"):
                return True  # a number has no separator, wherever the object came from
        return no_separator(p, t[1])
    if k == "elem":
        return no_separator(p, t[1])
    if k == "op":
        return all(no_separator(p, a) for a in t[2])
    if k == "alt":
        return all(no_separator(p, a) for a in t[1])
    return True


def path_kinds(p, t, folder_name):
    """set of (kind, witness) for a path term (alternatives handled without cross products):
    kind in 'ascmhl-dir' | 'ascmhl-file' | 'none' (constant None) | None (= not provably inside an ascmhl folder)"""
    if t[0] == "alt":
        out = set()
        for a in t[1]:
            out |= path_kinds(p, a, folder_name)
        return out
    if is_const(t) and t[1] is None:
        return {("none", "None")}
    if is_call(t, "os.path.join") and t[2]:
        args = t[2]
        rest = args[1:]
        out = set()
        # join(<anything>, 'ascmhl'[, component])
        if len(rest) >= 1 and is_const(rest[0], folder_name):
            if len(rest) == 1:
                return {("ascmhl-dir", show(t)[:200])}
            if len(rest) == 2 and no_separator(p, rest[1]):
                return {("ascmhl-file", show(t)[:200])}
            return {(None, show(t)[:300])}
        for hk, w in path_kinds(p, args[0], folder_name):
            if hk == "none":
                out.add(("none", "None"))
            elif hk == "ascmhl-dir" and len(rest) == 1 and no_separator(p, rest[0]):
                out.add(("ascmhl-file", show(t)[:200]))
            else:
                out.add((None, show(t)[:300]))
        return out
    if is_call(t, "os.path.dirname") and t[2]:
        out = set()
        for k, w in path_kinds(p, t[2][0], folder_name):
            out.add(("ascmhl-dir", w) if k == "ascmhl-file" else (("none", w) if k == "none" else (None, show(t)[:300])))
        return out
    if t[0] == "op" and t[1] == "Add" and len(t[2]) == 2:
        out = set()
        suffix_ok = is_const(t[2][1]) and isinstance(t[2][1][1], str) and no_separator(p, t[2][1])
        for k, w in path_kinds(p, t[2][0], folder_name):
            out.add(("ascmhl-file", w) if (k == "ascmhl-file" and suffix_ok) else (("none", w) if k == "none" else (None, show(t)[:300])))
        return out
    return {(None, show(t)[:300])}


def dest_kinds(p, t, dest_param, folder_name):
    """set of (ok, witness): term lies at or below the command's destination parameter. Alternatives that are
    ascmhl-rooted (field-based merging with the loaded history) are reported as ('ascmhl', w)."""
    if t[0] == "alt":
        out = set()
        for a in t[1]:
            out |= dest_kinds(p, a, dest_param, folder_name)
        return out
    if t[0] == "param" and (t[1], t[2]) == dest_param:
        return {("dest", show(t))}
    if is_const(t) and t[1] is None:
        return {("none", "None")}
    pk = path_kinds(p, t, folder_name)
    if pk and all(k in ("ascmhl-dir", "ascmhl-file", "none") for k, _ in pk):
        return {("ascmhl", show(t)[:200])}
    if is_call(t, "os.path.join") and t[2]:
        out = set()
        comps_ok = all(no_separator(p, a) for a in t[2][1:])
        for k, w in dest_kinds(p, t[2][0], dest_param, folder_name):
            out.add((k, show(t)[:200]) if (comps_ok or k in ("none",)) and k != "bad" else ("bad", show(t)[:300]))
        return out
    if is_call(t, "os.path.dirname") and t[2]:
        inner = t[2][0]
        out = set()
        for a in alts(inner):
            if is_const(a) and a[1] is None:
                out.add(("none", "None"))
            elif is_call(a, "os.path.join") and len(a[2]) >= 2 and all(no_separator(p, x) for x in a[2][1:]):
                # dirname(join(d, x1..xn)) = join(d, x1..xn-1): still below d
                out |= dest_kinds(p, a[2][0], dest_param, folder_name)
            else:
                out.add(("bad", show(t)[:300]))
        return out
    if t[0] == "op" and t[1] == "Add" and len(t[2]) == 2 and is_const(t[2][1]) and no_separator(p, t[2][1]):
        return dest_kinds(p, t[2][0], dest_param, folder_name)
    return {("bad", show(t)[:300])}


def path_args(call, target):
    """path-valued arguments of a mutating call"""
    if target.endswith(("os.replace", "os.rename", "os.renames", "os.link", "os.symlink", "shutil.copy", "shutil.copy2", "shutil.copyfile", "shutil.move", "shutil.copytree")):
        return list(call.args[:2])
    return list(call.args[:1])


def run(report, p):
    cmds = commands(p)
    pr = prov(p)
    folder_name = p.module_const(p.modules["ascmhl.__version__"], "ascmhl_folder_name")
    if not isinstance(folder_name, str):
        raise AnalysisError("ascmhl_folder_name constant not found")
    report.assume("effects classification of external callables (sa/effects.py) is correct; unlisted callables fail closed")
    report.assume("CPython import semantics; no dynamic dispatch constructs (checked on every run)")
    report.assume("call resolution: unknown-receiver method calls are over-approximated to every package method of that name")

    # ------------------------------------------------------------------ R14.1
    r1 = report.rule(
        "R14.1",
        "from each read-only command (verify in all modes, diff, info, hash, xsd-schema-check) no file-system-mutating call site is reachable "
        "in the call graph (import-time code included), and no unclassified external call is reachable",
        min_instances=5,
    )
    pairs = 0
    for name in READ_ONLY:
        c = need(cmds, name)
        reach = reach_from(p, [c.qual])
        muts, uncl, net = mutating_sites(p, reach)
        r1.instance(c, c.node, f"command {name}: {len(reach)} reachable functions, {sum(len(p.calls.get(q, [])) for q in reach)} call sites")
        for f, call, t, det in uncl:
            raise AnalysisError(f"unclassified external call reachable from {name}: {det} at {f.loc(call)} ({norm(call)[:80]})")
        for q in reach:
            pairs += 1
        ok_all = True
        for f, call, t, det in muts:
            ok_all = False
            r1.check(False, f, call, f"file-system-mutating call {det} is reachable from read-only command '{name}'", construct=f"{name} -> {norm(call)}", witness=" -> ".join(p.witness(reach, f.qual)))
        r1.check(ok_all, c, c.node, f"command {name}: mutating sites reachable", construct=f"{name}: no mutating site") if ok_all else None
    report.extra["command_function_pairs"] = pairs

    # ------------------------------------------------------------------ R14.4
    r4 = report.rule("R14.4", "the session commit (the only caller of the writers) is unreachable from verify, diff, info, hash and xsd-schema-check", min_instances=1)
    commit = [f for f in p.funcs.values() if f.cls and f.name == "commit" and any(t.endswith("write_chain") or t.endswith("write_new_generation") for _, tg in p.calls[f.qual] for t in tg)]
    if not commit:
        raise AnalysisError("session commit (method calling write_new_generation / write_chain) not found")
    for cm in commit:
        r4.instance(cm, cm.node, "commit method " + cm.qual)
        for name in READ_ONLY:
            c = need(cmds, name)
            reach = reach_from(p, [c.qual], with_import_time=False)
            r4.check(cm.qual not in reach, c, c.node, f"{cm.qual} is reachable from read-only command '{name}'", construct=f"{name} reaches commit", witness=" -> ".join(p.witness(reach, cm.qual)) if cm.qual in reach else None)

    # ------------------------------------------------------------------ R14.3 create
    r3 = report.rule(
        "R14.3",
        "every file-system-mutating site reachable from `create` takes a path that provably lies in an ascmhl folder "
        "(join(<root>, 'ascmhl')[, <single component>][ + constant suffix]); no other mutating primitive (utime, chmod, rename, remove, truncate, copy ...) is reachable",
        min_instances=4,
    )
    c = need(cmds, "create")
    reach = reach_from(p, [c.qual])
    muts, uncl, net = mutating_sites(p, reach)
    for f, call, t, det in uncl:
        raise AnalysisError(f"unclassified external call reachable from create: {det} at {f.loc(call)} ({norm(call)[:80]})")
    within = set(reach)
    for f, call, t, det in muts:
        r3.instance(f, call, f"{det}: {norm(call)[:100]}")
        allowed_prims = ("builtin:open", "ext:os.mkdir", "ext:os.replace", "ext:os.makedirs")
        if t not in allowed_prims:
            r3.check(False, f, call, f"mutating primitive {det} reachable from create (only open-for-write, mkdir and replace inside ascmhl folders are documented)", witness=" -> ".join(p.witness(reach, f.qual)))
            continue
        for arg in path_args(call, t):
            kinds = set()
            for o in pr.origins(arg, f):
                full = pr.full(o, within=within)
                kinds |= path_kinds(p, full, folder_name)
            bad = [s for k, s in kinds if k is None]
            real = [k for k, s in kinds if k not in (None, "none")]
            r3.check(not bad and bool(real), f, call, f"path argument `{norm(arg)}` of {det} is not provably inside an ascmhl folder", witness=(bad[0] if bad else "no non-None origin"))
    # media files: every open on a non-ascmhl path is read-only binary  (hasher)
    r3b = report.rule("R14.3b", "every open() in the hashing module (media files) has a constant read-only binary mode", min_instances=2)
    for fq, f in p.funcs.items():
        if f.module.name != "ascmhl.hasher":
            continue
        for call, tg in p.calls[fq]:
            if "builtin:open" in tg:
                mode = open_mode(p, call, f)
                r3b.instance(f, call, f"open mode {mode!r}")
                r3b.check(mode in ("rb", "br"), f, call, f"media file opened with mode {mode!r} (must be read-only binary)")

    # ------------------------------------------------------------------ R14.2 flatten
    r2 = report.rule(
        "R14.2",
        "every mutating site reachable from `flatten` takes a path at or below the destination argument (collection folder / manifest / chain), "
        "and the committed session's history is the collection history created at the destination, never the loaded source history",
        min_instances=4,
    )
    c = need(cmds, "flatten")
    opts = p.click_options(c)
    if "destination_path" not in opts:
        raise AnalysisError("flatten has no destination_path argument")
    reach = reach_from(p, [c.qual])
    within = set(reach)
    muts, uncl, net = mutating_sites(p, reach)
    for f, call, t, det in uncl:
        raise AnalysisError(f"unclassified external call reachable from flatten: {det} at {f.loc(call)}")
    for f, call, t, det in muts:
        r2.instance(f, call, f"{det}: {norm(call)[:100]}")
        if t not in ("builtin:open", "ext:os.mkdir", "ext:os.replace", "ext:os.makedirs"):
            r2.check(False, f, call, f"mutating primitive {det} reachable from flatten", witness=" -> ".join(p.witness(reach, f.qual)))
            continue
        if t == "ext:os.makedirs":
            # makedirs creates every missing ancestor as well - also those ABOVE the destination
            r2.check(False, f, call, f"`{norm(call)[:60]}` creates all missing ancestors of its path: when the parent folders of the destination do not exist, flatten creates folders outside (above) its destination instead of failing", construct="os.makedirs in flatten's reach")
            continue
        for arg in path_args(call, t):
            bad = []
            n_ok = 0
            for o in pr.origins(arg, f):
                full = pr.full(o, within=within)
                for k, w in dest_kinds(p, full, (c.qual, "destination_path"), folder_name):
                    if k == "dest":
                        n_ok += 1
                    elif k == "bad":
                        bad.append(w)
                    # k == 'ascmhl': field-based merging makes the *loaded* history's asc_mhl_path an alternative of
                    # every history's path; it is excluded by the session-history obligation below, not by provenance.
            r2.check(not bad and n_ok > 0, f, call, f"path argument `{norm(arg)}` of {det} is not provably at or below flatten's destination", witness=bad[0] if bad else "no destination-rooted origin")
    # the session committed by flatten is built on the collection history
    sess_ok = False
    sess_sites = 0
    for fq in reach:
        f = p.funcs[fq]
        for call, tg in p.calls.get(fq, []):
            if any(t.endswith("MHLGenerationCreationSession.commit") for t in tg) and isinstance(call.func, ast.Attribute):
                for o in pr.origins(call.func.value, f):
                    full = pr.resolve(o, depth=4, within=within)
                    for a in all_alternatives(full):
                        sess_sites += 1
                        r2.instance(f, call, "session committed: " + show(a)[:160])
                        hist_ok = False
                        if a[0] == "call" and a[1].startswith("class:") and a[1].endswith("MHLGenerationCreationSession") and a[2]:
                            h = a[2][0]
                            hist_ok = h[0] == "call" and h[1].endswith("create_collection_at_path")
                        sess_ok = sess_ok or hist_ok
                        r2.check(hist_ok, f, call, "session committed from flatten is not built on the history returned by the collection creator", witness=show(a)[:300])
    if not sess_sites:
        raise AnalysisError("flatten: no commit of a session built on the collection history found")

    # ------------------------------------------------------------------ R14.5
    r5 = report.rule(
        "R14.5",
        "create makes an ascmhl folder only as part of writing into it: every directory creation reachable from `create` sits in a function that, on every path that does not raise, "
        "goes on to publish a file (os.replace / os.rename) - a run that has nothing to record must not leave an empty ascmhl folder behind (the next command would refuse the tree with `no chain file`)",
        2,
    )
    from sa.cfg import cfg_of as _cfg5
    from sa.effects import site_effects as _site_effects

    creach = reach_from(p, [need(cmds, "create").qual])
    for fq in sorted(creach):
        f = p.funcs[fq]
        mk = [c for c, t, cls, det in _site_effects(p, fq) if cls == "MUT" and t.startswith("ext:os.") and t.split(".")[-1] in ("mkdir", "makedirs")]
        if not mk:
            continue
        g5 = _cfg5(f)
        pubs = {g5.node_for(c).id for c, t, cls, det in _site_effects(p, fq) if cls == "MUT" and t.startswith("ext:os.") and t.split(".")[-1] in ("replace", "rename")}
        for c in mk:
            r5.instance(f, c, f"{f.name}: {norm(c)[:60]}")
            path = g5.find_path(g5.node_for(c), {g5.exit.id}, avoid=pubs) if True else None
            r5.check(bool(pubs) and path is None, f, c, f"`{norm(c)[:50]}` in {f.name} creates the history folder without a file being published into it on the way out of this function: when the run records nothing (an empty folder named with -sf, everything ignored) an empty ascmhl folder stays behind, which is not a manifest or chain file and makes every later command exit 32", witness=g5.fmt_path(path) if path else None, construct=f"{f.name}: folder created without a file published into it")

    include_rules(report, p, 'c11', ['R11.12'], 'create leaves no other file behind: a writer that raises after the temporary file was opened leaves a stray .mhl.tmp (and, for a first generation, an ascmhl folder without chain file)')
    include_rules(report, p, 'c15', ['R15.1'], 'create adds the manifest AND rewrites the chain file: a writer that can fail on a leftover temporary (exclusive create) or publishes half-written files leaves a manifest without chain entry behind')
    include_rules(report, p, 'c05', ['R5.7'], 'create writes into the ascmhl folder of every history the discovery reports: a folder that is wrongly taken for a nested history gets a stray ascmhl folder written into it')
    include_rules(report, p, 'c08', ['R8.5', 'R8.6'], 'create writes a manifest / chain only in the histories in scope: the commit loop skips every history without records or referenced children, and only looks a parent up after deciding to write')
    include_rules(report, p, 'c08', ['R8.1'], 'create writes into the ascmhl folder of the history a path is routed to: component-wise routing keeps it inside the histories in scope')
    report.not_decided += [
        "mtime of the root directory changing because an ascmhl folder is created inside it (effect of a documented write)",
        "effects of the external libraries themselves (lxml, pathspec, click ...) beyond the classification table",
    ]
    report.extra["unshipped_modules_excluded_from_entry_rooted_rules"] = sorted(unshipped_modules(p))


def finish(report):
    return report.finish(
        level="proof",
        explanation="absence of reachable file-system-mutating call sites per command is a sound over-approximation given the trusted base; "
        "obligations are (command, reachable mutating site, path argument) triples plus one obligation per read-only command",
        trusted_base=["sa/effects.py classification of external callables", "ast-based call resolution with CHA and unknown-receiver over-approximation", "CPython import semantics"],
        checker_cmd="/venv/bin/python /verif/check.py C14 --tier quick",
    )
