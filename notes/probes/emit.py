"""Probe: abstractly interpret lxml E-builder functions into element templates (no execution of repo code)."""
import ast, sys
SRC="/repo/ascmhl/hashlist_xml_parser.py"
tree=ast.parse(open(SRC).read())
funcs={n.name:n for n in tree.body if isinstance(n,ast.FunctionDef)}
class Elem:
    def __init__(s,tag): s.tag=tag; s.attrs={}; s.kids=[]; s.text=None
    def show(s,ind=0):
        a=" ".join(f"@{k}{'?' if o else ''}" for k,o in s.attrs.items())
        out=" "*ind+f"<{s.tag}> {a} text={s.text}\n"
        for k in s.kids: out+=showk(k,ind+2)
        return out
def showk(k,ind):
    if isinstance(k,Elem): return k.show(ind)
    kind,body,meta=k
    out=" "*ind+f"{kind} {meta}\n"
    for b in body: out+=showk(b,ind+2)
    return out
def is_E(fn):
    return (isinstance(fn,ast.Attribute) and isinstance(fn.value,ast.Name) and fn.value.id=="E") or (isinstance(fn,ast.Name) and fn.id=="E")
def ev(e,env,consts):
    if isinstance(e,ast.Call):
        if is_E(e.func):
            if isinstance(e.func,ast.Attribute): el=Elem(e.func.attr); args=e.args
            else: el=Elem("{"+ast.unparse(e.args[0])+"}"); args=e.args[1:]
            for a in args:
                v=ev(a,env,consts)
                if isinstance(v,Elem): el.kids.append(v)
                else: el.text=ast.unparse(a)
            for kw in e.keywords: el.attrs[kw.arg]=False
            return el
        if isinstance(e.func,ast.Name) and e.func.id in funcs and e.func.id.startswith("_") and "xml_element" in e.func.id:
            kw={k.arg:k.value.value for k in e.keywords if isinstance(k.value,ast.Constant)}
            return run(funcs[e.func.id],kw)
    if isinstance(e,ast.Name) and e.id in env: return env[e.id]
    return None
def run(fn,consts):
    env={}; ret=[]
    def block(stmts,sink_wrap):
        for s in stmts:
            if isinstance(s,ast.Assign) and len(s.targets)==1:
                t=s.targets[0]
                if isinstance(t,ast.Name):
                    v=ev(s.value,env,consts)
                    if isinstance(v,Elem): env[t.id]=v
                elif isinstance(t,ast.Subscript) and isinstance(t.value,ast.Attribute) and t.value.attr=="attrib":
                    el=env.get(t.value.value.id)
                    if el: el.attrs[t.slice.value]=el.attrs.get(t.slice.value,False) or bool(sink_wrap)
                elif isinstance(t,ast.Attribute) and t.attr=="text" and isinstance(t.value,ast.Name) and t.value.id in env:
                    env[t.value.id].text=ast.unparse(s.value)
                elif isinstance(t,ast.Attribute) and t.attr=="tag" and t.value.id in env:
                    env[t.value.id].tag=s.value.value
            elif isinstance(s,ast.Expr) and isinstance(s.value,ast.Call) and isinstance(s.value.func,ast.Attribute) and s.value.func.attr=="append" and isinstance(s.value.func.value,ast.Name) and s.value.func.value.id in env:
                child=ev(s.value.args[0],env,consts)
                tgt=env[s.value.func.value.id]
                node=child
                for kind,meta in reversed(sink_wrap): node=(kind,[node],meta)
                tgt.kids.append(node)
            elif isinstance(s,ast.If):
                # constant-param pruning
                c=s.test
                if isinstance(c,ast.Compare) and isinstance(c.left,ast.Name) and c.left.id in consts and isinstance(c.comparators[0],ast.Constant):
                    taken = (consts[c.left.id]==c.comparators[0].value)
                    block(s.body if taken else s.orelse,sink_wrap); continue
                # both branches assign same var to Elem => ALT
                block(s.body,sink_wrap+[("OPT",ast.unparse(s.test))])
                if s.orelse: block(s.orelse,sink_wrap+[("OPT-ELSE",ast.unparse(s.test))])
            elif isinstance(s,ast.For):
                block(s.body,sink_wrap+[("STAR","for "+ast.unparse(s.target)+" in "+ast.unparse(s.iter))])
            elif isinstance(s,ast.Return):
                ret.append(ev(s.value,env,consts))
    # default param consts
    d=fn.args.defaults; names=[a.arg for a in fn.args.args][len(fn.args.args)-len(d):]
    c={n:v.value for n,v in zip(names,d) if isinstance(v,ast.Constant)}; c.update(consts)
    consts=c
    block(fn.body,[])
    return ret[0] if ret else None
for name in ["_media_hash_xml_element","_directory_hash_xml_element","_root_media_hash_xml_element","_creator_info_xml_element","_ignorespec_xml_element","_ascmhlreference_xml_element"]:
    r=run(funcs[name],{})
    print("==",name); print(r.show() if r else None)
