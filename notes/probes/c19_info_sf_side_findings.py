"""side findings of seed agent C19m on `info -sf` (unmodified code at 4239593):
 (1) the history is searched for the FIRST -sf file only: a second file outside that history gets no lines
 (2) with -v the listing of the previous name is repeated once per hash entry of the renaming generation"""
import os, sys, tempfile, shutil
sys.path.insert(0, os.environ.get("MHL_SRC", "/repo"))
from click.testing import CliRunner
from ascmhl.cli.ascmhl import mhltool_cli
d = tempfile.mkdtemp()
bad = 0
try:
    r = CliRunner()
    root = os.path.join(d, "root"); os.makedirs(os.path.join(root, "sub"))
    open(os.path.join(root, "a.txt"), "w").write("a")
    open(os.path.join(root, "sub", "b.txt"), "w").write("b")
    assert r.invoke(mhltool_cli, ["create", os.path.join(root, "sub"), "-h", "md5"]).exit_code == 0
    assert r.invoke(mhltool_cli, ["create", root, "-h", "md5"]).exit_code == 0
    res = r.invoke(mhltool_cli, ["info", "-sf", os.path.join(root, "sub", "b.txt"), "-sf", os.path.join(root, "a.txt")])
    n = res.output.count("Generation")
    print("(1) exit", res.exit_code, "lines:", n, "(expected 3: two for sub/b.txt, one for a.txt)")
    print(res.output)
    bad += n != 3
    # (2)
    root2 = os.path.join(d, "r2"); os.makedirs(root2)
    open(os.path.join(root2, "x.txt"), "w").write("x")
    assert r.invoke(mhltool_cli, ["create", root2, "-h", "md5"]).exit_code == 0
    os.rename(os.path.join(root2, "x.txt"), os.path.join(root2, "y.txt"))
    res = r.invoke(mhltool_cli, ["create", root2, "-h", "md5", "-h", "xxh64", "-dr"])
    assert res.exit_code == 0, res.output
    res = r.invoke(mhltool_cli, ["info", "-v", "-sf", os.path.join(root2, "y.txt")])
    n1 = res.output.count("Generation 1")
    print("(2) lines for generation 1 (one digest recorded):", n1)
    bad += n1 != 1
finally:
    shutil.rmtree(d)
sys.exit(1 if bad else 0)
