import os, shutil, tempfile, glob
from click.testing import CliRunner
import ascmhl.commands as C
def run(cmd, args):
    r = CliRunner().invoke(cmd, args); return r.exit_code, r.output[-300:], r.exception
def w(p, s):
    os.makedirs(os.path.dirname(p), exist_ok=True); open(p,'w').write(s)
for opts1, opts2 in ((['-h','xxh64'],['-dr','-h','md5']), (['-h','xxh64','-n'],['-dr','-h','xxh64','-n']), (['-h','xxh64'],['-dr','-h','xxh64'])):
    d = tempfile.mkdtemp(); root=os.path.join(d,'root')
    w(root+'/a.txt','A'); w(root+'/keep.txt','K'); w(root+'/N/S/s.txt','S')
    run(C.create,[root+'/N','-h','xxh64'])
    print(opts1, 'create', run(C.create,[root]+opts1)[0])
    os.rename(root+'/a.txt', root+'/b.txt'); w(root+'/newdir/n.txt','N')
    rc,out,exc = run(C.create,[root]+opts2)
    last = sorted(glob.glob(root+'/ascmhl/*.mhl'))[-1]
    print(opts2, rc, repr(exc), 'previousPath' in open(last).read())
    print('verify', run(C.verify,[root])[0], 'create', run(C.create,[root]+opts1)[0])
    shutil.rmtree(d)
